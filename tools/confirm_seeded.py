#!/usr/bin/env python3
"""Independent confirmation of every seeded change (done by the main author, not by the sub-agent that wrote it):
in a scratch worktree of /repo's HEAD the patch applies, the package imports, the pinned baseline suite (61 stable tests of
/root/.vp/BASELINE.json) still passes, demo.py exits 0 without and 1 with the patch. Writes seeded/<id>/confirmed.json."""
import json, os, subprocess, sys, tempfile, shutil, xml.etree.ElementTree as ET
from concurrent.futures import ThreadPoolExecutor
HERE = os.path.dirname(os.path.dirname(os.path.abspath(__file__)))
SEEDED = os.path.join(HERE, 'seeded')
BASE = json.load(open('/root/.vp/BASELINE.json'))


def sh(cmd, **kw):
    return subprocess.run(cmd, shell=True, capture_output=True, text=True, **kw)


def one(sid):
    d = os.path.join(SEEDED, sid)
    wt = tempfile.mkdtemp(prefix='confirm_%s_' % sid, dir='/tmp')
    os.rmdir(wt)
    res = {'id': sid}
    try:
        r = sh('git -C /repo worktree add -q --detach %s HEAD' % wt)
        if r.returncode:
            res['error'] = r.stderr[-200:]
            return res
        res['repo_head'] = sh('git -C /repo rev-parse --short HEAD').stdout.strip()
        env = dict(os.environ, PYTHONPATH=wt)
        res['demo_unpatched_exit'] = sh('/venv/bin/python %s/demo.py' % d, env=env, cwd=wt, timeout=900).returncode
        a = sh('git -C %s apply %s/patch.diff' % (wt, d))
        res['patch_applies'] = a.returncode == 0
        if a.returncode:
            res['error'] = a.stderr[-200:]
            return res
        res['imports'] = sh('/venv/bin/python -c "import bct"', env=env, cwd=wt).returncode == 0
        res['demo_patched_exit'] = sh('/venv/bin/python %s/demo.py' % d, env=env, cwd=wt, timeout=900).returncode
        junit = os.path.join(wt, 'junit.xml')
        sh('cd %s && /venv/bin/python -m pytest -q -p no:cacheprovider --timeout=900 --continue-on-collection-errors --junitxml=%s' % (wt, junit), env=env, timeout=3600)
        ok = {}
        for tc in ET.parse(junit).iter('testcase'):
            ok[tc.get('classname') + '::' + tc.get('name')] = not any(c.tag in ('failure', 'error', 'skipped') for c in tc)
        missing = [t for t in BASE['stable_pass'] if not ok.get(t)]
        res['baseline_61_pass'] = not missing
        res['baseline_failures'] = missing
        res['confirmed'] = bool(res['patch_applies'] and res['imports'] and res['baseline_61_pass'] and res['demo_unpatched_exit'] == 0 and res['demo_patched_exit'] == 1)
    except Exception as e:
        res['error'] = repr(e)
    finally:
        sh('git -C /repo worktree remove --force %s' % wt)
        shutil.rmtree(wt, ignore_errors=True)
        json.dump(res, open(os.path.join(d, 'confirmed.json'), 'w'), indent=1)
        print(sid, res.get('confirmed'), res.get('baseline_failures'), res.get('error', ''), flush=True)
    return res


if __name__ == '__main__':
    ids = sys.argv[1:] or sorted(x for x in os.listdir(SEEDED) if os.path.isdir(os.path.join(SEEDED, x)))
    with ThreadPoolExecutor(5) as ex:
        list(ex.map(one, ids))
