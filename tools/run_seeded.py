#!/usr/bin/env python3
"""Runs the registered checks against the seeded defects in /verif/seeded/<id>/ (patch.diff, demo.py, meta.json).

For each seeded change: a scratch worktree of /repo's HEAD is created outside /repo and /verif, the patch is applied, the
author's demonstration is run with and without the patch (must fail / pass), the baseline tests the change is closest to are
NOT re-run here (confirmed once by hand, recorded in meta.json), then `./check <property> --tier quick` is run with
VERIF_REPO pointing at the worktree; the worktree is removed.  Results go to seeded/<id>/result.json.
usage: run_seeded.py [ids...] [--tier quick|thorough]
"""
import json, os, subprocess, sys, shutil, time, tempfile
HERE = os.path.dirname(os.path.dirname(os.path.abspath(__file__)))
SEEDED = os.path.join(HERE, 'seeded')


def sh(cmd, **kw):
    return subprocess.run(cmd, shell=True, capture_output=True, text=True, **kw)


def main():
    args = [a for a in sys.argv[1:] if not a.startswith('--')]
    tier = 'thorough' if '--tier=thorough' in sys.argv or '--thorough' in sys.argv else 'quick'
    ids = args or sorted(d for d in os.listdir(SEEDED) if os.path.isdir(os.path.join(SEEDED, d)))
    summary = {}
    for sid in ids:
        d = os.path.join(SEEDED, sid)
        meta = json.load(open(os.path.join(d, 'meta.json')))
        pid = meta['property']
        wt = tempfile.mkdtemp(prefix='seeded_%s_' % sid, dir='/tmp')
        os.rmdir(wt)
        r = sh('git -C /repo worktree add -q --detach %s HEAD' % wt)
        res = {'id': sid, 'property': pid, 'tier': tier}
        try:
            if r.returncode != 0:
                res['error'] = 'worktree: ' + r.stderr[-300:]
                continue
            env = dict(os.environ, PYTHONPATH=wt)
            d0 = sh('/venv/bin/python %s' % os.path.join(d, 'demo.py'), env=env, cwd=wt, timeout=600)
            res['demo_unpatched_exit'] = d0.returncode
            a = sh('git -C %s apply %s' % (wt, os.path.join(d, 'patch.diff')))
            if a.returncode != 0:
                res['error'] = 'patch does not apply: ' + a.stderr[-300:]
                continue
            d1 = sh('/venv/bin/python %s' % os.path.join(d, 'demo.py'), env=env, cwd=wt, timeout=600)
            res['demo_patched_exit'] = d1.returncode
            t0 = time.time()
            c = sh('./check %s --tier %s' % (pid, tier), env=dict(os.environ, VERIF_REPO=wt), cwd=HERE, timeout=7200)
            res['check_exit'] = c.returncode
            res['check_seconds'] = round(time.time() - t0, 1)
            lines = c.stdout.splitlines()
            res['violation_lines'] = [l for l in lines if l.startswith('VIOLATION')][:5]
            keys = [l.strip() for l in lines if l.startswith('  ')]
            res['violation_keys'] = [k[:200] for k in keys][:12]
            res['n_violation_keys'] = len(keys)
            res['deductive_obligations_open'] = [k.split(' :: ')[0][11:] for k in keys if k.startswith('OBLIGATION ')][:12]
            res['bounded_clauses_violated'] = [k.split(' :: ')[0] for k in keys if not k.startswith('OBLIGATION ')][:12]
            res['other'] = [l[:200] for l in lines if l.startswith(('UNDECIDED', 'CHECKER-ERROR'))][:5]
            res['detected'] = c.returncode == 1 and bool(res['violation_lines'])
        finally:
            sh('git -C /repo worktree remove --force %s' % wt)
            shutil.rmtree(wt, ignore_errors=True)
            json.dump(res, open(os.path.join(d, 'result.json'), 'w'), indent=1)
            summary[sid] = res
            print(sid, 'detected=%s' % res.get('detected'), 'check_exit=%s' % res.get('check_exit'), 'demo %s->%s' % (res.get('demo_unpatched_exit'), res.get('demo_patched_exit')),
                  res.get('error', ''), (res.get('violation_keys') or [''])[0][:120], flush=True)
    # restore the evidence files of the unchanged tree is the caller's business (re-run the checks on /repo)
    # merge: a run over some ids keeps the recorded results of the others (each seeded/<id>/result.json is the primary record)
    last = os.path.join(SEEDED, 'last_run_%s.json' % tier)
    merged = {}
    if args and os.path.exists(last):
        try:
            merged = json.load(open(last))
        except Exception:
            merged = {}
    merged.update(summary)
    json.dump(merged, open(last, 'w'), indent=1)
    write_summary()


def write_summary():
    rows = []
    for sid in sorted(d for d in os.listdir(SEEDED) if os.path.isdir(os.path.join(SEEDED, d))):
        d = os.path.join(SEEDED, sid)
        try:
            meta = json.load(open(os.path.join(d, 'meta.json')))
            res = json.load(open(os.path.join(d, 'result.json'))) if os.path.exists(os.path.join(d, 'result.json')) else {}
            conf = json.load(open(os.path.join(d, 'confirmed.json'))) if os.path.exists(os.path.join(d, 'confirmed.json')) else {}
        except Exception as e:
            rows.append('| %s | unreadable: %s | | | | |' % (sid, e))
            continue
        ded = res.get('deductive_obligations_open') or []
        bnd = res.get('bounded_clauses_violated') or []
        # a refuted obligation whose counter-model was replayed on the real code is printed under its own REPLAYED- key
        ded = ded + [k for k in bnd if '/REPLAYED-' in k]
        bnd = [k for k in bnd if '/REPLAYED-' not in k]
        tier = ('deductive + bounded' if ded and bnd else 'deductive' if ded else 'bounded' if bnd else '-')
        rows.append('| %s | %s | %s | %s | %s | %s |' % (sid, str(meta.get('summary', ''))[:140].replace('|', '/'), conf.get('confirmed'), res.get('detected'), tier,
                                                    ('; '.join((ded[:2] + bnd[:2])))[:220].replace('|', '/')))
    with open(os.path.join(SEEDED, 'SUMMARY.md'), 'w') as fh:
        fh.write('# Seeded changes: which check catches which\n\nGenerated by tools/run_seeded.py (quick tier unless noted). `confirmed` = tools/confirm_seeded.py (patch applies, imports, 61 baseline tests pass, demo 0 -> 1).\n\n')
        fh.write('| id | change | confirmed | detected | tier | first clauses / obligations |\n|---|---|---|---|---|---|\n')
        fh.write('\n'.join(rows) + '\n')


if __name__ == '__main__':
    main()
