#!/bin/bash
# Robustness sweep: every quick check on the unchanged tree for several VERIF_SEED values; anything but exit 0 is reported.
# (evidence files are rewritten; re-run the checks with the default seed afterwards before committing evidence)
cd "$(dirname "$0")/.."
for seed in "$@"; do
  for c in 01 02 03 04 05 06 07 08 09 10 11 12 13 14 15 16 17 18 19 20; do
    VERIF_SEED=$seed ./check C$c --tier quick > /tmp/sweep_C${c}_$seed.log 2>&1
    rc=$?
    echo "seed=$seed C$c exit=$rc $(grep -c '^VIOLATION' /tmp/sweep_C${c}_$seed.log) violations; $(tail -1 /tmp/sweep_C${c}_$seed.log | cut -c1-120)"
  done
done
