#!/usr/bin/env python3
"""Generates /verif/MANIFEST.json from the table below (kept valid against /root/.vp/MANIFEST.schema.json)."""
import json, os, sys
HERE = os.path.dirname(os.path.dirname(os.path.abspath(__file__)))
BASE = json.load(open('/root/.vp/BASELINE.json'))

# id -> (category, text, note, technique, design_ref)
CLAIMS = {
 'C01': ('exploration',
         'BOUNDED stand-in only so far: the rewiring contracts (edge-list/matrix correspondence, degrees, weight multiset, diagonal, symmetry, out-strength, zero-rewirings identity, latticiser re-indexing) are woven into the real routines and evaluated at every loop head and at return, for all labelled graphs n=4 (und) / sampled n=4 (dir), n=5 sampled, and every random-choice script up to a stated depth.',
         'trusts: AST weaving (nothing removed from the function), scripted RandomState faithfully replacing numpy draws, output oracles in checks/bounded/rewire.py; not proved for all inputs',
         'runtime contracts woven into real code + exhaustive small-scope enumeration with scripted RNG (bounded)', '5/C01'),
}
NOT_YET = 'check not built yet in this round (see DESIGN.md section 10); no claim is made'

def main():
    props = [json.loads(l) for l in open(os.path.join(HERE, 'properties.jsonl'))]
    checks, na = [], []
    for p in props:
        pid = p['id']
        if pid in CLAIMS:
            cat, text, note, tech, ref = CLAIMS[pid]
            checks.append({
                'property_id': pid,
                'quick_cmd': './check %s --tier quick' % pid,
                'thorough_cmd': './check %s --tier thorough' % pid,
                'evidence_file': '/verif/evidence/%s.json' % pid,
                'replay_cmd_template': './check %s --replay {path}' % pid,
                'engine': 'pyvc+weave',
                'level_claimed': {'category': cat, 'text': text, 'design_ref': 'DESIGN.md ' + ref},
                'level_note': note,
                'technique': tech,
            })
        else:
            na.append({'property_id': pid, 'reason': NA.get(pid, NOT_YET)})
    man = {
        'version': 1,
        'setup_cmd': 'bash ./setup.sh',
        'hooks': {
            'guard': 'BCTPY_VERIF',
            'enable': 'none needed: contracts are woven into in-memory copies of the real functions (engine/weave.py) and the VC generator reads /repo sources directly; /repo carries no hook code',
            'baseline_off_cmd': BASE['cmd'].replace('--junitxml=<file>', '--junitxml=/tmp/bctpy_baseline.junit.xml'),
            'source_commits': [],
            'add_only': True,
        },
        'engines': [
            {'name': 'pyvc', 'path': 'engine/pyvc', 'serves_properties': [], 'kind_free_text': 'AST -> verification conditions -> z3/cvc5 over the real source, sidecar contracts (deductive, unbounded)'},
            {'name': 'pyframe', 'path': 'engine/pyframe', 'serves_properties': [], 'kind_free_text': 'static frame (mutation/alias) and effect (RNG) obligations over the real AST'},
            {'name': 'lean', 'path': 'engine/lean', 'serves_properties': [], 'kind_free_text': 'Lean 4 + Mathlib lemma library for finite sums/modularity identities'},
            {'name': 'weave', 'path': 'engine/weave.py', 'serves_properties': sorted(CLAIMS), 'kind_free_text': 'bounded stand-in: the same contracts executed on the real functions over exhaustive small scopes with a scripted RandomState'},
        ],
        'checks': checks,
        'not_applicable': na,
        'notes': 'Exit codes: 0 held (KNOWN-FINDING lines allowed), 1 VIOLATION, 2 undecided, 3 checker error. Genuine defects found are repaired by fix: commits in /repo or listed in known_findings.json.',
    }
    json.dump(man, open(os.path.join(HERE, 'MANIFEST.json'), 'w'), indent=1)
    try:
        import jsonschema
        jsonschema.validate(man, json.load(open('/root/.vp/MANIFEST.schema.json')))
        print('MANIFEST.json valid;', len(checks), 'checks,', len(na), 'not_applicable')
    except ImportError:
        print('written (jsonschema not importable here)')

NA = {}
if __name__ == '__main__':
    main()
