#!/usr/bin/env python3
"""Generates /verif/MANIFEST.json from the table below (kept valid against /root/.vp/MANIFEST.schema.json)."""
import json, os, sys
HERE = os.path.dirname(os.path.dirname(os.path.abspath(__file__)))
BASE = json.load(open('/root/.vp/BASELINE.json'))

# id -> (category, text, note, technique, design_ref)
PROOF_NOTE = ('trusted base: the VC generator engine/pyvc (own, ~2k lines; mitigated by deliberate-mutant runs and canaries), the assumed numpy contracts '
              'engine/pyvc/npspec.py, the sum/count update axioms of engine/pyvc/core.py:spec_axioms, z3; floats as reals, ints unbounded, no aliasing between '
              'parameters, partial correctness. Parts labelled bounded are never counted as proved.')
BND = ('BOUNDED stand-in only (no obligation discharged for all inputs yet): the property\'s contract is executed on the real functions over exhaustively '
       'enumerated small scopes with independent oracles; bounds are stated in the evidence. ')
BND_NOTE = 'trusts the oracles in checks/bounded/%s.py and the enumerators of engine/graphs.py; nothing is proved beyond the stated bounds'
LX = (' The extraction (engine/lean/extract.py) is mechanical and re-done from /repo on every run; it drops float rounding (reals), dtype, decorators, copies/aliasing '
      '(value semantics), x/0 conventions; trusted: the extractor, Lean kernel, Mathlib.')
CLAIMS = {
 'C01': ('proof',
         'Deductive: for randmio_und/_dir, randmio_und/_dir_connected, latmio_und/_dir, latmio_und/_dir_connected and randomize_graph_partial_und the whole function '
         'body is symbolically executed from /repo\'s source against sidecar contracts; loop invariants (edge list names present, pairwise distinct connections; '
         'per-node in/out degree; weight multiset via an arbitrary statistic F; diagonal; symmetry; out-strength; eff=0 => identity; argument untouched) and the '
         'postconditions of the statement (incl. latticiser re-indexing L1 and degrees under the caller\'s numbering) are discharged by z3 for all n, all budgets, '
         'all random draws. randomizer_bin_und: its rewiring loop is proved as a fragment (for every entry state with a symmetric 0/1 working matrix, INF diagonal and an edge list of present pairwise different connections: every pass keeps every node degree, and the entries still ahead of the loop counter keep naming present, pairwise different connections, which is what makes the next swap legitimate), and the whole function is proved for the executions that take neither the complement nor the full-node branch (path assumption, stated in the evidence; the fragment is used modularly and its entry conditions are obligations of that contract); the complement / full-node preprocessing and its undoing are bounded only (all graphs n<=5, both dtypes). The same contracts are also woven into the real '
         'functions and run over all graphs n=4 / sampled n=5 with every random-choice script to a stated depth (bounded cross-check, supplies replay inputs).',
         PROOF_NOTE + ' Abstracted blocks (havoc of their write set, syntactic frame obligation): connectivity test of the *_connected variants, default-D construction of the latticisers.',
         'contract-based deductive verification: own AST->VC generator (pyvc) + z3 on the real source (nine rewiring routines whole; randomizer_bin_und: rewiring loop as a fragment and whole function under a recorded path assumption); runtime-woven contracts on exhaustive small scopes as bounded stand-in', '5/C01'),
 'C06': ('proof',
         'Deductive for randmio_dir_signed and randmio_und_signed (loop invariants: per-node positive/negative in- and out-degree counts, positive and negative weight '
         'multisets via arbitrary F, diagonal untouched, symmetry, eff=0 => identity; callee pick_four_unique_nodes_quickly by contract), all discharged by z3 for all n '
         'and all draws. null_model_und_sign/_dir_sign (argsort/delete bookkeeping) are outside the subset: bounded only (signed graphs n<=5/4, wei_freq, bin_swaps, seeds) '
         'incl. recomputed strength correlations.',
         PROOF_NOTE, 'pyvc + z3 on the real source (2 of 4 routines); bounded stand-in for the null models', '5/C06'),
 'C11': ('other',
         'Mixed: deductive (pyvc+z3, all inputs) for the lattice-cost clause of the four latticisers (sum(D*R) never rises; for the undirected ones under a symmetric D), the '
         'mask clause of randomize_graph_partial_und and input rejection of randmio_und_connected / latmio_und_connected (execution passes the checks only if allclose(R,R.T) '
         'and number_of_components(R) <= 1, every other path raises BCTParamError). Connectivity preservation needs transitive-closure reasoning the VC generator cannot '
         'decide: bounded only (woven monitor: connected after every accepted swap, all connected graphs n<=5 / strongly connected digraphs n=4, scripts to a stated depth).',
         PROOF_NOTE + ' The symmetry of the default distance-to-diagonal matrix is assumed in the proof and checked by the bounded tier only.',
         'pyvc + z3 for cost/mask/rejection clauses; woven connectivity monitor over exhaustive small scopes (bounded) for the connectivity clause', '5/C11'),
 'C17': ('proof',
         'Deductive (pyvc+z3, all matrices, all thr, both copy flags) for threshold_absolute (exactly the off-diagonal entries >= thr survive), binarize, invert (w -> 1/w on the '
         'support and self-inverse), normalize (common factor, largest magnitude exactly 1, needs a nonzero entry), teachers_round (nearest integer, exact halves away from zero) '
         'and the copy-flag identity clauses (copy=True: argument untouched, fresh result; copy=False: the result is the argument). threshold_proportional (non-negative weights): diagonal cleared, '
         'symmetric input gives symmetric output, kept entries keep their weight, en = teachers_round(p (n^2-n)/ud), the number of surviving entries is ud * min(en, #links) (counting lemma: k pairwise '
         'distinct cells holding 1 sum to k; Lean), every kept entry is at least as strong as every dropped one (argsort contract). The weight_conversion dispatch is proved for copy=True through the contracts of the three utilities (modular calls); with copy=False it is bounded only.',
         PROOF_NOTE, 'pyvc + z3 (+ one Lean-proved counting lemma) on the real source for 6 utilities and the weight_conversion dispatch (copy=True, modular); bounded stand-in for the in-place dispatch', '5/C17'),
 'C13': ('proof',
         'Static frame analysis (engine/pyframe): for every public function of the bct package (155, enumerated from the source, not from a list) a flow-sensitive may-alias '
         'analysis with modular callee summaries generates one frame obligation per mutation site (subscript stores, in-place operators, np.fill_diagonal/put/place/copyto, '
         '.sort/.fill/..., out=, calls to bct functions that mutate a parameter): the written object may not alias a caller-supplied array; utilities with a copy flag are analysed '
         'under copy=True and copy=False. All obligations are discharged on every run. A dynamic snapshot cross-check (bounded: 143 of 152 callable public functions, inputs with '
         'non-zero diagonal, signed entries, arbitrary labels; also after exceptions) supplies failing inputs.',
         'trusted: the fresh/view/mutating classification of numpy calls in engine/pyframe/frame.py; numpy/scipy functions not listed there do not write to their arguments; no mutation through eval/exec or C extensions',
         'static may-alias frame analysis of the real source, obligation per mutation site; runtime snapshot comparison as bounded cross-check', '5/C13'),
 'C05': ('proof',
         'Static effect obligations (engine/pyframe/effects.py) over every seed-accepting function found in the source (38) and everything they call inside the package: E1 no use of '
         'np.random.* / random.* outside get_rng, E2 every draw is a method call on the local generator bound to get_rng(seed), E3 nested seed-accepting calls receive that generator object '
         '(raw seed only from a pure forwarder), E4 no other nondeterminism source. From E1-E4 and get_rng\'s documented cases the result is a function of the arguments and the generator\'s '
         'stream only. get_rng\'s own behaviour and the end-to-end claims (same seed same result, int seed = RandomState(int), global state bit-identical, unseeded = global stream) are '
         'cross-checked dynamically on all 38 functions (bounded).',
         'trusted: syntactic effect analysis; numpy/scipy routines called by bct draw no random numbers themselves; get_rng decided by the bounded tier only',
         'static effect obligations per seed-accepting function on the real source; dynamic reproducibility cross-check (bounded)', '5/C05'),
 'C15': ('proof',
         'Deductive (pyvc+z3, all n, all k / s) for kcore_bu, kcore_bd and score_wu (peel=False): loop invariant with a ghost alive-set updated from the program\'s own peel set: '
         'the working matrix is the input with rows and columns of peeled nodes zeroed and nothing else changed; MAXIMALITY: an arbitrary (Skolem) node set in which every member keeps '
         'degree / in+out degree / strength >= the bound inside the set is never peeled; at exit every node that still has a connection meets the bound; the reported size is the '
         'number of such nodes. Uses two code-independent counting lemmas (degree of a masked matrix = degree restricted to the mask; restricted degree is monotone in the set). '
         'kcoreness_centrality_bu/_bd are proved modularly against the abstract results KC(CIJ,k), KN(CIJ,k) of the core routine (callee body not re-entered): loop invariant = every node\'s coreness is 0 or a level k '
         'already visited whose returned core contains the node, and no visited level >= 1 above it does; at exit coreness = the largest k < N whose core contains the node, kn[k] = the reported core size. '
         'Nestedness (the (k+1)-core lies inside the k-core; the s2-core inside the s1-core for s1 <= s2) of kcore_bu, kcore_bd and score_wu is a corollary over their contracts: the maximality clause of the k-core, applied to the connected nodes of the (k+1)-core (contracts/corollaries.py; counting lemmas in Lean). The peel-order outputs are bounded only (all graphs n<=5/4, every k, subset-enumeration oracle); in+out degree >= N for kcoreness_centrality_bd is a known finding.',
         PROOF_NOTE + ' Lemmas lemma_masked_degree, lemma_degree_monotone and the callee contracts of degrees_und/degrees_dir/strengths_und are assumed (code-independent statements).',
         'pyvc + z3 with ghost state and a Skolem set for maximality, modular caller contracts for the coreness routines, nestedness as corollaries over the core contracts; bounded subset-enumeration oracle for peel orders', '5/C15'),
 'C02': ('proof',
         'Deductive (pyvc+z3) for modularity_finetune_und and modularity_finetune_dir, whole function bodies, all networks with positive total weight (symmetric for _und), all gamma, all start '
         'partitions with arbitrary labels, all visiting orders: the returned labels are exactly 1..k (np.unique rank contract) and the returned q equals the modularity Q(W, ci, gamma) of the '
         'returned labels: the aggregation loops are proved to build the module-by-module aggregate, and the code-independent identity q_from_aggregate (trace(w)/s - gamma sum(w/s . w/s) = Q; '
         'proved in Lean, DESIGN Appendix A.2) closes the gap. modularity_louvain_und (hierarchy=False) is proved END TO END as well: the node-moving sweeps of a level are used modularly through the proved fragment contract modularity_louvain_und#level, and the outer loop over hierarchy levels (lists ci/q of symbolic length, np.unique relabelling, composition of label vectors, aggregation of the working matrix, formula of q, stopping test, returned pair) is proved with the invariant `working matrix = aggregate of the ARGUMENT under the current labels of the original nodes`, using the Lean-proved identity that aggregation composes (agg_compose); result: labels exactly 1..k, q = Q(argument, returned labels) unless no level was accepted (then q = -1 with singleton labels, which needs Q(singletons) <= -1 + 1e-10: impossible for gamma < 2, covered by the bounded tier). The signed routines modularity_finetune_und_sign, modularity_probtune_und_sign and modularity_louvain_und_sign (whole functions, all five qtypes at once) are proved the same way for the signed quality d0 Q+ - d1 Q-: labels 1..k, returned q = signed quality of the returned labels (finetune: the definition of the quality unfolded as a double sum; Louvain: from the aggregated positive/negative matrices), and d0, d1, s0, s1 are the factors of the requested type incl. the adjustment for an absent sign. community_louvain (default objective B=\'modularity\', default start or ANY given start partition, non-negative weights, directed or undirected) is proved end to end as well: construction and symmetrisation of the kernel, initial bookkeeping, first-iteration branch, composition of labels, aggregation, q = trace: the returned q is QrawB(kernel, labels)/s, which is the modularity of the returned labels (Lean: Q_from_symmetrised_kernel). All other detectors (modularity_louvain_dir = known finding, a user-supplied objective matrix for community_louvain (its other built-in objectives potts / negative_sym / negative_asym are proved like modularity: q = objective of the returned labels for the documented kernel, pinned cell by cell), hierarchy=True output, community_louvain objectives, spectral '
         'modularity_und/_dir and the given-partition branches) are bounded only: independent O(n^2) reference formulas on all graphs n<=4 (weights {0,1,2}), all start partitions, all visiting '
         'orders n<=4, gamma in {.8,1,1.3}, all qtypes.',
         PROOF_NOTE + ' Modularity lemmas (gain, q_from_aggregate, relabelling, node-to-module sum identities) are assumed in SMT and proved separately in Lean; nonlinear products kept uninterpreted.',
         'pyvc + z3 + Lean-proved modularity identities for finetune_und/_dir and modularity_louvain_und (modular use of the level fragment); bounded independent-reference check for the remaining detectors', '5/C02'),
 'C07': ('proof',
         'Deductive (pyvc+z3) for modularity_finetune_und and modularity_finetune_dir: loop invariant KInv (node-to-module sums knm, node degrees, module degrees equal their definitions for the '
         'current labels: established by the initialisation loops, preserved by every move via the single-label-change update axioms) and Q(current labels) >= Q(start labels): the gain the '
         'code computes is proved equal to the expression of the gain lemma (Qraw_move + nm_modularity, proved in Lean, DESIGN Appendix A), a move is accepted only if it exceeds 1e-10, hence '
         'every accepted move raises Q; the final relabelling does not change Q. For modularity_louvain_und and community_louvain ONE hierarchy level (initialisation of the bookkeeping + all node-moving sweeps) is proved the same way as a fragment contract for an arbitrary working matrix / objective matrix (assumed at level entry: symmetric aggregate, s = its total; consistent Hnm); the same fragment contract on modularity_louvain_dir leaves exactly the obligations of the known finding open (knm_i initialisation, exchanged updates). For modularity_louvain_und the levels are COMPOSED deductively (whole-function contract using the level fragment modularly; invariant Q(argument, current labels of the original nodes) >= Q(argument, singletons), via the Lean-proved composition of aggregation): the returned partition is never worse than singletons, for all symmetric networks with positive total weight, all gamma, all visiting orders, any number of levels. modularity_louvain_und_sign is composed the same way (signed quality never below singletons, all qtypes). community_louvain (B=\'modularity\') likewise, from the default start and from any given start partition: objective and modularity never below the (canonicalised) start. The built-in objectives potts / negative_sym / negative_asym are proved the same way (objective never below the start). A user-supplied objective matrix, and hierarchy=True output, are bounded only: a monitor woven into the real '
         'functions compares the claimed gain of every move with the exact change of an independent reference Q (all graphs n<=4, all start partitions, all visiting orders, hierarchy levels).',
         PROOF_NOTE + ' Gain lemma and sum identities assumed in SMT (Lean-proved); nonlinear products kept uninterpreted with sign axioms for quotients.',
         'pyvc + z3 + gain lemma for finetune_und/_dir/_und_sign and modularity_louvain_und end to end; level fragments for the other Louvain routines; woven per-move gain monitor over exhaustive small scopes (bounded) for the rest', '5/C07'),
 'C12': ('other',
         'Mixed: deductive (pyvc+z3, all n, all s,t) for retrieve_shortest_path: under the abstract contract FloydConsistent(L, SPL, hops, Pmat) of its producer (next hop is an existing '
         'connection, hop count decreases by one, SPL[i,j] = L[i,p] + SPL[p,j], hops = 0 exactly for i = j or unreachable) the returned sequence starts at s, ends at t, has hops[s,t]+1 nodes, '
         'moves along existing connections, its accumulated length is SPL[s,t], and it is empty exactly when there is no path of positive length. That distance_wei_floyd ESTABLISHES '
         'FloydConsistent is proved as well for transform=None and transform=inv (contract distance_wei_floyd:paths and its :inv instance: the invariant DIRECT / TRI / FIRST / NEXT of the hop-count and next-node bookkeeping is inductive on its own; with the distance contract it gives FloydConsistent, which is an obligation at the call of retrieve_shortest_path in the corollary path_from_floyd), under the assumption that np.isclose(a, b, rtol=1e-12, atol=0) is a == b (exact real arithmetic). For the log transform it is bounded only: the predicate is evaluated as a postcondition of the producer on all '
         'directed graphs n<=3/4 and undirected n<=4/5 with lengths {0,1,2}, tie palettes, log/inv transforms. navigation_wu: ONE greedy navigation (the walk loop, arbitrary source and target, with or without max_hops) is proved as a fragment: the '
         'recorded node list is a walk from the source along existing connections; on success it ends at the target and the reported lengths are its hop count, summed connection length and summed distance; on failure all three are infinite. '
         'The enclosing loops, the PL matrices, the dict of paths and the success ratio are bounded only.',
         PROOF_NOTE + ' The producer establishes FloydConsistent deductively for transform None and inv (np.isclose modelled as equality); for the log transform it is checked by the bounded tier on the producer.',
         'pyvc + z3: retrieve_shortest_path against the precondition FloydConsistent, distance_wei_floyd (transform None / inv) establishing it, the composition as a corollary over the two contracts, and the walk loop of navigation_wu (fragment); transforms of the producer and navigation bookkeeping checked at run time on exhaustive small scopes (bounded)', '5/C12'),
 'C09': ('proof',
         'numpy->Lean extraction of the REAL source of clustering_coef_bd/wd/wu and transitivity_bu/bd/wu/wd on every run, and stored Lean proofs (all n, all real matrices; cuberoot as an abstract '
         'cbrt with cbrt x ^ 3 = x) that each value equals its triple-enumeration definition: Fagiolo numerators (1/2) sum_{j,h} (a_ij+a_ji)(a_jh+a_hj)(a_hi+a_ih) and denominators K(K-1)-2 K_bi, Onnela '
         'intensities, the masking clause (no triangle => exactly 0), transitivity = ratio of TOTALS with no per-node masking (11 theorems). clustering_coef_bu (a loop over nodes) is proved with the VC generator: C[u] = (sum of G[v][w] over ordered pairs of neighbours of u) / (k (k-1)) for k >= 2 neighbours, 0 otherwise (loop invariant; the link between G[np.ix_(V, V)] and the neighbour-pair sum is a Lean theorem). clustering_coef_wu_sign (loops) and the '
         '[0,1] range clause are bounded only (pure-Python triple enumeration oracles on all graphs n<=5/4, weighted palettes, signed).',
         'A theorem that stops checking against the re-extracted definition is the reported obligation. The extraction (engine/lean/extract.py) is mechanical and re-done from /repo on every run; it drops float rounding (reals), dtype, decorators, copies/aliasing (value semantics), x/0 conventions; trusted: the extractor, Lean kernel, Mathlib.',
         'mechanical numpy->Lean extraction + Lean 4/Mathlib proofs of the definitional identities; pyvc + z3 loop invariant for clustering_coef_bu; bounded triple-enumeration oracle for clustering_coef_wu_sign and the range clause', '5/C09'),
 'C10': ('exploration',
         'Partly deductive: Lean proofs over the extracted real source (all n) of 11 reductions: strengths = degrees on 0/1 input (und, dir), in = out = degree on symmetric input, '
         'clustering_coef_wd = _bd and transitivity_wd = _bd on 0/1 input, _wd = _wu on symmetric input, transitivity_wu = _bu and _bd = _bu on symmetric 0/1 input. distance_wei = distance_bin (distance matrices) and efficiency_wei = efficiency_bin (global variant) on every 0/1 matrix are corollaries over the proved contracts '
         '(contracts/corollaries.py: the calls replaced by the clause lists of the callee contracts, which are verified in the same run; Lean: wd_binary_smt, weighted distance = hop distance when every connection has length 1). The loop-based pairs '
         '(the edge-count output of distance_wei, betweenness, edge betweenness, local efficiency, assortativity, clustering_coef_wu/bu and bd/bu, ignores-weights routines) are BOUNDED only: both routines evaluated on the '
         'same matrix for all 0/1 matrices n<=3/5 and symmetric weighted matrices n<=5. Level claimed is exploration because most pairs named in the property are bounded.',
         BND_NOTE % 'C10' + LX, 'Lean proofs for the algebraic pairs; pyvc corollaries over the proved contracts of distance_wei / distance_bin and efficiency_wei / efficiency_bin; pairwise comparison on exhaustive small scopes (bounded) for the other loop-based pairs', '5/C10'),
 'C04': ('exploration',
         'Partly deductive: Lean proofs over the extracted real source (all n, every permutation sigma of Fin n) of renumbering equivariance/invariance for 16 algebraic measures (degrees, strengths, densities, '
         'clustering_coef_bd/wd/wu, four transitivities, given-partition modularity_und/_dir) — 17 theorems. For clustering_coef_bu (per-node vector) and seven loop-based distance measures (distance_bin, distance_wei, distance_wei_floyd, breadthdist, reachdist: the distance matrix / reachability of the renumbered network is the renumbered result; efficiency_bin, efficiency_wei global: unchanged) equivariance is a corollary over their proved contracts (contracts/renumbering.py; Lean: hop distance, weighted distance and totals are invariant under a permutation of the nodes). All other loop-based, LAPACK-based and tie-breaking measures (71 registry entries incl. the bounded re-check of these seven: distances, '
         'efficiency, betweenness, cores, rich club, assortativity, PageRank, eigenvector/subgraph centrality, matching index, gtom, edge overlap, flow coefficient, participation, z-score, components ...) are '
         'BOUNDED only: all adjacent transpositions on relabelling-closed exhaustive sets (undirected n<=5, directed n<=3), weighted/signed variants, symmetric graphs with repeated eigenvalues. Level claimed '
         'is exploration because the property quantifies over every measure.',
         BND_NOTE % 'C04' + LX, 'Lean equivariance proofs for algebraic measures; pyvc corollaries over proved contracts for seven distance measures and clustering_coef_bu; exhaustive small-scope equivariance check (bounded) for the rest', '5/C04'),
 'C14': ('exploration',
         'Partly deductive: Lean proofs over the extracted real source that the given-partition values of modularity_und, modularity_dir (label_invariant under injective g; depends on the partition only) and '
         'modularity_und_sign (5 qtypes, relative to the rank contract of np.unique and free node degrees) are invariant under renaming of labels — 9 theorems. participation_coef (degree undirected/out) is proved (pyvc+z3) to return 1 - sum_m modsum(W, ci, x, m)^2 / strength(x)^2 (0 for isolated nodes) for the rank labels produced by np.unique, an expression that depends on the labels only through the partition (Lean: msq_relabel); the statement of the property for this routine -- two label vectors that induce the same partition, contiguous or not, give the same coefficients -- is discharged as a corollary over that contract (contracts/relabelling.py). participation_coef_sign, '
         'module_degree_zscore, diversity_coef_sign, partition_distance (symmetry, identity, range), agreement, ci2ls/ls2ci are BOUNDED only (all partitions n<=5 x relabellings incl. zero-based, '
         'non-contiguous, negative). gateway_coef_sign is a known finding.',
         BND_NOTE % 'C14' + LX, 'Lean label-invariance proofs for the modularity values; pyvc functional contract of participation_coef + corollary (same partition, any labels: same result); relabelling on all partitions of small node sets (bounded) for the other consumers', '5/C14'),
}
CLAIMS['C16'] = ('exploration', 'Mostly bounded: the main clause (labels of get_components = classes of mutually reachable nodes) is checked by executing the contract on the real function over exhaustively enumerated small scopes with an independent oracle; bounds are stated in the evidence. The body of get_components builds a Python list of sets with comprehensions: outside the VC generator\'s subset (and its natural invariant is a nested-quantifier list-of-sets '
                 'statement, DESIGN 5/C16). Two parts are discharged deductively on every run: (a) that distance_bin, breadthdist and reachdist agree with each other entry by entry off the diagonal (and the two reachability flags agree and mean "finite distance") is a corollary over their proved contracts (contracts/corollaries.py, networks without self-loops); (b) the rejection clause (prefix contract: execution passes the symmetry check only if A[x,y] = A[y,x] for all cells, every other '
                 'path raises BCTParamError; argument untouched). Bounded: ALL labelled undirected graphs n<=5 (quick) / n<=6 (thorough) incl. non-zero diagonals, weights, forests, late-merge edge orders; own union-find oracle; '
                 'agreement of the labels with distance_bin, breadthdist, reachdist.', BND_NOTE % 'C16', 'bounded exhaustive enumeration with an independent union-find; pyvc prefix contract for the rejection clause; pyvc corollary for the agreement of the three hop-distance routines', '5/C16')
CLAIMS['C03'] = ('other', 'Mixed: distance_bin is proved for ALL graphs (pyvc+z3, 39 obligations): loop invariant of the algebraic-shortest-paths loop (support of nPATH = walks of exactly n connections, via the support '
                 'contract of np.dot on non-negative matrices; found entries hold the shortest-walk length; open entries have no walk shorter than n) and, at exit, by the walk-decomposition lemmas, every open pair has no walk at all: '
                 'the result is the shortest-walk (= shortest-path) length, INF exactly when unreachable, 0 on the diagonal. efficiency_bin (global variant) is proved too: its nested helper distance_inv runs the same loop and returns 1/length (0 where there is no path, 0 on the diagonal; proved on its own, used through its contract) and E = sum of these inverses / (n*n - n). breadth (BFS from one source: the classical queue invariant -- queue = the gray nodes in level order spanning at most two levels, discovered nodes carry the shortest-walk length, black nodes have no undiscovered neighbour, everything up to the head level is discovered; exit by the Lean-proved closure lemma) and breadthdist (modular on breadth; reachability flag = finite distance) are proved for networks without self-loops. reachdist (ensure_binary=True) is proved as well: its recursive helper reachdist2 against its own contract (after accumulating the powers 1..p: R marks the pairs within p connections, D counts the powers at which a pair was reachable), the inversion `powr - D + 1`, the depth limit n+2 and the explicit infinities for nodes without incoming / outgoing connections give the shortest-path length, INF exactly when unreachable, and the flag R = finite distance. distance_wei (Dijkstra with batches of equidistant nodes; non-negative lengths) is proved for its distance matrix: permanent nodes hold wd, the batch is exactly the temporary nodes at the current minimum, every other temporary node holds its tentative value (minimum over connections from permanent nodes, attained at a ghost predecessor) strictly above the batch, G1 has the columns of permanent nodes cleared; the Lean-proved Dijkstra step (the minimum tentative value is the true distance, nothing reachable is closer, all-infinite means unreachable) closes each round; its edge-count output B is not specified. Everything else the property names (distance_wei_floyd, edge-count '
                 'outputs, agreement of the five routines, charpath / local efficiency / rout_efficiency means) is BOUNDED only: independent min-plus closure / BFS oracle on all digraphs n<=3/4, graphs n<=5/6, tie palettes, transforms. Level is '
                 'other (mixed): all five distance routines (distance_bin, distance_wei, distance_wei_floyd for transform=None and transform=inv -- Floyd-Warshall: every finite entry is the length of a walk and no walk whose intermediate nodes are below the pivot counter is shorter, by the Lean-proved decomposition of a walk at the pivot --, breadthdist, reachdist), efficiency_bin and efficiency_wei (both global variant; efficiency_wei: invert through its contract, nested Dijkstra helper distance_inv_wei proved on its own, E = sum of 1/(minimum total length 1/w) over ordered pairs / (n*n-n)) are proved (for distance_wei also its edge-count matrix B: contract distance_wei:edges, every finite entry D[u,w] is the length of a walk with exactly B[u,w] connections, hence at exit of a minimum-length path; for distance_wei_floyd also the edge-count clause: by the contract distance_wei_floyd:paths and the contract of retrieve_shortest_path, see C12, following Pmat from s to t takes exactly hops[s,t] existing connections whose lengths add up to SPL[s,t], the minimum), and so are corollaries over these contracts (contracts/corollaries.py): distance_wei = distance_bin on 0/1 matrices, and distance_bin = breadthdist = reachdist off the diagonal with agreeing reachability flags; rout_efficiency (transform=None) global part as a prefix contract on top of the Floyd contract (Erout = 1/SPL off the diagonal, GErout = total / (n*n-n)); the log transform of distance_wei_floyd, charpath and the local variants are bounded.', BND_NOTE % 'C03' + ' Proved part: ' + PROOF_NOTE + ' Walk lemmas (incl. the pigeonhole bound sdist <= n-1) and INF > n are assumed.',
                 'pyvc + z3 + Lean-proved graph lemmas (walks, Dijkstra step, Floyd-Warshall pivot decomposition) for all five distance routines (distance_wei_floyd: transform None / inv), efficiency_bin / efficiency_wei (global) and corollaries over these contracts; exhaustive small-scope comparison with an independent min-plus/BFS oracle (bounded) for charpath, the log transform and the local variants', '5/C03')
for _pid in ['C08', 'C18', 'C19', 'C20']:
    CLAIMS[_pid] = ('exploration', BND + 'See DESIGN.md section 5/%s for the clauses and why the deductive tier does not (yet) reach them.' % _pid,
                    BND_NOTE % _pid, 'runtime contracts on the real code over exhaustive small scopes (bounded stand-in)', '5/' + _pid)
CLAIMS['C18'] = ('exploration',
                 'Partly deductive: 15 Lean theorems over the extracted real source (all n, all real matrices). pagerank_centrality (falff=None and falff given): the matrix and right-hand side handed to scipy.linalg.solve are '
                 'I - d A D^-1 and (1-d) f with D the column sums (zeros replaced by one); the returned vector sums to one; under the contract of that one solve call (M r0 = b), no zero column sum and d != 1 the returned r '
                 'satisfies r = d A D^-1 r + (1-d) f. diffusion_efficiency: the matrix is 1/mfpt off the diagonal and 0 on it, the scalar is its mean over ordered pairs (mfpt abstract). subgraph_centrality = diag(expm(CIJ)) '
                 '(expm abstract). eigenvector_centrality_und = |column argmax(vals) of vecs|, which under the eigen-contract of that call is |v| >= 0 for an eigenvector of a largest eigenvalue. BOUNDED only: the defining '
                 'equation of mean_first_passage_time, PageRank positivity / dangling nodes, unit norm and basis independence for repeated eigenvalues, findwalks = matrix powers, all LAPACK results (residuals on connected '
                 'graphs n<=5, cycles, complete bipartite, regular, disjoint copies; d grid). Level is exploration because the numerical kernels and two of the six routines are bounded.',
                 BND_NOTE % 'C18' + LX, 'Lean proofs over the mechanically extracted source for the algebra around the LAPACK calls; residual checks on exhaustive small scopes (bounded) for the rest', '5/C18')
CLAIMS['C19'] = ('exploration',
                 'Partly deductive: 10 Lean theorems over the extracted real source of the nested helpers of nbs_bct (all group sizes, all real data): ttest2_stat_only equals the pooled-variance two-sample statistic '
                 '(mean x - mean y) / (sqrt(((n1-1) var x + (n2-1) var y)/(n1+n2-2)) sqrt(1/n1+1/n2)), negated for tail=left, absolute value for tail=both, 0 under the zero-variance guard; swapping the two groups '
                 'together with the tail leaves it unchanged, tail=both is swap-invariant, any reordering of subjects within a group leaves it unchanged; the same three facts for the paired statistic (joint permutation of '
                 'pairs); the p-value statement is #{null >= component size}/k. BOUNDED only: suprathreshold components and their labels (get_components), the permutation loop that fills the null distribution, '
                 'extent/intensity sizes, the end-to-end symmetry clauses (small subject sets, brute-force oracle). Level is exploration because the component and permutation logic is bounded.',
                 BND_NOTE % 'C19' + LX, 'Lean proofs over the mechanically extracted t-statistic helpers and p-value statement; brute-force oracle on small subject sets (bounded) for the rest', '5/C19')
CLAIMS['C20'] = ('other',
                 'Mixed: deductive (pyvc+z3, all n, all k in range, all seeds) for four generators. makerandCIJ_dir / _und: the k distinct flat positions drawn among the off-diagonal (upper-triangle) cells are set to 1: exactly k (2k '
                 'after symmetrisation) ones, 0/1 entries, empty diagonal, symmetric (und); uses counting lemmas (an enumeration without repetition of the off-diagonal cells has n*n-n entries; k distinct cells holding 1 sum to k). '
                 'maketoeplitzCIJ: the acceptance loop ends only with exactly k connections, the Toeplitz template has a zero diagonal so the diagonal stays empty (library contracts of toeplitz / norm.pdf / random_sample assumed). '
                 'makeringlatticeCIJ: loop invariant of the fill loop (after pass c exactly the cells at circular distance <= c hold 1; the pass adds exactly the band at distance c, the clamp np.minimum(...,1) handling the antipodal band of even n), '
                 'the excess is at most the size of the last band, the removal loop clears exactly `overby` distinct cells of the last band: exactly k connections, nearer bands full, farther bands empty, empty diagonal. '
                 'makefractalCIJ: the final part (from the probability matrix to the return) is proved as a fragment for an arbitrary exponent matrix: the result is 0/1 with an empty diagonal and the reported count is its number of connections (template side assumed equal to n; the power is uninterpreted). BOUNDED only: makeevenCIJ, the hierarchical template of makefractalCIJ, makerandCIJdegreesfixed (degree sequences), and the parameter grids of all seven generators (n<=8, every k, seeds).',
                 BND_NOTE % 'C20' + ' Proved part: ' + PROOF_NOTE + ' Counting lemmas are assumed in SMT and proved in Lean (section gencount); scipy/RandomState library contracts are assumed.',
                 'pyvc + z3 + Lean-proved counting lemmas for four generators and the final part of makefractalCIJ (fragment); exhaustive parameter grids (bounded) for the rest', '5/C20')
CLAIMS['C08'] = ('exploration',
                 'Mostly bounded. Deductive part (pyvc+z3, all binary graphs): the FORWARD PASS of betweenness_bin, as a prefix contract up to the dependency accumulation: the powers loop maintains NPd = G^d (value) with support = walks '
                 'of d connections, L[x,y] = shortest-path length for found pairs, no walk of at most d connections for open pairs, NSP[x,y] = (G^t)[x,y] for pairs found at length t; at the end L is the shortest-path length (INF exactly when '
                 'unreachable, 0 on the diagonal) and NSP the number of shortest paths (entry of the matrix power at that length; 1 where there is no path). The dependency accumulation (Brandes recursion in matrix form), betweenness_wei, '
                 'edge_betweenness_bin and edge_betweenness_wei, the agreement of node vectors and the sum identities are BOUNDED only: brute-force enumeration of all shortest paths on all digraphs n<=4 / graphs n<=5/6, tie palettes. Level is '
                 'exploration because the betweenness values themselves are never proved.',
                 BND_NOTE % 'C08' + ' Proved part: ' + PROOF_NOTE + ' Walk lemmas and matrix-power equations assumed in SMT, proved in Lean; np.dot support contract assumed (precondition discharged).',
                 'pyvc + z3 + walk lemmas for the forward pass of betweenness_bin; brute-force shortest-path enumeration on exhaustive small scopes (bounded) for the betweenness values', '5/C08')
NOT_YET = 'check not built yet in this round (see DESIGN.md section 10); no claim is made'

def main():
    props = [json.loads(l) for l in open(os.path.join(HERE, 'properties.jsonl'))]
    checks, na = [], []
    for p in props:
        pid = p['id']
        if pid in CLAIMS:
            cat, text, note, tech, ref = CLAIMS[pid]
            checks.append({
                'property_id': pid,
                'quick_cmd': './check %s --tier quick' % pid,
                'thorough_cmd': './check %s --tier thorough' % pid,
                'evidence_file': '/verif/evidence/%s.json' % pid,
                'replay_cmd_template': './check %s --replay {path}' % pid,
                'engine': 'pyvc+weave',
                'level_claimed': {'category': cat, 'text': text, 'design_ref': 'DESIGN.md ' + ref},
                'level_note': note,
                'technique': tech,
            })
        else:
            na.append({'property_id': pid, 'reason': NA.get(pid, NOT_YET)})
    man = {
        'version': 1,
        'setup_cmd': 'bash ./setup.sh',
        'hooks': {
            'guard': 'BCTPY_VERIF',
            'enable': 'none needed: contracts are woven into in-memory copies of the real functions (engine/weave.py) and the VC generator reads /repo sources directly; /repo carries no hook code',
            'baseline_off_cmd': BASE['cmd'].replace('--junitxml=<file>', '--junitxml=/verif/evidence_scratch/baseline.junit.xml'),
            'source_commits': [],
            'add_only': True,
        },
        'engines': [
            {'name': 'pyvc', 'path': 'engine/pyvc', 'serves_properties': ['C01', 'C02', 'C03', 'C06', 'C07', 'C11', 'C12', 'C08', 'C14', 'C15', 'C16', 'C17', 'C20'], 'kind_free_text': 'AST -> verification conditions -> z3/cvc5 over the real source, sidecar contracts (deductive, unbounded)'},
            {'name': 'pyframe', 'path': 'engine/pyframe', 'serves_properties': ['C05', 'C13'], 'kind_free_text': 'static frame (mutation/alias) and effect (RNG) obligations over the real AST'},
            {'name': 'lean', 'path': 'engine/lean', 'serves_properties': ['C01', 'C02', 'C03', 'C04', 'C06', 'C07', 'C08', 'C09', 'C10', 'C11', 'C12', 'C14', 'C15', 'C18', 'C19', 'C20'], 'kind_free_text': 'Lean 4 + Mathlib: lemma library justifying every SMT axiom (VerifLemmas.lean) and numpy->Lean extraction of the real source with stored proofs (extract.py, ExtractedProofs.lean)'},
            {'name': 'weave', 'path': 'engine/weave.py', 'serves_properties': sorted(CLAIMS), 'kind_free_text': 'bounded stand-in: the same contracts executed on the real functions over exhaustive small scopes with a scripted RandomState'},
        ],
        'checks': checks,
        'not_applicable': na,
        'notes': 'Exit codes: 0 held (KNOWN-FINDING lines allowed), 1 VIOLATION, 2 undecided, 3 checker error. Genuine defects found are repaired by fix: commits in /repo or listed in known_findings.json.',
    }
    json.dump(man, open(os.path.join(HERE, 'MANIFEST.json'), 'w'), indent=1)
    try:
        import jsonschema
        jsonschema.validate(man, json.load(open('/root/.vp/MANIFEST.schema.json')))
        print('MANIFEST.json valid;', len(checks), 'checks,', len(na), 'not_applicable')
    except ImportError:
        print('written (jsonschema not importable here)')

NA = {}
if __name__ == '__main__':
    main()
