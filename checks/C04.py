import sys, os
sys.path.insert(0, os.path.dirname(os.path.dirname(os.path.abspath(__file__))))
from engine.common import main_wrapper
from checks.driver import make_main
if __name__ == '__main__':
    main_wrapper(make_main('C04'))
