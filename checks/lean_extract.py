"""Deductive tier for the purely algebraic measures (DESIGN 2.3; properties C04, C09, C10, C14).

On every run:  engine/lean/extract.py re-extracts Lean definitions from the CURRENT source of $VERIF_REPO  ->  the stored proof
scripts engine/lean/ExtractedProofs.lean are re-checked by `lean` against those definitions  ->  one Obligation
`leanx/<theorem>` (backend 'lean') per theorem annotated for the property.

Attribution of failures: a single combined file is compiled; Lean keeps going after a failing declaration, so every failing
theorem produces its own `file:line:col: error` (mapped to the enclosing theorem by line span) and, independently, the generated
footer `#print axioms <theorem>` shows `sorryAx` for every theorem that failed or that depends on one that failed, and an
`unknown constant` error for a theorem whose statement no longer elaborates (e.g. its function was refused by the extractor).
A theorem is 'discharged' iff no error lies in its span and its axioms are within {propext, Classical.choice, Quot.sound}.
"""
import os, re, sys, json, time, shutil, subprocess, importlib.util
sys.path.insert(0, os.path.dirname(os.path.dirname(os.path.abspath(__file__))))
from engine.common import VERIF, REPO, Obligation

LEAN_DIR = os.path.join(VERIF, 'engine', 'lean')
PROOFS = os.path.join(LEAN_DIR, 'ExtractedProofs.lean')
ALLOWED_AXIOMS = {'propext', 'Classical.choice', 'Quot.sound'}
LOCK_KEY = 'leanx'

# functions that the extractor handles on the unchanged tree: a refusal of one of these is a checker-level condition (exit 3)
EXPECTED_EXTRACTABLE = [
    'degrees_und', 'degrees_dir', 'strengths_und', 'strengths_dir', 'density_und', 'density_dir',
    'clustering_coef_bd', 'clustering_coef_wd', 'clustering_coef_wu',
    'transitivity_bu', 'transitivity_bd', 'transitivity_wu', 'transitivity_wd',
    'modularity_und', 'modularity_dir', 'modularity_und_sign',
    'pagerank_centrality', 'diffusion_efficiency', 'subgraph_centrality', 'eigenvector_centrality_und',
    'binarize', 'nbs_bct']
MODULE_OF = {'bct/algorithms/degree.py': 'bct.algorithms.degree', 'bct/algorithms/physical_connectivity.py': 'bct.algorithms.physical_connectivity',
             'bct/algorithms/clustering.py': 'bct.algorithms.clustering', 'bct/algorithms/modularity.py': 'bct.algorithms.modularity',
             'bct/utils/miscellaneous_utilities.py': 'bct.utils.miscellaneous_utilities',
             'bct/algorithms/centrality.py': 'bct.algorithms.centrality', 'bct/algorithms/efficiency.py': 'bct.algorithms.efficiency',
             'bct/utils/other.py': 'bct.utils.other', 'bct/nbs.py': 'bct.nbs'}
EXTRA_FUNCTION_FILES = {'cuberoot': 'bct/utils/miscellaneous_utilities.py'}

DROPPED = [
    "lean extraction: float64 is ℝ (no rounding); numpy x/0 = ±inf/nan is Lean's x/0 = 0; the only infinity modelled is the masking idiom K[np.where(c == 0)] = np.inf",
    "lean extraction: dtype, decorators, docstrings, imports, .copy()/aliasing (value semantics; in-place stores through views or into a caller's array are refused), shape errors and exceptions are dropped",
    "lean extraction: cuberoot is an abstract cbrt : ℝ → ℝ with cbrt x ^ 3 = x, cbrt 0 = 0, cbrt 1 = 1 (its source must still read sign(x)*|x|^(1/3)); np.unique(., return_inverse=True)[1] is an abstract `canon` with canon c x = canon c y ↔ c x = c y",
    "lean extraction (C18): scipy.linalg.solve / expm / eig, np.argmax and the callee mean_first_passage_time are ABSTRACT functions; their contracts (B·r0 = b for the one call made; eigen-equation; argmax is a largest entry) are explicit hypotheses of the theorems that use them — assumed contracts on a dependency; complex parts of eig results are dropped (np.real is the identity)",
    "lean extraction (C19): the closures ttest2_stat_only / ttest_paired_stat_only of nbs_bct are extracted on their own (arguments: real vectors of lengths n1, n2 / n; tail fixed per definition); np.sqrt is an abstract function ℝ → ℝ; np.ptp(v) == 0 is modelled as 'all entries equal'; the p-value theorem is about the single statement pvals[i] = ... with null, sz_links, i free (null is taken to have k entries)",
    "lean extraction: modularity_und/_dir: only the given-partition path (kci is a label vector); modularity_und_sign: qtype='sta', the loop-accumulated Kn0/Kn1 are free parameters",
]


def _load_extractor():
    spec = importlib.util.spec_from_file_location('verif_lean_extract', os.path.join(LEAN_DIR, 'extract.py'))
    mod = importlib.util.module_from_spec(spec)
    spec.loader.exec_module(mod)
    return mod


def theorem_table(src=None):
    """[(name, [property ids], [bct functions], first line (1-based), last line)] for the annotated theorems, plus spans of all decls"""
    src = src if src is not None else open(PROOFS).read()
    lines = src.split('\n')
    decl = re.compile(r'^\s*(?:private\s+|protected\s+|noncomputable\s+)*(theorem|lemma|def|macro|syntax|macro_rules|instance|abbrev)\b\s*([A-Za-z0-9_\.\']*)')
    starts = []
    for i, ln in enumerate(lines):
        m = decl.match(ln)
        if m:
            starts.append((i + 1, m.group(1), m.group(2)))
    spans = {}
    for k, (ln, kind, name) in enumerate(starts):
        end = starts[k + 1][0] - 1 if k + 1 < len(starts) else len(lines)
        if kind in ('theorem', 'lemma') and name:
            spans[name] = (ln, end)
    table = []
    for i, ln in enumerate(lines):
        m = re.match(r'^--@\s*([A-Z0-9, ]+?)\s*:\s*(.+?)\s*$', ln)
        if not m:
            continue
        j = i + 1
        while j < len(lines) and not decl.match(lines[j]):
            j += 1
        dm = decl.match(lines[j]) if j < len(lines) else None
        if not dm or dm.group(1) != 'theorem':
            raise ValueError('annotation at line %d of ExtractedProofs.lean is not followed by a theorem' % (i + 1))
        name = dm.group(2)
        table.append((name, [p.strip() for p in m.group(1).split(',') if p.strip()], [f.strip() for f in m.group(2).split(',') if f.strip()],
                      spans[name][0], spans[name][1]))
    return table, spans


def build_and_check(repo=None, keep=False, workdir=None):
    """extract + compile; returns dict(reports, theorems: {name: {status, detail, pids, functions}}, seconds, banned, file, raw)"""
    X = _load_extractor()
    t0 = time.time()
    text, reports = X.extract_all(repo or REPO)
    proofs = open(PROOFS).read()
    table, spans = theorem_table(proofs)
    code = re.sub(r'/-.*?-/', '', proofs + '\n' + text, flags=re.S)
    code = re.sub(r'--.*', '', code)
    banned = [w for w in ('sorry', 'admit', 'native_decide') if re.search(r'\b%s\b' % w, code)] + (['axiom'] if re.search(r'^\s*axiom\b', code, re.M) else [])
    wd = workdir or os.path.join(LEAN_DIR, 'build', 'run_%d_%d' % (os.getpid(), int(time.time() * 1000) % 100000))
    os.makedirs(wd, exist_ok=True)
    off = text.count('\n') + (0 if text.endswith('\n') else 1)
    if not text.endswith('\n'):
        text += '\n'
    all_named = sorted(spans)                       # lemmas too: a failing helper lemma is reported by name in the details
    footer = ['', 'namespace Extracted']
    foot_line = {}
    base = off + proofs.count('\n') + (0 if proofs.endswith('\n') else 1)
    for k, nm in enumerate(all_named):
        footer.append('#print axioms %s' % nm)
        foot_line[base + 2 + k + 1] = nm
    footer.append('end Extracted')
    combined = text + proofs + ('' if proofs.endswith('\n') else '\n') + '\n'.join(footer) + '\n'
    path = os.path.join(wd, 'Combined.lean')
    with open(path, 'w') as fh:
        fh.write(combined)
    with open(os.path.join(wd, 'extract_report.json'), 'w') as fh:
        json.dump(reports, fh, indent=1)
    if (repo or REPO) == '/repo':
        try:                                        # the generated definitions of the real tree are kept next to the proofs
            with open(os.path.join(LEAN_DIR, 'Extracted.lean'), 'w') as fh:
                fh.write(text)
        except OSError:
            pass
    t1 = time.time()
    try:
        p = subprocess.run(['lean', path], capture_output=True, text=True, timeout=600, cwd=wd)
        out = p.stdout + p.stderr
        rc = p.returncode
    except Exception as e:                          # pragma: no cover
        out, rc = 'lean could not be run: %r' % (e,), 99
    lean_s = time.time() - t1
    # --- parse ---------------------------------------------------------------------------------------------------
    errs = {}                                       # declaration name -> [messages]
    other_errors = []
    axioms = {}
    msg_re = re.compile(r'^(?:.*?)Combined\.lean:(\d+):(\d+): (error|warning)(?:\([^)]*\))?: (.*)$')
    cur = None
    blocks = []
    for ln in out.split('\n'):
        m = msg_re.match(ln)
        if m:
            cur = [int(m.group(1)), m.group(3), m.group(4)]
            blocks.append(cur)
        elif ln.startswith("'Extracted.") and 'depends on axioms' in ln or ln.startswith("'Extracted.") and 'does not depend on any axioms' in ln:
            cur = [0, 'axioms', ln]
            blocks.append(cur)
        elif cur is not None:
            cur[2] += '\n' + ln
    for line, kind, msg in blocks:
        if kind == 'axioms':
            m = re.match(r"'Extracted\.([^']+)' (?:depends on axioms: \[(.*?)\]|does not depend on any axioms)", msg.replace('\n', ' '))
            if m:
                axioms[m.group(1)] = set(a.strip() for a in (m.group(2) or '').split(',') if a.strip())
            continue
        if kind != 'error':
            continue
        if line in foot_line:
            errs.setdefault(foot_line[line], []).append('statement does not elaborate / theorem missing: ' + msg[:300])
            continue
        pl = line - off                             # line inside ExtractedProofs.lean
        hit = next((nm for nm, (a, b) in spans.items() if a <= pl <= b), None)
        if hit:
            errs.setdefault(hit, []).append('ExtractedProofs.lean:%d: %s' % (pl, msg[:700]))
        else:
            other_errors.append('Combined.lean:%d: %s' % (line, msg[:300]))
    theorems = {}
    for name, pids, fns, a, b in table:
        own = errs.get(name, [])
        ax = axioms.get(name)
        if own:
            st, detail = 'open', ' | '.join(own)[:1500]
        elif ax is None:
            st, detail = 'open', 'no `#print axioms` output for this theorem (lean output truncated or theorem missing); rc=%s' % rc
        elif not ax <= ALLOWED_AXIOMS:
            bad = sorted(ax - ALLOWED_AXIOMS)
            failing = sorted(nm for nm in errs if nm != name)
            span_text = '\n'.join(proofs.split('\n')[a - 1:b])
            mentioned = [nm for nm in failing if re.search(r'(?<![A-Za-z0-9_\.\'])%s(?![A-Za-z0-9_\'])' % re.escape(nm), span_text)]
            failing = mentioned or failing
            st, detail = 'open', 'depends on %s (a declaration it uses failed: %s)' % (bad, failing[:6])
        elif banned:
            st, detail = 'open', 'banned constructs in the proof files: %s' % banned
        else:
            st, detail = 'discharged', ''
        theorems[name] = {'status': st, 'detail': detail, 'pids': pids, 'functions': fns}
    res = {'reports': reports, 'theorems': theorems, 'seconds': round(time.time() - t0, 2), 'lean_seconds': round(lean_s, 2), 'banned': banned,
           'file': path, 'returncode': rc, 'other_errors': other_errors, 'helper_errors': {k: v for k, v in errs.items() if k not in theorems},
           'raw_tail': out[-1500:] if rc not in (0, 1) else ''}
    if not keep:
        shutil.rmtree(wd, ignore_errors=True)
    return res


def lean_extracted(run, pid, tier, lock, collect):
    try:
        res = build_and_check(REPO)
    except Exception as e:
        run.error('leanx: extraction / lean run failed: %r' % (e,))
        return
    reports = {}
    for r in res['reports']:                       # several variants of one function (qtype of modularity_und_sign): extracted iff all are
        q = reports.get(r['function'])
        if q is None:
            reports[r['function']] = dict(r)
        else:
            q['defs'] = q.get('defs', []) + r.get('defs', [])
            if r['status'] != 'extracted' and q['status'] == 'extracted':
                q['status'], q['reason'] = r['status'], '%s: %s' % (r.get('target'), r.get('reason'))
    thms = {k: v for k, v in res['theorems'].items() if pid in v['pids']}
    if not thms:
        run.error('leanx: no theorem is annotated for %s in ExtractedProofs.lean' % pid)
        return
    relevant_fns = sorted({f for v in thms.values() for f in v['functions']})
    # a function that used to be extractable and is now refused: the deductive tier cannot decide -> checker error
    refused = set()
    for f in relevant_fns:
        r = reports.get(f)
        if f in EXPECTED_EXTRACTABLE and (r is None or r['status'] != 'extracted'):
            refused.add(f)
            run.error('leanx: extractor refuses %s (out of the subset): %s' % (f, (r or {}).get('reason', 'not a target')))
    if res['returncode'] not in (0, 1):
        run.error('leanx: lean did not run properly (rc=%s): %s' % (res['returncode'], res['raw_tail'][-300:]))
    for e in res['other_errors'][:5]:
        run.notes.append('leanx: lean error outside any theorem: ' + e)
    locked = lock.get(LOCK_KEY) if isinstance(lock, dict) else None
    per = res['lean_seconds'] / max(1, len(res['theorems']))
    n_open = 0
    for name in sorted(thms):
        v = thms[name]
        fn = ', '.join(v['functions'])
        o = Obligation('leanx/%s' % name, fn, v['status'], 'lean', per, v['detail'], 'theorem')
        if v['status'] != 'discharged':
            n_open += 1
            key = 'leanx/%s' % name
            if run._match_known('OBLIGATION ' + key) or any(run._match_known('%s/%s' % (f, name)) for f in v['functions']):
                o.kind = 'known'
        run.add_obligations([o])
        if v['status'] == 'discharged':
            continue
        if any(f in refused for f in v['functions']):
            continue        # the function left the subset: reported as a checker error above, neither a violation nor undecided
        what = 'Lean theorem %s about the extracted %s (checked on the unchanged tree) no longer checks: %s' % (name, fn, v['detail'][:600])
        if locked is not None and name in locked:
            wit = next((x for x in run.violations if any(x['key'].startswith(f + '/') for f in v['functions'])), None)
            witness = {'obligation': 'leanx/' + name, 'functions': v['functions'],
                       'extraction': {f: {k: reports[f].get(k) for k in ('status', 'reason', 'sha1')} for f in v['functions'] if f in reports},
                       'failing_input_from_bounded_tier': json.load(open(wit['replay'])) if wit else None}
            run.violation('OBLIGATION leanx/%s' % name, what, witness=witness, no_input=wit is None, verifier_output=v['detail'])
        elif o.kind == 'known':
            run.violation('%s/%s' % (v['functions'][0], name), what)
        else:
            run.undecide('obligation leanx/%s is not in the lock and did not discharge: %s' % (name, v['detail'][:200]))
    if locked is not None:
        missing = [c for c in locked if c not in res['theorems']]
        if missing:
            run.notes.append('locked leanx theorems no longer present in ExtractedProofs.lean: %s' % missing[:8])
    if collect is not None:
        collect[LOCK_KEY] = sorted(n for n, v in thms.items() if v['status'] == 'discharged')
    under = []
    for f in relevant_fns:
        r = reports.get(f)
        if r is not None and r['status'] == 'extracted' and any(f in v['functions'] and v['status'] == 'discharged' for v in thms.values()):
            under.append(MODULE_OF.get(r['file'], r['file']) + '.' + f)
    run.functions_under_contract.extend(under)
    for a in DROPPED:
        if a not in run.assumptions:
            run.assumptions.append(a)
    tb = 'engine/lean/extract.py: translation of the supported numpy constructs (np.dot/@, .T, np.sum axis, np.diag, np.trace, np.outer, np.tile, elementwise ops, masks, binarize inlined) into ℝ-valued Lean terms'
    if tb not in run.trusted:
        run.trusted.append(tb)
    run.extra['lean_extract'] = {
        'repo': REPO, 'proofs': 'engine/lean/ExtractedProofs.lean', 'seconds': res['seconds'], 'lean_seconds': res['lean_seconds'],
        'theorems_total': len(res['theorems']), 'theorems_for_property': len(thms), 'open_for_property': n_open, 'banned': res['banned'],
        'functions': {f: {'status': r['status'], 'reason': r.get('reason'), 'sha1': r.get('sha1'), 'defs': [d['name'] for d in r.get('defs', [])],
                          'dropped': (r.get('dropped', []) + r.get('poisoned', []))[:30]} for f, r in reports.items()},
        'table': {n: {'properties': v['pids'], 'functions': v['functions'], 'status': v['status']} for n, v in sorted(res['theorems'].items())},
        'helper_lemma_errors': {k: v[:2] for k, v in res['helper_errors'].items()},
    }
    if res['banned']:
        run.error('leanx: banned constructs in the Lean files: %s' % res['banned'])
    return under


def main(argv=None):
    """stand-alone use:  python checks/lean_extract.py [--repo DIR] [--keep] [--json]  -> table of theorems, exit 0 iff all check"""
    import argparse
    ap = argparse.ArgumentParser()
    ap.add_argument('--repo', default=REPO)
    ap.add_argument('--keep', action='store_true')
    ap.add_argument('--json', action='store_true')
    a = ap.parse_args(argv)
    res = build_and_check(a.repo, keep=a.keep)
    if a.json:
        print(json.dumps({k: res[k] for k in ('theorems', 'seconds', 'lean_seconds', 'banned', 'other_errors', 'helper_errors')}, indent=1))
    else:
        for r in res['reports']:
            print('extract %-26s %s %s' % (r.get('target', r['function']), r['status'], r.get('reason', '')))
        for n, v in sorted(res['theorems'].items(), key=lambda kv: (kv[1]['pids'], kv[0])):
            print('%-10s %-44s %-11s %s' % (','.join(v['pids']), n, v['status'], v['detail'][:160].replace('\n', ' ')))
        for k, v in res['helper_errors'].items():
            print('helper lemma %s: %s' % (k, v[0][:200].replace('\n', ' ')))
        for e in res['other_errors']:
            print('other error:', e[:200].replace('\n', ' '))
        n_open = sum(1 for v in res['theorems'].values() if v['status'] != 'discharged')
        print('%d theorems, %d open, extraction+lean %.1f s (lean %.1f s)%s' % (len(res['theorems']), n_open, res['seconds'], res['lean_seconds'],
                                                                                 (', kept ' + res['file']) if a.keep else ''))
    return 0 if all(v['status'] == 'discharged' for v in res['theorems'].values()) and not res['banned'] else 1


if __name__ == '__main__':
    sys.exit(main())
