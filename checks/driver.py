"""Generic driver of one property's check: bounded stand-in (tier B) + deductive tier (pyvc / pyframe / lean), lock comparison,
violation reporting with replay, evidence."""
import sys, os, re, json, importlib, time
sys.path.insert(0, os.path.dirname(os.path.dirname(os.path.abspath(__file__))))
from engine.common import Run, VERIF, main_wrapper, Obligation
from checks.registry import REGISTRY

LOCK = os.path.join(VERIF, 'obligations.lock.json')
_SUFFIX = re.compile(r"/(p|r|x|c)\d+$")


def clause_of(name):
    return _SUFFIX.sub('', name)


def load_lock():
    return json.load(open(LOCK)) if os.path.exists(LOCK) else {}


def proved_tier(run, pid, cfg, tier, collect=None):
    """runs every deductive part registered for the property; returns dict contract_key -> {clause: status}."""
    lock = load_lock().get(pid, {})
    timeout = 30 if tier == 'quick' else 120
    summary = {}
    from engine.pyvc import run as pv
    items = []
    for modname, key, include, exclude in cfg.get('pyvc', ()):
        items.append((key, importlib.import_module(modname).CONTRACTS[key], include, exclude))
    def known_open(name):
        # obligations covered by a listed known finding are expected to stay open: no escalation budget is spent on them
        key, rest = name.split('/', 1)
        c = clause_of(name)
        return run._match_known('%s/%s' % (key.split('#')[0], c.split('/', 1)[1] if '/' in c else c)) is not None
    results = pv.verify_many(items, timeout_s=timeout, known_open=known_open) if items else {}
    for modname, key, include, exclude in cfg.get('pyvc', ()):
        contract = importlib.import_module(modname).CONTRACTS[key]
        obls, info = results[key]
        locked = lock.get(key)
        fn = contract.module + '.' + contract.name
        if getattr(contract, 'fragment', None):
            fn += ' [fragment only: `%s` .. `%s`; its entry state is assumed]' % contract.fragment
        if getattr(contract, 'stop_at', None):
            fn += ' [prefix only, up to `%s`]' % contract.stop_at
        if getattr(contract, 'source', None):
            fn += ' [COROLLARY: a lemma over the proved contracts of the repository functions it calls, not a repository function; harness text in %s]' % os.path.relpath(contract.source, os.path.dirname(os.path.dirname(os.path.abspath(__file__))))
        if info['status'] != 'ok':
            msg = 'pyvc: %s: %s' % (key, info['status'])
            if locked:
                # the contract was discharged on the unchanged tree and no longer binds / leaves the subset: the deductive tier
                # cannot decide; this is a checker-level condition (exit 3) unless the bounded tier shows a real violation.
                run.error(msg)
            else:
                run.notes.append(msg)
            continue
        if info['vacuous']:
            run.error('pyvc: contradictory premises (vacuous) in %s: %s' % (key, info['vacuous']))
        sel = [o for o in obls if (include is None or re.search(include, o.name)) and not (exclude and re.search(exclude, o.name))]
        if not sel:
            run.error('pyvc: zero obligations generated for %s' % key)
            continue
        run.functions_under_contract.append(fn)
        run.abstracted.extend(info['abstracted'])
        clauses = {}
        for o in sel:
            c = clause_of(o.name)
            d = clauses.setdefault(c, {'status': 'discharged', 'n': 0, 'detail': ''})
            d['n'] += 1
            if o.status != 'discharged':
                d['status'] = 'open'
                d['detail'] = (o.name + ' ' + o.detail)[:600]
        summary[key] = clauses
        known_open = []
        for o in sel:
            c = clause_of(o.name)
            if clauses[c]['status'] == 'open' and run._match_known('%s/%s' % (key.split('#')[0], c.split('/', 1)[1] if '/' in c else c)):
                o.kind = 'known'
        run.add_obligations(sel)
        for c, d in sorted(clauses.items()):
            if d['status'] == 'discharged':
                continue
            vkey = '%s/%s' % (key.split('#')[0], c.split('/', 1)[1] if '/' in c else c)
            if locked is not None and c in locked:
                # a locked obligation no longer discharges: the violation is this named obligation; replay = a failing input of
                # the same function found by the bounded tier on the real code, if any
                wit = next((v for v in run.violations if v['key'].startswith(contract.name + '/')), None)
                replayed = replay_model(run, key, contract, d['detail'])
                if replayed:
                    continue
                run.violation('OBLIGATION ' + vkey, 'proof obligation %s (discharged on the unchanged tree) is not discharged: %s' % (c, d['detail']),
                              witness={'failing_input_from_bounded_tier': json.load(open(wit['replay'])) if wit else None, 'obligation': c},
                              no_input=wit is None, verifier_output=d['detail'])
            elif run._match_known(vkey):
                run.violation(vkey, d['detail'])
            else:
                run.undecide('obligation %s is not in the lock and did not discharge: %s' % (c, d['detail'][:200]))
        if locked is not None:
            missing = [c for c in locked if c not in clauses]
            if missing:
                run.notes.append('locked clauses no longer generated for %s (code structure changed): %s' % (key, missing[:8]))
        if collect is not None:
            collect[key] = sorted(c for c, d in clauses.items() if d['status'] == 'discharged')
    # CPython cross-check of the same contracts: ensures clauses evaluated concretely on the real functions (seeded random inputs)
    if items:
        from engine.pyvc import crosscheck
        filt = {key: (inc, exc) for _, key, inc, exc in cfg.get('pyvc', ())}
        stats, viol = crosscheck.crosscheck([(k, c) for k, c, _, _ in items], run.seed, cases=40 if tier == 'quick' else 300)
        nev = sum(v.get('clauses_evaluated', 0) for v in stats.values())
        run.extra['contract_crosscheck'] = {'what': 'ensures clauses of the sidecar contracts evaluated concretely (engine/pyvc/concrete.py) on the real functions, seeded random in-domain inputs',
                                            'per_contract': stats, 'clauses_evaluated': nev}
        for key, clause, wit, detail in viol:
            inc, exc = filt.get(key, (None, None))
            nm = '%s/ensures/%s' % (key, clause)
            if (inc is None or re.search(inc, nm)) and not (exc and re.search(exc, nm)):
                run.violation('%s/CONTRACT-%s' % (key.split('#')[0], clause), 'contract clause `%s` is false on a real run of %s: %s' % (clause, key, detail), witness=wit)
    for hook in cfg.get('extra_proved', ()):
        modname, fname = hook.rsplit('.', 1)
        getattr(importlib.import_module(modname), fname)(run, pid, tier, lock, collect)
    return summary


def replay_model(run, key, contract, detail):
    """if the solver produced a counter-model with concrete inputs, run the REAL function on them and evaluate the contract's
    ensures clauses concretely; a clause that fails is the replayed violation."""
    if 'INPUTS ' not in detail:
        return False
    import numpy as np
    from engine.pyvc import crosscheck, concrete
    try:
        raw = json.loads(detail.split('INPUTS ', 1)[1].split('\n')[0])
        args = {k: (np.array(v, dtype=float) if isinstance(v, list) else v) for k, v in raw.items()}
        res, raised, _ = concrete.check_call(contract, crosscheck.woven(contract), args)
    except Exception as e:
        run.notes.append('counter-model of %s could not be replayed: %r' % (key, e))
        return False
    bad = [(n, dt) for n, st, dt in res if st == 'violated']
    if not bad:
        run.notes.append('counter-model of %s did not reproduce on the real function (spurious for the real code: abstraction / reals vs floats): %s' % (key, raw))
        return False
    for n, dt in bad:
        run.violation('%s/REPLAYED-%s' % (key.split('#')[0], n), 'solver counter-model replayed on the real function: clause `%s` fails; %s' % (n, dt), witness={'inputs_from_counter_model': raw, 'raised': raised})
    return True


def replay_witness(pid, cfg, rec):
    """Re-executes a recorded witness on the real function of the CURRENT tree when the function has a sidecar contract: the
    contract's ensures clauses are evaluated concretely. returns exit code (1 = the violation reproduces, 0 = it does not) or
    None if the witness cannot be replayed at contract level."""
    import numpy as np
    from engine.pyvc import crosscheck, concrete
    wit = rec.get('witness') or {}
    if isinstance(wit.get('inputs_from_counter_model'), dict):
        wit = dict(wit['inputs_from_counter_model'], function=rec['key'].split('/')[0])
    if isinstance(wit.get('failing_input_from_bounded_tier'), dict):
        wit = (wit['failing_input_from_bounded_tier'].get('witness') or {})
    fn = wit.get('function') or rec.get('key', '').replace('OBLIGATION ', '').split('/')[0]
    for modname, key, inc, exc in cfg.get('pyvc', ()):
        c = importlib.import_module(modname).CONTRACTS[key]
        if c.name != fn or '#' in key:
            continue
        args = {}
        for p in c.params:
            if p in wit:
                v = wit[p]
                args[p] = np.array(v, dtype=float) if isinstance(v, list) else v
            elif p == 'R' and 'R' in wit:
                args[p] = np.array(wit['R'], dtype=float)
        if 'seed' in c.params and 'seed' not in args:
            from engine.srng import Scripted
            args['seed'] = Scripted(tuple(tuple(x) if isinstance(x, list) else x for x in (wit.get('script') or ())), fallback_seed=wit.get('fallback_seed', 7), max_draws=20000)
        if 'itr' in c.params and 'itr' not in args and 'budget' in wit:
            args['itr'] = wit['budget']
        missing = [p for p in c.params if p not in args]
        if missing:
            print('replay: witness lacks arguments %s of %s' % (missing, fn))
            return None
        res, raised, _ = concrete.check_call(c, crosscheck.woven(c), args)
        bad = [(n, d) for n, st, d in res if st == 'violated']
        for n, st, d in res:
            print('replay: clause %-55s %s %s' % (n, st, d))
        if raised:
            print('replay: the call raised', raised)
        if bad:
            print('VIOLATION property=%s replay=%s' % (pid, os.path.abspath(sys.argv[-1]) if sys.argv[-1].endswith('.json') else ''))
            return 1
        print('replay: the recorded input does not violate the contract on the current tree')
        return 0
    return None


def run_check(pid, tier, seed, replay=None):
    cfg = REGISTRY[pid]
    run = Run(pid, tier, seed, level=cfg['level'], technique=cfg.get('technique', ''))
    run.trusted = list(cfg.get('trusted', []))
    run.assumptions += cfg.get('assumptions', [])
    if replay:
        rec = json.load(open(replay))
        print(json.dumps(rec, indent=1)[:3000])
        rc = replay_witness(pid, cfg, rec)
        if rc is not None:
            return rc
        print('replay: no contract-level replay for this witness; re-running the whole check (cases are deterministic for a given VERIF_SEED)')
    bmod = cfg.get('bounded')
    if bmod:
        B = importlib.import_module(bmod)
        B.run_bounded(run, tier, seed)
    collect = {} if os.environ.get('VERIF_WRITE_LOCK') else None
    proved_tier(run, pid, cfg, tier, collect)
    if collect is not None:
        lock = load_lock()
        lock[pid] = collect
        json.dump(lock, open(LOCK, 'w'), indent=1, sort_keys=True)
        print('lock updated for', pid, {k: len(v) for k, v in collect.items()})
    return run.finish()


def make_main(pid):
    def main(tier, seed, replay=None):
        return run_check(pid, tier, seed, replay)
    return main
