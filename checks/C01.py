"""C01 — degree-preserving rewiring keeps every node's degree and the weight multiset."""
import sys, os
sys.path.insert(0, os.path.dirname(os.path.dirname(os.path.abspath(__file__))))
from engine.common import Run, main_wrapper


def main(tier, seed):
    run = Run('C01', tier, seed, level='exploration', technique='contracts woven into the real functions, exhaustive small scope (bounded stand-in)')
    from checks.bounded import C01 as B
    B.run_bounded(run, tier, seed)
    return run.finish()


if __name__ == '__main__':
    main_wrapper(main)
