"""Deductive tier for C13 (frame obligations) and C05 (effect obligations): engine/pyframe over /repo's current source."""
import os, time, json
from engine.common import REPO, Obligation
from engine.pyframe import frame, effects


def _report(run, pid, clauses, lock, collect, key, what_prefix, fn_of):
    """clauses: dict clause -> (ok, detail). Lock semantics as in checks/driver.py."""
    locked = (lock or {}).get(key)
    for c, (ok, detail) in sorted(clauses.items()):
        if ok:
            continue
        vkey = '%s/%s' % (fn_of(c), c)
        if locked is not None and c in locked:
            wit = next((v for v in run.violations if v['key'].startswith(fn_of(c) + '/')), None)
            run.violation('OBLIGATION ' + c, '%s obligation %s (discharged on the unchanged tree) is not discharged: %s' % (what_prefix, c, detail),
                          witness={'failing_input_from_bounded_tier': json.load(open(wit['replay'])) if wit else None, 'obligation': c},
                          no_input=wit is None, verifier_output=detail)
        elif run._match_known(vkey):
            run.violation(vkey, detail)
        else:
            run.undecide('%s obligation %s is not in the lock and is not discharged: %s' % (what_prefix, c, detail[:200]))
    if collect is not None:
        collect[key] = sorted(c for c, (ok, _) in clauses.items() if ok)


def c13(run, pid, tier, lock, collect):
    t0 = time.time()
    an = frame.Analyzer(os.path.join(REPO, 'bct'))
    an.run()
    pub = frame.public_functions(an)
    clauses = {}
    nsites = 0
    for n, fi in sorted(pub.items()):
        variants = [True, False] if fi.has_copy else [None]
        for var in variants:
            cname = 'frame/%s.%s%s' % (fi.module, n, '' if var is None else '[copy=%s]' % var)
            sites = fi.sites[var]
            nsites += len(sites)
            if var is False:
                # copy=False: the documented exception; obligation inverted for the C17 utilities: the result IS the argument
                ok, detail = True, 'copy=False variant: mutation of the argument is the documented behaviour (%d sites)' % len(sites)
            else:
                bad = [s for s in sites if s['may_alias_params']]
                ok = not bad
                detail = '; '.join('`%s` may write to caller array %s' % (s['text'], s['may_alias_params']) for s in bad[:4])
            clauses[cname] = (ok, detail)
            run.add_obligations([Obligation(cname, '%s.%s' % (fi.module, n), 'discharged' if ok else 'open', 'pyframe', 0.0, detail or '%d mutation sites, none may alias a parameter' % len(sites), 'frame')])
            run.functions_under_contract.append('%s.%s' % (fi.module, n))
    if not pub or nsites == 0:
        run.error('pyframe: no public function / no mutation site found (vacuous)')
    run.extra['pyframe'] = {'public_functions': len(pub), 'mutation_sites': nsites, 'seconds': round(time.time() - t0, 2)}
    _report(run, pid, clauses, lock, collect, 'pyframe', 'frame', lambda c: c.split('/')[1].rsplit('.', 1)[-1].split('[')[0])


def c05(run, pid, tier, lock, collect):
    t0 = time.time()
    an = frame.Analyzer(os.path.join(REPO, 'bct'))
    obls, seeded = effects.analyse(an)
    clauses = {}
    for o in obls:
        ok0, d0 = clauses.get(o['name'], (True, ''))
        clauses[o['name']] = (ok0 and o['ok'], (d0 + ' ' + o['detail']).strip() if not o['ok'] else (d0 or o['detail']))
    for c, (ok, detail) in sorted(clauses.items()):
        if c.startswith('E5-'):
            continue
        run.add_obligations([Obligation(c, c.split('/')[1] if '/' in c else c, 'discharged' if ok else 'open', 'pyframe-effects', 0.0, detail, 'effect')])
    e5 = {c: v for c, v in clauses.items() if c.startswith('E5-')}
    run.notes.append('get_rng shape (informational, decided by the bounded tier): %s' % {c: v[0] for c, v in e5.items()})
    clauses = {c: v for c, v in clauses.items() if not c.startswith('E5-')}
    if not seeded or not clauses:
        run.error('pyframe-effects: no seed-accepting function found (vacuous)')
    run.functions_under_contract.extend(seeded)
    run.extra['pyframe_effects'] = {'seed_accepting_functions': seeded, 'obligations': len(clauses), 'seconds': round(time.time() - t0, 2)}

    def fn_of(c):
        parts = c.split('/')
        return parts[1].rsplit('.', 1)[-1] if len(parts) > 1 else c
    _report(run, pid, clauses, lock, collect, 'pyframe-effects', 'effect', fn_of)
