"""C06 bounded stand-in: signed null models keep each node's positive/negative degree and all weights.

randmio_und_signed / randmio_dir_signed: a monitor of this module is woven (engine.weave) into the real routine at the head
of `while att <= max_attempts` (and after that loop) and evaluates, on every state the matrix goes through, the invariant
of the property: per-row and per-column counts of positive and of negative cells equal the input's, the multisets of
positive and of negative weights are unchanged, the diagonal is untouched and (undirected routine) the matrix is
symmetric.  The same statements are evaluated on the returned matrix.
null_model_und_sign / null_model_dir_sign: postconditions on the returned matrix and the returned strength correlations
(recomputed here from the definition of Pearson's r, nan-aware).
pick_four_unique_nodes_quickly: four pairwise distinct values in [0, n).
"""
import numpy as np
import bct
import bct.algorithms.reference as ref
from bct.utils import pick_four_unique_nodes_quickly
from engine import graphs as G
from engine import weave as W
from engine.par import pmap, Acc, merge_all
from engine.srng import Scripted, explore, ScriptExhausted, DrawLimit, default_options

LOOP = 'while att <= max_attempts'
RANDMIO = {'randmio_und_signed': True, 'randmio_dir_signed': False}      # name -> undirected?
NULLM = {'null_model_und_sign': True, 'null_model_dir_sign': False}

_STATE = {}
_WOVEN = {}


# ---- the property's statements on one matrix ------------------------------------------------------------------------
def sign_profile(X):
    X = np.asarray(X)
    return {'pos_out': (X > 0).sum(1), 'pos_in': (X > 0).sum(0), 'neg_out': (X < 0).sum(1), 'neg_in': (X < 0).sum(0),
            'wpos': np.sort(X[X > 0]), 'wneg': np.sort(X[X < 0])}


def compare(prefix, base, X, und, diag):
    """Returns [(clause, detail)] for matrix X against the profile `base` of the input."""
    X = np.asarray(X)
    out = []
    p = sign_profile(X)
    for key, words in (('pos_out', 'positive-out-degree'), ('pos_in', 'positive-in-degree'),
                       ('neg_out', 'negative-out-degree'), ('neg_in', 'negative-in-degree')):
        if not np.array_equal(p[key], base[key]):
            out.append(('%s-%s' % (prefix, words), 'per-node %s is %s, the input has %s' % (words.replace('-', ' '), p[key].tolist(), base[key].tolist())))
    if not np.array_equal(p['wpos'], base['wpos']):
        out.append(('%s-positive-weight-multiset' % prefix, 'positive weights %s, the input has %s' % (p['wpos'].tolist()[:20], base['wpos'].tolist()[:20])))
    if not np.array_equal(p['wneg'], base['wneg']):
        out.append(('%s-negative-weight-multiset' % prefix, 'negative weights %s, the input has %s' % (p['wneg'].tolist()[:20], base['wneg'].tolist()[:20])))
    if not np.array_equal(np.diag(X), diag):
        out.append(('%s-diagonal' % prefix, 'diagonal is %s, expected %s' % (np.diag(X).tolist(), np.asarray(diag).tolist())))
    if und and not np.array_equal(X, X.T):
        out.append(('%s-symmetric' % prefix, 'matrix of an undirected routine is not symmetric'))
    return out


class Mon06:
    def __init__(self, Rin, und):
        self.und = und
        self.base = sign_profile(Rin)
        self.diag = np.diag(Rin).copy()
        self.fail = []
        self.steps = 0
        self.changes = 0
        self.prev = None

    def __call__(self, R):
        self.steps += 1
        if self.prev is not None and np.array_equal(R, self.prev):
            return
        if self.prev is not None:
            self.changes += 1
        self.prev = R.copy()
        for clause, detail in compare('INV', self.base, R, self.und, self.diag):
            if not any(c == clause for c, _ in self.fail):
                self.fail.append((clause, detail + ' (at the head of the rewiring loop, after %d accepted swaps)' % self.changes))


def _mon(R):
    m = _STATE.get('mon')
    if m is not None:
        m(R)


def woven(name):
    if name not in _WOVEN:
        _WOVEN[name] = W.weave(ref, name, inserts=[{'where': 'loop_head', 'key': LOOP, 'code': '__mon06(R)'},
                                                   {'where': 'after', 'key': LOOP, 'code': '__mon06(R)'}],
                               hooks={'__mon06': _mon})
    return _WOVEN[name]


def call_randmio(name, R, itr, rng):
    mon = Mon06(R, RANDMIO[name])
    f = woven(name)
    _STATE['mon'] = mon
    try:
        res = f(R, itr, seed=rng)
    finally:
        _STATE['mon'] = None
    return res, mon


# ---- Pearson correlation from its definition ------------------------------------------------------------------------
def pearson(x, y):
    x = np.asarray(x, dtype=float)
    y = np.asarray(y, dtype=float)
    if np.all(x == x[0]) or np.all(y == y[0]):
        return float('nan')                      # a constant sequence has no correlation
    dx, dy = x - x.mean(), y - y.mean()
    return float(np.sum(dx * dy) / np.sqrt(np.sum(dx * dx) * np.sum(dy * dy)))


def expected_correlations(Win, Wout):
    out = []
    for s in (1, -1):
        for axis in (0, 1):                      # 0: column sums = in-strength, 1: row sums = out-strength
            a = np.sum(np.where(s * Win > 0, s * Win, 0.0), axis=axis)
            b = np.sum(np.where(s * Wout > 0, s * Wout, 0.0), axis=axis)
            out.append(pearson(a, b))
    return out                                   # rpos_in, rpos_out, rneg_in, rneg_out


def same_corr(got, want):
    if want != want:
        return got != got
    return got == got and bool(np.isclose(got, want, rtol=1e-9, atol=1e-12))


# ---- inputs ---------------------------------------------------------------------------------------------------------
def signed_from_code(n, code, und, palette):
    """code in base 3 over the node pairs (und) / ordered pairs (dir): 0 absent, 1 positive, 2 negative."""
    pr = G.und_pairs(n) if und else G.dir_pairs(n)
    Wm = np.zeros((n, n))
    for x, (i, j) in enumerate(pr):
        t = code // 3 ** x % 3
        if t:
            if palette == 'ties':
                mag = 1.0 + ((i + j) % 2 if x % 3 == 0 else 0)            # mostly 1, a few 2
            elif palette == 'position':
                mag = (1.0, 2.0, 3.0)[(2 * i + 3 * j + (0 if und else (i > j))) % 3]
            elif palette == 'distinct':
                mag = float(x + 1)
            else:
                raise AssertionError(palette)
            v = mag if t == 1 else -mag
            Wm[i, j] = v
            if und:
                Wm[j, i] = v
    return Wm


def n_codes(n, und):
    return 3 ** (len(G.und_pairs(n)) if und else len(G.dir_pairs(n)))


def in_domain(Wm):
    return bool((Wm > 0).any() and (Wm < 0).any())


def _j(x):
    return list(x) if isinstance(x, tuple) else x


def four_options(n, extra=2):
    """Options for the single draw rng.randint(n**4) of pick_four_unique_nodes_quickly: every value that decodes to four
    pairwise distinct nodes, plus `extra` values that do not (they make the routine draw again)."""
    good, bad = [], []
    for k in range(n ** 4):
        t = (k % n, k // n % n, k // n ** 2 % n, k // n ** 3 % n)
        (good if len(set(t)) == 4 else bad).append(k)
    return good + bad[:1] + bad[len(bad) // 2:len(bad) // 2 + max(0, extra - 1)]


def _options(n):
    opts = four_options(n)

    def options(kind, arg):
        if kind == 'randint' and arg == n ** 4:
            return opts
        return default_options(kind, arg, max_perms=4)
    return options


def _absorb(acc, a):
    acc.evaluations += a.evaluations
    acc.nontrivial |= a.nontrivial
    for s in a.samples:
        if len(acc.samples) < 2:
            acc.samples.append(s)
    for v in a.violations:
        acc.violate(*v)


# ---- randmio_*_signed ----------------------------------------------------------------------------------------------
def check_randmio(acc, name, R, itr, rng, script, tag):
    und = RANDMIO[name]
    Rin = R.copy()

    def wit():
        return {'function': name, 'R': Rin.tolist(), 'itr': itr, 'script': list(script) if script is not None else None,
                'fallback_seed': getattr(rng, '_c06_seed', None), 'class': tag,
                'draws': [list(map(_j, l)) for l in rng.log[:60]] if isinstance(rng, Scripted) else None}
    try:
        res, mon = call_randmio(name, R, itr, rng)
    except ScriptExhausted:
        raise
    except (bct.BCTParamError, DrawLimit):
        acc.case()
        return
    except Exception as e:
        acc.case()
        acc.violate('%s/RAISES-%s' % (name, type(e).__name__), 'in-domain input raised %r instead of returning a network' % (e,), wit())
        return
    fails = list(mon.fail)
    try:
        Rout = np.asarray(res[0], dtype=float)
        ok_shape = Rout.shape == Rin.shape
    except Exception:
        ok_shape = False
    if not ok_shape:
        fails.append(('POST-shape', 'the first returned value is not an n x n matrix'))
    else:
        fails += compare('POST', sign_profile(Rin), Rout, und, np.diag(Rin))
    for clause, detail in fails:
        acc.violate('%s/%s' % (name, clause), detail, wit())
    nontrivial = mon.changes > 0
    acc.case(key=(name, Rin.tobytes(), itr, tuple(script) if script is not None else ('seed', getattr(rng, '_c06_seed', None))),
             nontrivial=nontrivial,
             sample=None if (len(acc.samples) >= 2 or not nontrivial) else
             {'function': name, 'class': tag, 'R': Rin.tolist(), 'itr': itr, 'script': list(script) if script is not None else 'seeded',
              'accepted_swaps': mon.changes})


def _seeded(s, max_draws=20000):
    r = Scripted((), fallback_seed=int(s), max_draws=max_draws)
    r._c06_seed = int(s)
    return r


def itr_values(name, n):
    m = n * (n - 1) // 2 if RANDMIO[name] else n * (n - 1)
    return [0, 1.5 / m, 2.5 / m]                  # 0, 1, 2 outer iterations


def worker_randmio(task):
    name, n, codes, palettes, depth, seeds = task
    und = RANDMIO[name]
    acc = Acc()
    for code in codes:
        for pal in palettes:
            R0 = signed_from_code(n, code, und, pal)
            if not in_domain(R0):
                continue
            for itr in itr_values(name, n):
                def run(rng, itr=itr):
                    a = Acc()
                    rng._c06_seed = 7 if rng.fallback else None
                    check_randmio(a, name, R0.copy(), itr, rng, tuple(rng.script), 'small-scope-' + pal)
                    return a
                for script, a in explore(run, depth, options=_options(n), fallback_seed=7, draw_cap=2000):
                    _absorb(acc, a)
            for s in seeds:
                for itr in (1, 3):
                    check_randmio(acc, name, R0.copy(), itr, _seeded(s), None, 'small-scope-' + pal)
    return acc


def random_signed(r, n, und, p=None, weights=(1., 2., 3., .5)):
    p = r.uniform(.3, .9) if p is None else p
    for _ in range(50):
        Wm = G.random_und(r, n, p=p, weights=list(weights), signed=True) if und else G.random_dir(r, n, p=p, weights=list(weights), signed=True)
        if in_domain(Wm):
            return Wm
    return None


def worker_randmio_random(task):
    name, seed, count, nmax = task
    und = RANDMIO[name]
    r = np.random.RandomState(seed)
    acc = Acc()
    for _ in range(count):
        n = int(r.randint(5, nmax + 1))
        R0 = random_signed(r, n, und)
        if R0 is None:
            continue
        itr = float(r.choice([.2, .5, 1, 2]))
        check_randmio(acc, name, R0.copy(), itr, _seeded(int(r.randint(1 << 30)), max_draws=100000), None, 'random')
    return acc


# ---- null models ---------------------------------------------------------------------------------------------------
def check_null(acc, name, Wm, bin_swaps, wei_freq, seed, tag):
    und = NULLM[name]
    Win = Wm.copy()
    wit = {'function': name, 'W': Win.tolist(), 'bin_swaps': bin_swaps, 'wei_freq': wei_freq, 'seed': seed, 'class': tag}
    rng = Scripted((), fallback_seed=seed, max_draws=200000)
    try:
        with np.errstate(all='ignore'):
            res = getattr(bct, name)(Wm, bin_swaps=bin_swaps, wei_freq=wei_freq, seed=rng)
    except (bct.BCTParamError, DrawLimit):
        acc.case()
        return
    except Exception as e:
        acc.case()
        acc.violate('%s/RAISES-%s' % (name, type(e).__name__), 'in-domain input raised %r instead of returning a network' % (e,), wit)
        return
    fails = []
    try:
        W0 = np.asarray(res[0], dtype=float)
        cors = [float(x) for x in res[1]]
        ok = W0.shape == Win.shape and len(cors) == 4
    except Exception:
        ok = False
    if not ok:
        fails.append(('POST-shape', 'did not return (n x n matrix, four correlations)'))
    else:
        fails += compare('POST', sign_profile(Win), W0, und, np.zeros(len(Win)))
        with np.errstate(all='ignore'):
            want = expected_correlations(Win, W0)
        names = ('positive in-strength', 'positive out-strength', 'negative in-strength', 'negative out-strength')
        for g, w, nm in zip(cors, want, names):
            if not same_corr(g, w):
                fails.append(('POST-strength-correlations', 'returned correlation of the %s sequences is %r, recomputed from input and output: %r' % (nm, g, w)))
                break
    for clause, detail in fails:
        acc.violate('%s/%s' % (name, clause), detail, wit)
    nontrivial = ok and not np.array_equal(W0, Win)
    acc.case(key=(name, Win.tobytes(), bin_swaps, wei_freq, seed), nontrivial=nontrivial,
             sample=None if (len(acc.samples) >= 2 or not nontrivial) else
             {'function': name, 'class': tag, 'W': Win.tolist(), 'bin_swaps': bin_swaps, 'wei_freq': wei_freq, 'seed': seed})


def worker_null(task):
    name, n, codes, palettes, swaps, freqs, seeds = task
    und = NULLM[name]
    acc = Acc()
    for code in codes:
        for pal in palettes:
            W0 = signed_from_code(n, code, und, pal)
            if not in_domain(W0):
                continue
            for bs in swaps:
                if bs > 0 and n < 4:
                    continue                      # the rewirer needs four distinct nodes (it draws for ever otherwise)
                for wf in freqs:
                    for s in (seeds if (bs > 0 or wf > 0) else seeds[:1]):
                        check_null(acc, name, W0.copy(), bs, wf, s, 'small-scope-' + pal)
    return acc


def worker_null_random(task):
    name, seed, count, nmax, freqs = task
    und = NULLM[name]
    r = np.random.RandomState(seed)
    acc = Acc()
    for _ in range(count):
        n = int(r.randint(5, nmax + 1))
        Wm = random_signed(r, n, und)
        if Wm is None:
            continue
        check_null(acc, name, Wm.copy(), int(r.choice([0, 1, 3, 5])), float(r.choice(freqs)), int(r.randint(1 << 30)), 'random')
    return acc


# ---- pick_four_unique_nodes_quickly --------------------------------------------------------------------------------
def _check_four(acc, n, rng, tag):
    try:
        res = pick_four_unique_nodes_quickly(n, rng)
    except ScriptExhausted:
        acc.case()                                # both scripted draws decoded to repeated nodes: a third draw is needed
        return
    except DrawLimit:
        acc.case()
        return
    except Exception as e:
        acc.case()
        acc.violate('pick_four_unique_nodes_quickly/RAISES-%s' % type(e).__name__, 'raised %r' % (e,),
                    {'function': 'pick_four_unique_nodes_quickly', 'n': n, 'draws': [list(map(_j, l)) for l in rng.log[:20]]})
        return
    ok = False
    try:
        vals = [int(v) for v in res]
        ok = len(vals) == 4 and len(set(vals)) == 4 and all(0 <= v < n for v in vals) and all(int(v) == v for v in res)
    except Exception:
        ok = False
    if not ok:
        acc.violate('pick_four_unique_nodes_quickly/POST-four-distinct-in-range', 'returned %r for n = %d' % (res, n),
                    {'function': 'pick_four_unique_nodes_quickly', 'n': n, 'draws': [list(map(_j, l)) for l in rng.log[:20]]})
    redrawn = len(rng.log) > 1
    acc.case(key=(n, rng.log[0][2]) if rng.log else None, nontrivial=redrawn,
             sample=None if (len(acc.samples) >= 2 or not redrawn) else {'function': 'pick_four_unique_nodes_quickly', 'n': n, 'class': tag,
                                                                          'draws': [l[2] for l in rng.log[:4]], 'returned': [int(v) for v in res] if ok else repr(res)})


def worker_four(task):
    n, firsts, all_seconds, seeds = task
    acc = Acc()
    rng = Scripted(())
    N = n ** 4

    def reset(script, fallback=None):
        rng.script, rng.pos, rng.ndraws, rng.log = list(script), 0, 0, []
        rng.fallback = fallback is not None
        rng._fb = np.random.RandomState(fallback) if fallback is not None else None
    for k1 in firsts:
        t = (k1 % n, k1 // n % n, k1 // n ** 2 % n, k1 // n ** 3 % n)
        if len(set(t)) == 4:
            reset((k1,))
            _check_four(acc, n, rng, 'depth-1')
        else:
            seconds = range(N) if all_seconds else sorted(set(int(x) for x in np.random.RandomState(k1).randint(N, size=64)))
            for k2 in seconds:
                reset((k1, k2))
                _check_four(acc, n, rng, 'depth-2')
    for s in seeds:
        reset((), fallback=s)
        rng.max_draws = 100000
        for _ in range(200):
            rng.log = []
            _check_four(acc, n, rng, 'seeded')
    return acc


# ---- driver --------------------------------------------------------------------------------------------------------
def chunks(lst, k):
    k = max(1, k)
    return [lst[i::k] for i in range(k) if lst[i::k]]


def _dispatch(job):
    w, t = job
    return globals()[w](t)


def _sample_codes(rs, n, und, count):
    tot = n_codes(n, und)
    if count is None or count >= tot:
        return list(range(tot))
    return sorted(set(int(x) for x in rs.randint(tot, size=count)))


def run_bounded(run, tier, seed):
    thorough = tier == 'thorough'
    rs = np.random.RandomState(seed)
    jobs = []
    seeds10 = [seed + 100 + x for x in range(10)]

    # ---------------- randmio_*_signed: all choice scripts to a small depth ----------------
    # one attempt = one draw rng.randint(n**4) (more if the four decoded nodes repeat); max_attempts + 1 attempts per outer
    # iteration (3 for n = 4, 4 for n = 5 undirected; n + 1 directed)
    u4 = _sample_codes(rs, 4, True, None if thorough else 48)
    u5 = _sample_codes(rs, 5, True, 400 if thorough else 24)
    d4 = _sample_codes(rs, 4, False, 300 if thorough else 48)
    d5 = _sample_codes(rs, 5, False, 60) if thorough else []
    for ch in chunks(u4, 96 if thorough else 16):
        jobs.append(('randmio-signed-small-scope', 'worker_randmio', ('randmio_und_signed', 4, ch, ['position'] if thorough else ['position', 'ties'], 2, [seed + 1, seed + 2])))
    if thorough:
        for ch in chunks(u4[::4], 48):
            jobs.append(('randmio-signed-small-scope', 'worker_randmio', ('randmio_und_signed', 4, ch, ['ties', 'distinct'], 2, [seed + 1])))
    for ch in chunks(u5, 64 if thorough else 12):
        jobs.append(('randmio-signed-small-scope', 'worker_randmio', ('randmio_und_signed', 5, ch, ['position'], 1, [seed + 3])))
    for ch in chunks(d4, 64 if thorough else 16):
        jobs.append(('randmio-signed-small-scope', 'worker_randmio', ('randmio_dir_signed', 4, ch, ['position', 'ties'], 2, [seed + 4])))
    for ch in chunks(d5, 30):
        jobs.append(('randmio-signed-small-scope', 'worker_randmio', ('randmio_dir_signed', 5, ch, ['position'], 1, [seed + 5])))
    if thorough:      # depth 3 on a subset
        for ch in chunks(u4[::60], 16):
            jobs.append(('randmio-signed-small-scope', 'worker_randmio', ('randmio_und_signed', 4, ch, ['position'], 3, [])))
        for ch in chunks(d4[::50], 16):
            jobs.append(('randmio-signed-small-scope', 'worker_randmio', ('randmio_dir_signed', 4, ch, ['position'], 3, [])))
        for ch in chunks(u5[::40], 16):
            jobs.append(('randmio-signed-small-scope', 'worker_randmio', ('randmio_und_signed', 5, ch, ['ties'], 2, [])))
    run.bounded_part(
        'randmio-signed-small-scope',
        bounds={'randmio_und_signed': '%s of the 729 signed symmetric sign patterns n=4 (%s), %d sampled n=5; those with at least one positive and one negative connection'
                                      % ('all' if thorough else '%d sampled' % len(u4), 'weights by position from +-{1,2,3}' + ('; tie-rich +-{1,2} and all-distinct magnitudes on every fourth pattern' if thorough else ', tie-rich +-{1,2}'), len(u5)),
                'randmio_dir_signed': '%d sampled signed digraphs n=4 (weights by position / tie-rich)%s' % (len(d4), (', %d sampled n=5' % len(d5)) if thorough else ''),
                'scripts': 'every sequence of draws of pick_four_unique_nodes_quickly up to depth 2 (n=4) / 1 (n=5)%s: each draw ranges over all %d / %d values of randint(n^4) that decode to four distinct nodes '
                           'plus 2 values that do not (redraw); then a seeded continuation' % (' and depth 3 (n=4: every 60th und / 50th dir pattern) / 2 (n=5: every 40th) on a subset' if thorough else '', 24, 120),
                'itr': 'values giving 0, 1, 2 outer iterations (0, 1.5/m, 2.5/m; m = n(n-1)/2 und, n(n-1) dir); seeded runs with itr = 1, 3'},
        rule='one case = (routine, input matrix, itr, choice script or seed); non-trivial = at least one accepted swap (matrix changed at a loop head); distinct by (routine, matrix bytes, itr, script)',
        exhaustive=False)

    run.bounded_part('randmio-signed-random', bounds={'n': '5..9', 'cases_per_routine': 240 if thorough else 80, 'weights': '+-{.5,1,2,3}', 'itr': [.2, .5, 1, 2]},
                     rule='seeded random signed matrices (symmetric for _und) with at least one positive and one negative connection; non-trivial = accepted swap', exhaustive=False)
    for name in RANDMIO:
        for x in range(12 if thorough else 8):
            jobs.append(('randmio-signed-random', 'worker_randmio_random', (name, seed * 7919 + 13 * x + (1 if RANDMIO[name] else 2), 20 if thorough else 10, 9)))

    # ---------------- null models ----------------
    freqs = [0, .5, 1] + ([.3] if thorough else [])
    swaps = [0, 1, 3]
    nu3 = _sample_codes(rs, 3, True, None)
    nu4 = _sample_codes(rs, 4, True, None if thorough else 160)
    nu5 = _sample_codes(rs, 5, True, 600 if thorough else 60)
    nd3 = _sample_codes(rs, 3, False, None)
    nd4 = _sample_codes(rs, 4, False, 800 if thorough else 160)
    pal = ['position', 'ties'] + (['distinct'] if thorough else [])
    for ch in chunks(nu3, 1):
        jobs.append(('null-models-small-scope', 'worker_null', ('null_model_und_sign', 3, ch, pal, [0], freqs, seeds10[:3])))
    for ch in chunks(nd3, 2):
        jobs.append(('null-models-small-scope', 'worker_null', ('null_model_dir_sign', 3, ch, pal, [0], freqs, seeds10[:3])))
    for ch in chunks(nu4, 64 if thorough else 24):
        jobs.append(('null-models-small-scope', 'worker_null', ('null_model_und_sign', 4, ch, pal, swaps, freqs, seeds10)))
    for ch in chunks(nu5, 64 if thorough else 24):
        jobs.append(('null-models-small-scope', 'worker_null', ('null_model_und_sign', 5, ch, ['position', 'distinct'] if thorough else ['position'], swaps, freqs, seeds10 if thorough else seeds10[:4])))
    for ch in chunks(nd4, 64 if thorough else 24):
        jobs.append(('null-models-small-scope', 'worker_null', ('null_model_dir_sign', 4, ch, ['position', 'ties'] if thorough else ['position'], swaps, freqs, seeds10)))
    run.bounded_part(
        'null-models-small-scope',
        bounds={'null_model_und_sign': 'signed symmetric matrices: all 27 sign patterns n=3 (bin_swaps = 0 only: the rewirer needs 4 nodes), %s of the 729 n=4, %d sampled of the 59049 n=5'
                                       % ('all' if thorough else '%d sampled' % len(nu4), len(nu5)),
                'null_model_dir_sign': 'signed digraphs: all 729 sign patterns n=3 (bin_swaps = 0 only), %d sampled of the 531441 n=4' % len(nd4),
                'weights': 'magnitudes by position from {1,2,3}; tie-rich {1,2}' + ('; all distinct' if thorough else '') + '; only matrices with at least one positive and one negative connection, empty diagonal',
                'wei_freq': freqs, 'bin_swaps': swaps, 'seeds': '10 (n=4), %d (n=5 und), 3 (n=3); 1 when bin_swaps = 0 and wei_freq = 0 (no random draw)' % (10 if thorough else 4)},
        rule='one case = (routine, matrix, bin_swaps, wei_freq, seed); non-trivial = the returned matrix differs from the input; distinct by (routine, matrix bytes, bin_swaps, wei_freq, seed)',
        exhaustive=False)
    run.bounded_part('null-models-random', bounds={'n': '5..9', 'cases_per_routine': 400 if thorough else 120, 'weights': '+-{.5,1,2,3}', 'bin_swaps': [0, 1, 3, 5], 'wei_freq': freqs + [.1]},
                     rule='seeded random signed matrices (symmetric for _und); non-trivial = output differs from input', exhaustive=False)
    for name in NULLM:
        for x in range(16 if thorough else 8):
            jobs.append(('null-models-random', 'worker_null_random', (name, seed * 104729 + 17 * x + (3 if NULLM[name] else 4), 25 if thorough else 15, 9, freqs + [.1])))

    # ---------------- pick_four_unique_nodes_quickly ----------------
    full2 = (4, 5, 6, 7, 8, 9) if thorough else (4, 5)
    for n in range(4, 10):
        N = n ** 4
        if n in full2:
            firsts = list(range(N))
            nbad = N - n * (n - 1) * (n - 2) * (n - 3)
            for ch in chunks(firsts, -(-nbad * N // 60000)):
                jobs.append(('pick-four', 'worker_four', (n, ch, True, [])))
        else:
            bad = [k for k in range(N) if len({k % n, k // n % n, k // n ** 2 % n, k // n ** 3 % n}) < 4]
            good = [k for k in range(N) if len({k % n, k // n % n, k // n ** 2 % n, k // n ** 3 % n}) == 4]
            jobs.append(('pick-four', 'worker_four', (n, good, True, [])))
            for ch in chunks(bad[::max(1, len(bad) // 12)], 4):
                jobs.append(('pick-four', 'worker_four', (n, ch, True, [])))          # a dozen rejected first draws x every second draw
            jobs.append(('pick-four', 'worker_four', (n, bad, False, [])))            # every rejected first draw x 64 sampled second draws
        jobs.append(('pick-four', 'worker_four', (n, [], True, [seed + 1, seed + 2, seed + 3])))
    run.bounded_part(
        'pick-four',
        bounds={'n': '4..9',
                'scripts': 'first draw: every value of randint(n^4) for every n; second draw (taken only when the first decodes to repeated nodes): every value for n in %s'
                           % (list(full2),) + ('' if thorough else '; for n = 6..9 every second value after 12 spread rejected first draws, and 64 sampled second values after every rejected first draw'),
                'seeds': '3 seeds x 200 calls per n'},
        rule='one case = (n, sequence of draws) that made the routine return; four pairwise distinct integers in [0, n) required; non-trivial = the first draw was rejected and a redraw happened; evaluations count every draw sequence, distinct non-trivial cases are counted by (n, rejected first draw) to keep the key set small',
        exhaustive=False)

    accs = pmap(_dispatch, [(w, t) for _, w, t in jobs])
    for (part, _, _), a in zip(jobs, accs):
        merge_all(run, part, [a])
