"""C15 bounded stand-in: k-core / s-core outputs are the maximal subnetworks meeting the degree bound.

Oracle (independent of bct): for n <= 6 the union of ALL node sets S in which every member has degree (in+out, strength)
>= bound inside S (subset enumeration; the union of such sets is again such a set, hence the largest one); for every n an
independent one-node-at-a-time peeling.  Both oracles are computed whenever n <= 6 and must agree (otherwise the checker
itself is wrong: RuntimeError -> exit 3, never a violation).

Domain: k >= 1, s > 0, binary matrices with empty diagonal (symmetric for *_bu / score_wu), non-negative dyadic weights for
score_wu (all strengths are exact in float64, so `strength == s` cases are decided exactly).
"""
import itertools
import numpy as np
import bct
from engine import graphs as G
from engine.par import pmap, Acc, merge_all

ENUM_MAX_N = 6
# Reading of "the peel order and level list each removed node exactly once".  The routines (like the MATLAB originals) list
# the nodes they peel, i.e. nodes with 0 < degree < k at their turn; a node outside the core that loses ALL its connections
# through the peeling of its neighbours (path 0-2-1, k = 2: node 2) is never listed.  With False (default) such a node is
# tolerated -- every other deviation (duplicate, core node listed, isolated input node listed, a removed node that still had
# connections not listed) alarms.  With True the strict reading is enforced under its own key (.../node-left-without-...).
STRICT_PEEL_LISTING = False
_MASKS = {}


def _masks(n):
    if n not in _MASKS:
        _MASKS[n] = np.array(list(itertools.product((0, 1), repeat=n)), dtype=float)
    return _MASKS[n]


# ---------------------------------------------------------------------------------------------- oracles
def _incidence(A, directed):
    """M[y, x] = contribution of neighbour y to the degree / strength of x."""
    A = np.asarray(A, dtype=float)
    return A + A.T if directed else A


def cores_by_subsets(A, bounds, directed):
    """{bound: boolean membership vector of the largest set whose members all have degree-inside-the-set >= bound}."""
    n = len(A)
    M = _masks(n)                                   # (2^n, n)
    D = M @ _incidence(A, directed)                 # D[S, x] = degree of x counted inside S
    D = np.where(M > 0, D, np.inf)
    minD = D.min(axis=1)                            # empty set: inf (vacuously fine, contributes nothing to the union)
    out = {}
    for b in bounds:
        ok = minD >= b
        out[b] = (M[ok].sum(axis=0) > 0)
    return out


def core_by_peeling(A, bound, directed):
    """One node at a time: remove the lowest-numbered node whose degree among the remaining nodes is below the bound."""
    n = len(A)
    Mx = _incidence(A, directed)
    alive = np.ones(n, dtype=bool)
    while True:
        deg = Mx[alive].sum(axis=0)
        bad = np.where(alive & (deg < bound))[0]
        if bad.size == 0:
            return alive
        alive[bad[0]] = False


def oracle_cores(A, bounds, directed):
    n = len(A)
    peel = {b: core_by_peeling(A, b, directed) for b in bounds}
    if n <= ENUM_MAX_N:
        enum = cores_by_subsets(A, bounds, directed)
        for b in bounds:
            if not np.array_equal(enum[b], peel[b]):
                raise RuntimeError('C15 oracles disagree (checker defect): A=%r bound=%r' % (np.asarray(A).tolist(), b))
        return enum
    return peel


# ---------------------------------------------------------------------------------------------- contract of one call
def _support_nodes(R):
    R = np.asarray(R)
    return (np.abs(R).sum(axis=0) + np.abs(R).sum(axis=1)) > 0


def _flat(lst):
    if isinstance(lst, np.ndarray):
        return [np.atleast_1d(lst)]
    return [np.atleast_1d(np.asarray(a)) for a in lst]


def check_core_call(acc, fname, A, bound, S, directed, wit, peel=None):
    """Checks one call of kcore_bu / kcore_bd / score_wu against the oracle set S.  Returns the node set of the result."""
    f = getattr(bct, fname)
    Ain = A.copy()
    try:
        res = f(A, bound) if peel is None else f(A, bound, peel)
    except bct.BCTParamError:
        return None
    except Exception as e:
        acc.violate('%s/RAISES-%s' % (fname, type(e).__name__), 'in-domain input raised %r' % (e,), wit)
        return None
    if not np.array_equal(A, Ain):
        acc.violate('%s/FRAME-argument-unchanged' % fname, 'the caller\'s matrix was modified', wit)
    if peel:
        if len(res) != 4:
            acc.violate('%s/POST-peel-returns-four-values' % fname, 'peel=True must return (core, size, peelorder, peellevel)', wit)
            return None
        R, kn, order, level = res
    else:
        if len(res) != 2:
            acc.violate('%s/POST-returns-core-and-size' % fname, 'expected (core, size)', wit)
            return None
        R, kn = res
    R = np.asarray(R)
    if R.shape != Ain.shape:
        acc.violate('%s/POST-shape' % fname, 'core matrix has shape %r' % (R.shape,), wit)
        return None
    T = _support_nodes(R)
    if not np.array_equal(R, Ain * np.outer(T, T)):
        acc.violate('%s/POST-restriction-of-input' % fname,
                    'result is not the input restricted to a node set with all other rows and columns zeroed (result %r)' % (R.tolist(),), wit)
    degR = _incidence(R, directed).sum(axis=0)
    if np.any(degR[T] < bound):
        acc.violate('%s/POST-every-core-node-meets-bound' % fname,
                    'a node of the returned subnetwork has degree/strength %r < %r inside it' % (float(degR[T].min()), bound), wit)
    if not np.array_equal(T, S):
        acc.violate('%s/POST-core-is-largest-set' % fname,
                    'returned node set %r, largest set meeting the bound is %r' % (np.where(T)[0].tolist(), np.where(S)[0].tolist()), wit)
    try:
        kn_ok = (np.ndim(kn) == 0) and (int(kn) == int(S.sum())) and float(kn) == int(kn)
    except Exception:
        kn_ok = False
    if not kn_ok:
        acc.violate('%s/POST-size-counts-core-nodes' % fname, 'reported size %r, the core has %d nodes' % (kn, int(S.sum())), wit)
    if peel:
        try:
            o = _flat(order)
            l = _flat(level)
            oc = np.concatenate(o) if o else np.zeros(0)
            lc = np.concatenate(l) if l else np.zeros(0)
        except Exception as e:
            acc.violate('%s/POST-peel-lists-well-formed' % fname, 'peelorder / peellevel cannot be flattened: %r' % (e,), wit)
            return T
        removed = np.where((_incidence(Ain, directed).sum(axis=0) > 0) & ~S)[0]
        w2 = dict(wit, peelorder=oc.tolist(), peellevel=lc.tolist())
        listed = set(int(x) for x in oc) if not np.any(oc != np.round(oc)) else None
        unlisted = [] if listed is None else [int(x) for x in removed if int(x) not in listed]
        if unlisted:
            # removed nodes that are not listed: tolerated (see STRICT_PEEL_LISTING) only if they had lost every connection
            # through the peeling of their neighbours, i.e. they are isolated among the nodes that were never listed
            rest = np.ones(len(Ain), dtype=bool)
            rest[[x for x in listed if 0 <= x < len(Ain)]] = False
            degrest = _incidence(Ain, directed)[rest].sum(axis=0)
            stranded_only = all(degrest[x] == 0 for x in unlisted)
        if listed is None or len(oc) != len(listed) or not listed <= set(removed.tolist()) or (unlisted and not stranded_only):
            acc.violate('%s/POST-peelorder-lists-each-removed-node-once' % fname,
                        'peelorder %r, removed nodes %r' % (oc.tolist(), removed.tolist()), w2)
        elif unlisted and STRICT_PEEL_LISTING:
            acc.violate('%s/POST-peelorder-lists-each-removed-node-once/node-left-without-connections-by-the-peeling-of-its-neighbours' % fname,
                        'peelorder %r does not list %r, which are outside the core (removed nodes %r)' % (oc.tolist(), unlisted, removed.tolist()), w2)
        elif len(lc) != len(oc) or np.any(np.diff(lc) < 0) or [len(x) for x in o] != [len(x) for x in l]:
            acc.violate('%s/POST-peellevel-aligned-with-peelorder' % fname,
                        'peellevel %r does not give one non-decreasing level per entry of peelorder %r' % (lc.tolist(), oc.tolist()), w2)
        else:
            # a node listed at level L had degree < bound among the nodes not removed at an earlier level
            Mx = _incidence(Ain, directed)
            alive = np.ones(len(Ain), dtype=bool)
            for L in sorted(set(lc.tolist())):
                grp = oc[lc == L].astype(int)
                deg = Mx[alive].sum(axis=0)
                if np.any(deg[grp] >= bound):
                    acc.violate('%s/POST-peellevel-nodes-were-below-bound-at-their-level' % fname,
                                'a node listed at level %r had degree >= bound among the nodes remaining at that level' % (L,), w2)
                    break
                alive[grp] = False
    return T


def check_family(acc, fname, A, bounds, directed, ident, with_peel):
    """All bounds for one network: each call against the oracle, peel variants, nestedness across increasing bounds."""
    cores = oracle_cores(A, bounds, directed)
    prev = None
    prevb = None
    nonisol = _incidence(A, directed).sum(axis=0) > 0
    for b in bounds:
        S = cores[b]
        wit = {'function': fname, 'CIJ': A.tolist(), 'dtype': str(A.dtype), 'k' if fname != 'score_wu' else 's': b}
        T = check_core_call(acc, fname, A, b, S, directed, wit)
        if with_peel:
            T2 = check_core_call(acc, fname, A, b, S, directed, dict(wit, peel=True), peel=True)
            if T is not None and T2 is not None and not np.array_equal(T, T2):
                acc.violate('%s/POST-peel-flag-does-not-change-core' % fname, 'core differs between peel=False and peel=True', wit)
        if T is not None and prev is not None and np.any(T & ~prev):
            acc.violate('%s/POST-nested-as-bound-grows' % fname,
                        'core at %r contains nodes %r missing from the core at %r' % (b, np.where(T & ~prev)[0].tolist(), prevb), wit)
        if T is not None:
            prev, prevb = T, b
        peeled = bool(np.any(nonisol & ~S))
        acc.case(key=(fname,) + ident + (b,), nontrivial=peeled and bool(S.any()),
                 sample={'function': fname, 'CIJ': A.tolist(), 'bound': b, 'core_nodes': np.where(S)[0].tolist()})


def check_coreness(acc, fname, A, directed, ident):
    n = len(A)
    f = getattr(bct, fname)
    ks = list(range(1, 2 * n + 1))
    cores = oracle_cores(A, ks, directed)
    true = np.zeros(n)
    trunc = np.zeros(n)          # what a loop stopping at k = N-1 would report
    for k in ks:
        true[cores[k]] = k
        if k <= n - 1:
            trunc[cores[k]] = k
    wit = {'function': fname, 'CIJ': A.tolist(), 'dtype': str(A.dtype)}
    Ain = A.copy()
    try:
        coreness, kn = f(A)
    except bct.BCTParamError:
        return
    except Exception as e:
        acc.violate('%s/RAISES-%s' % (fname, type(e).__name__), 'in-domain input raised %r' % (e,), wit)
        acc.case()
        return
    if not np.array_equal(A, Ain):
        acc.violate('%s/FRAME-argument-unchanged' % fname, 'the caller\'s matrix was modified', wit)
    coreness = np.asarray(coreness, dtype=float).ravel()
    kn = np.asarray(kn, dtype=float).ravel()
    deg = _incidence(Ain, directed).sum(axis=0)
    if coreness.shape != (n,):
        acc.violate('%s/POST-coreness-shape' % fname, 'coreness has shape %r' % (coreness.shape,), wit)
    elif not np.array_equal(coreness, true):
        what = 'coreness %r, largest k whose core contains each node %r (total degrees %r)' % (coreness.tolist(), true.tolist(), deg.tolist())
        if np.all(deg < n):
            acc.violate('%s/POST-coreness-is-largest-k-with-node-in-core' % fname, what, wit)
        elif np.array_equal(coreness, trunc):
            # exactly the values a search over k <= N-1 gives although a k-core with k >= N exists
            acc.violate('%s/POST-coreness-is-largest-k-with-node-in-core/degree>=N' % fname, what, wit)
        else:
            acc.violate('%s/POST-coreness-is-largest-k-with-node-in-core/degree>=N-and-not-the-search-stopping-at-N-1' % fname, what, wit)
    # kn[k] is the size of the k-core for the k the routine stores (index k, k = 1..N-1; index 0 is the out-of-domain k = 0)
    if kn.shape != (n,):
        acc.violate('%s/POST-kn-one-entry-per-k' % fname, 'kn has shape %r, expected (%d,)' % (kn.shape, n), wit)
    else:
        exp = np.array([cores[k].sum() for k in range(1, n)], dtype=float)
        if not np.array_equal(kn[1:], exp):
            acc.violate('%s/POST-kn-is-core-size' % fname, 'kn[1:] = %r, sizes of the 1..N-1 cores %r' % (kn[1:].tolist(), exp.tolist()), wit)
    acc.case(key=(fname,) + ident, nontrivial=len(set(true[deg > 0].tolist())) > 1 or bool(np.any(true >= 2)),
             sample={'function': fname, 'CIJ': A.tolist(), 'coreness': true.tolist()})


# ---------------------------------------------------------------------------------------------- workers
def worker_und(task):
    n, bitlist, dtype = task
    acc = Acc()
    ks = list(range(1, 2 * n + 1))
    for bits in bitlist:
        A = G.und_from_bits(n, bits, dtype=dtype)
        ident = (n, bits, str(np.dtype(dtype)))
        check_family(acc, 'kcore_bu', A, ks, False, ident, True)
        check_coreness(acc, 'kcoreness_centrality_bu', A, False, ident)
        # a symmetric 0/1 matrix is also a valid directed input (every edge reciprocated)
        check_family(acc, 'kcore_bd', A, ks, True, ident + ('sym',), True)
        check_coreness(acc, 'kcoreness_centrality_bd', A, True, ident + ('sym',))
    return acc


def worker_dir(task):
    n, bitlist, dtype = task
    acc = Acc()
    ks = list(range(1, 2 * n + 1))
    for bits in bitlist:
        A = G.dir_from_bits(n, bits, dtype=dtype)
        ident = (n, bits, str(np.dtype(dtype)))
        check_family(acc, 'kcore_bd', A, ks, True, ident, True)
        check_coreness(acc, 'kcoreness_centrality_bd', A, True, ident)
    return acc


def s_grid(W):
    """multiples of 1/4 from 1/4 to max strength + 1/4: contains every strength any sub-network can have (weights are
    multiples of 1/2) and a value strictly between any two of them."""
    top = float(np.asarray(W).sum(axis=0).max()) if len(W) else 0.0
    return [q / 4.0 for q in range(1, int(round(top * 4)) + 2)]


def worker_weighted(task):
    n, values, idxlist = task
    pr = G.und_pairs(n)
    acc = Acc()
    nv = len(values)
    for idx in idxlist:
        W = np.zeros((n, n))
        x = idx
        for (i, j) in pr:
            W[i, j] = W[j, i] = values[x % nv]
            x //= nv
        check_family(acc, 'score_wu', W, s_grid(W), False, (n, tuple(values), idx), False)
    return acc


def worker_random(task):
    seed, count, nmax = task
    rng = np.random.RandomState(seed)
    acc = Acc()
    for c in range(count):
        n = int(rng.randint(7, nmax + 1))
        p = rng.uniform(.15, .85)
        ks = list(range(1, 2 * n + 1))
        A = G.random_und(rng, n, p)
        check_family(acc, 'kcore_bu', A, ks, False, ('rnd', seed, c), True)
        check_coreness(acc, 'kcoreness_centrality_bu', A, False, ('rnd', seed, c))
        B = G.random_dir(rng, n, p)
        check_family(acc, 'kcore_bd', B, ks, True, ('rnd', seed, c), True)
        check_coreness(acc, 'kcoreness_centrality_bd', B, True, ('rnd', seed, c))
        W = G.random_und(rng, n, p, weights=[.5, 1., 1.5, 2., 3., .25])
        grid = sorted(set(s_grid(W)[::3]) | set(float(v) for v in W.sum(axis=0) if v > 0))
        check_family(acc, 'score_wu', W, grid, False, ('rnd', seed, c), False)
    return acc


def chunks(lst, k):
    k = max(1, k)
    return [lst[i::k] for i in range(k) if lst[i::k]]


def run_bounded(run, tier, seed):
    thorough = tier == 'thorough'
    rs = np.random.RandomState(seed)
    nU = 6 if thorough else 5
    nD = 4
    # ---- binary undirected -----------------------------------------------------------------------------------------
    run.bounded_part('kcore-undirected-exhaustive',
                     bounds={'graphs': 'all labelled simple undirected graphs n = 1..%d (float; int dtype for n <= 4), also fed to the directed routines as reciprocated digraphs' % nU,
                             'k': 'every k in 1..2n', 'peel': 'both flags',
                             'oracle': 'subset enumeration (all 2^n node sets) cross-checked with one-node-at-a-time peeling'},
                     rule='one case = (routine, graph, k) or (coreness routine, graph); non-trivial = at least one non-isolated node is peeled and the core is non-empty '
                          '(coreness: two different coreness values among non-isolated nodes or a coreness >= 2); distinct by (routine, n, edge bits, dtype, k)',
                     exhaustive=True)
    tasks = []
    for n in range(1, nU + 1):
        allb = list(range(G.n_und(n)))
        for ch in chunks(allb, 64 if n >= 6 else (16 if n == 5 else 2)):
            tasks.append((n, ch, float))
        if n <= 4:
            tasks.append((n, allb, int))
    merge_all(run, 'kcore-undirected-exhaustive', pmap(worker_und, tasks))
    # ---- binary directed -------------------------------------------------------------------------------------------
    n5 = 20000 if thorough else 0
    run.bounded_part('kcore-directed-exhaustive',
                     bounds={'graphs': 'all labelled simple digraphs n = 1..%d (float; int dtype for n <= 3)%s' % (nD, ', plus %d sampled digraphs n = 5' % n5 if n5 else ''),
                             'k': 'every k in 1..2n', 'peel': 'both flags', 'oracle': 'subset enumeration cross-checked with peeling'},
                     rule='as above with degree = in-degree + out-degree; the known finding of kcoreness_centrality_bd is keyed .../degree>=N only when some node has total degree >= N '
                          'and the reported coreness is exactly what a search over k <= N-1 yields',
                     exhaustive=not n5)
    tasks = []
    for n in range(1, nD + 1):
        allb = list(range(G.n_dir(n)))
        for ch in chunks(allb, 48 if n == 4 else 2):
            tasks.append((n, ch, float))
        if n <= 3:
            tasks.append((n, allb, int))
    if n5:
        b5 = sorted(set(int(x) for x in rs.randint(0, G.n_dir(5), n5)))
        for ch in chunks(b5, 64):
            tasks.append((5, ch, float))
    merge_all(run, 'kcore-directed-exhaustive', pmap(worker_dir, tasks))
    # ---- weighted undirected ---------------------------------------------------------------------------------------
    vals4 = (0., .5, 1., 2.)
    vals5 = (0., 1., 1.5)
    cnt5 = len(vals5) ** 10
    idx5 = list(range(cnt5)) if thorough else sorted(set(int(x) for x in rs.randint(0, cnt5, 3000)))
    run.bounded_part('score-weighted-undirected',
                     bounds={'matrices': 'all symmetric matrices n = 2..4 with weights in %r; n = 5 with weights in %r: %s' % (list(vals4), list(vals5), 'all %d' % cnt5 if thorough else '%d sampled' % len(idx5)),
                             's': 'every multiple of 1/4 from 1/4 to (largest strength + 1/4): every attainable strength value and a value between any two',
                             'oracle': 'subset enumeration cross-checked with peeling'},
                     rule='one case = (matrix, s); non-trivial = a node of positive strength is peeled and the s-core is non-empty', exhaustive=thorough)
    tasks = []
    for n in (2, 3, 4):
        cnt = len(vals4) ** (n * (n - 1) // 2)
        for ch in chunks(list(range(cnt)), 32 if n == 4 else 1):
            tasks.append((n, vals4, ch))
    for ch in chunks(idx5, 64):
        tasks.append((5, vals5, ch))
    merge_all(run, 'score-weighted-undirected', pmap(worker_weighted, tasks))
    # ---- random beyond the enumeration bound -----------------------------------------------------------------------
    per, nt = (40, 32) if thorough else (12, 16)
    run.bounded_part('kcore-random-n7-10',
                     bounds={'n': '7..10', 'networks': '%d random undirected, directed and weighted undirected (weights multiples of 1/4) each' % (per * nt),
                             'k': 'every k in 1..2n; s: every third multiple of 1/4 plus every node strength', 'oracle': 'one-node-at-a-time peeling only'},
                     rule='seeded (VERIF_SEED) random networks; same case / non-trivial rule as above', exhaustive=False)
    merge_all(run, 'kcore-random-n7-10', pmap(worker_random, [(seed * 7919 + 17 * t + 1, per, 10) for t in range(nt)]))
