"""C20 bounded stand-in: synthetic generators deliver the requested size, connection count and symmetry.

What K counts (read from the docstrings / code):
* makerandCIJ_und(n, k): K = number of UNDIRECTED connections (node pairs): the result is symmetric with 2K nonzero cells.
* makerandCIJ_dir, makeringlatticeCIJ, maketoeplitzCIJ, makeevenCIJ, makefractalCIJ: K = number of nonzero cells (directed
  connections).  makeringlatticeCIJ therefore is "directed" only in that the excess is removed cell by cell.
* makeevenCIJ(n, k, sz_cl): clusters are the consecutive index blocks of 2^sz_cl nodes (the parameter is the exponent), all
  fully connected: n (2^sz_cl - 1) within-cluster connections; domain: n a power of two >= 4, 1 <= sz_cl <= log2 n,
  n (2^sz_cl - 1) <= K <= n (n - 1).  (n = 2 raises UnboundLocalError in the template loop, as does makefractalCIJ(1, ..);
  not generated.)
* makerandCIJdegreesfixed(inv, outv): CIJ[i, j] = 1 is a connection i -> j: row sums = outv, column sums = inv.
* makeringlatticeCIJ: band d = cells with circular offset min(|i-j|, n-|i-j|) = d; 2n cells for d < n/2, n cells for d = n/2.
"""
import numpy as np
import bct
from engine import graphs as G
from engine.par import pmap, Acc, merge_all


def _basic(acc, fname, R, n, wit, allow_bool=False):
    """shape n x n, entries 0/1, empty diagonal.  Returns the matrix as int array or None."""
    if not isinstance(R, np.ndarray) or R.shape != (n, n):
        acc.violate(fname + '/POST-n-by-n-matrix', 'returned %r of shape %r' % (type(R).__name__, getattr(R, 'shape', None)), wit)
        return None
    if R.dtype == object or not np.all((R == 0) | (R == 1)):
        acc.violate(fname + '/POST-entries-0-or-1', 'entries other than 0/1: %r' % (np.unique(R).tolist()[:6],), wit)
        return None
    R = R.astype(int)
    if np.any(np.diag(R) != 0):
        acc.violate(fname + '/POST-empty-diagonal', 'self-connections at nodes %r' % (np.where(np.diag(R))[0].tolist(),), dict(wit, result=R.tolist()))
    return R


def _call(acc, fname, args, seed, wit):
    try:
        return True, getattr(bct, fname)(*args, seed=seed)
    except bct.BCTParamError:
        return False, None
    except Exception as e:
        acc.violate('%s/RAISES-%s' % (fname, type(e).__name__), 'in-domain input raised %r' % (e,), wit)
        return False, None


# ---------------------------------------------------------------------------------------------- workers
def worker_rand(task):
    """makerandCIJ_und / makerandCIJ_dir / makeringlatticeCIJ for one n, all K, all seeds."""
    n, seeds = task
    acc = Acc()
    idx = np.arange(n)
    circ = np.minimum(np.abs(idx[:, None] - idx[None, :]), n - np.abs(idx[:, None] - idx[None, :]))
    for k in range(n * (n - 1) // 2 + 1):
        for s in seeds:
            wit = {'function': 'makerandCIJ_und', 'n': n, 'k': k, 'seed': s}
            ok, R = _call(acc, 'makerandCIJ_und', (n, k), s, wit)
            acc.case(key=('und', n, k, s), nontrivial=0 < k < n * (n - 1) // 2, sample=wit)
            if not ok:
                continue
            R = _basic(acc, 'makerandCIJ_und', R, n, wit)
            if R is None:
                continue
            w2 = dict(wit, result=R.tolist())
            if not np.array_equal(R, R.T):
                acc.violate('makerandCIJ_und/POST-symmetric', 'result is not symmetric', w2)
            if int(np.triu(R | R.T, 1).sum()) != k:
                acc.violate('makerandCIJ_und/POST-exactly-K-undirected-connections', '%d connected node pairs, K = %d' % (int(np.triu(R | R.T, 1).sum()), k), w2)
            if int(R.sum()) != 2 * k:
                acc.violate('makerandCIJ_und/POST-2K-nonzero-cells', '%d nonzero cells, 2K = %d' % (int(R.sum()), 2 * k), w2)
    # band sizes of the ring
    bands = [(d, int((circ == d).sum())) for d in range(1, n // 2 + 1)]
    for k in range(n * (n - 1) + 1):
        for s in seeds:
            wit = {'function': 'makerandCIJ_dir', 'n': n, 'k': k, 'seed': s}
            ok, R = _call(acc, 'makerandCIJ_dir', (n, k), s, wit)
            acc.case(key=('dir', n, k, s), nontrivial=0 < k < n * (n - 1), sample=wit)
            if ok:
                R = _basic(acc, 'makerandCIJ_dir', R, n, wit)
                if R is not None and int(R.sum()) != k:
                    acc.violate('makerandCIJ_dir/POST-exactly-K-connections', '%d connections, K = %d' % (int(R.sum()), k), dict(wit, result=R.tolist()))
            # ring lattice
            wit = {'function': 'makeringlatticeCIJ', 'n': n, 'k': k, 'seed': s}
            ok, R = _call(acc, 'makeringlatticeCIJ', (n, k), s, wit)
            cum = 0
            outer = 0
            partial = False
            for d, size in bands:
                if cum >= k:
                    break
                outer = d
                partial = cum + size > k
                cum += size
            acc.case(key=('ring', n, k, s), nontrivial=partial, sample=wit)
            if not ok:
                continue
            R = _basic(acc, 'makeringlatticeCIJ', R, n, wit)
            if R is None:
                continue
            w2 = dict(wit, result=R.tolist())
            if int(R.sum()) != k:
                acc.violate('makeringlatticeCIJ/POST-exactly-K-connections', '%d connections, K = %d' % (int(R.sum()), k), w2)
            if np.any(R[(circ >= 1) & (circ < outer)] != 1):
                acc.violate('makeringlatticeCIJ/POST-nearer-bands-full', 'a band nearer than the outermost band in use (circular offset %d) is not full' % outer, w2)
            if np.any(R[circ > outer] != 0):
                acc.violate('makeringlatticeCIJ/POST-no-connection-beyond-outermost-needed-band',
                            'connections at circular offset > %d although K = %d fits into the bands up to %d' % (outer, k, outer), w2)
    return acc


def toeplitz_template(n, k, s):
    """Only used to select cases that can be resolved at all (not an oracle): expected count and spread of one draw."""
    from scipy import linalg, stats
    pf = stats.norm.pdf(range(1, n), .5, s)
    t = linalg.toeplitz(np.append((0,), pf), r=np.append((0,), pf))
    t = t * (k / np.sum(t))
    q = np.minimum(t, 1)
    return float(q.sum()), float(np.sqrt((q * (1 - q)).sum()))


def worker_toeplitz(task):
    n, svals, seeds = task
    acc = Acc()
    for s_ in svals:
        for k in range(n * (n - 1) + 1):
            if k > 0:
                mean, sd = toeplitz_template(n, k, s_)
                if k > mean + 4 * sd + 1e-9:
                    continue            # the template saturates: the rejection sampler (10000 tries) practically never reaches K
            for s in seeds:
                wit = {'function': 'maketoeplitzCIJ', 'n': n, 'k': k, 's': s_, 'seed': s}
                ok, R = _call(acc, 'maketoeplitzCIJ', (n, k, s_), s, wit)
                if not ok:
                    acc.case()
                    break               # unresolvable for this seed: other seeds are not tried (case selection only)
                acc.case(key=('toeplitz', n, k, s_, s), nontrivial=0 < k < n * (n - 1), sample=wit)
                R = _basic(acc, 'maketoeplitzCIJ', R, n, wit)
                if R is not None and int(R.sum()) != k:
                    acc.violate('maketoeplitzCIJ/POST-exactly-K-connections', '%d connections, K = %d' % (int(R.sum()), k), dict(wit, result=R.tolist()))
    return acc


def worker_even(task):
    n, sz_cl, ks, seeds = task
    acc = Acc()
    c = 2 ** sz_cl
    blk = np.arange(n) // c
    within = (blk[:, None] == blk[None, :]) & ~np.eye(n, dtype=bool)
    for k in ks:
        for s in seeds:
            wit = {'function': 'makeevenCIJ', 'n': n, 'k': k, 'sz_cl': sz_cl, 'seed': s}
            ok, R = _call(acc, 'makeevenCIJ', (n, k, sz_cl), s, wit)
            acc.case(key=('even', n, k, sz_cl, s), nontrivial=int(within.sum()) < k < n * (n - 1), sample=wit)
            if not ok:
                continue
            R = _basic(acc, 'makeevenCIJ', R, n, wit)
            if R is None:
                continue
            w2 = dict(wit, result=R.tolist())
            if int(R.sum()) != k:
                acc.violate('makeevenCIJ/POST-exactly-K-connections', '%d connections, K = %d' % (int(R.sum()), k), w2)
            if np.any(R[within] != 1):
                acc.violate('makeevenCIJ/POST-clusters-fully-connected', 'a within-cluster connection (clusters of %d consecutive nodes) is missing' % c, w2)
    return acc


def worker_fractal(task):
    mx_lvl, Es, seeds = task
    acc = Acc()
    n = 2 ** mx_lvl
    for E in Es:
        for sz_cl in range(1, mx_lvl + 1):
            for s in seeds:
                wit = {'function': 'makefractalCIJ', 'mx_lvl': mx_lvl, 'E': E, 'sz_cl': sz_cl, 'seed': s}
                ok, res = _call(acc, 'makefractalCIJ', (mx_lvl, E, sz_cl), s, wit)
                if not ok:
                    acc.case()
                    continue
                if not isinstance(res, tuple) or len(res) != 2:
                    acc.violate('makefractalCIJ/POST-returns-matrix-and-count', 'returned %r' % (type(res).__name__,), wit)
                    acc.case()
                    continue
                R, K = res
                R = _basic(acc, 'makefractalCIJ', R, n, wit)
                if R is not None:
                    if np.ndim(K) != 0 or int(K) != int(R.sum()) or float(K) != int(K):
                        acc.violate('makefractalCIJ/POST-reported-K-is-connection-count', 'reported K = %r, the matrix has %d connections' % (K, int(R.sum())), dict(wit, result=R.tolist()))
                    acc.case(key=('fractal', mx_lvl, E, sz_cl, s), nontrivial=0 < int(R.sum()) < n * (n - 1), sample=wit)
    return acc


def _check_degfixed(acc, inv, outv, s, ident):
    n = len(inv)
    wit = {'function': 'makerandCIJdegreesfixed', 'inv': inv.tolist(), 'outv': outv.tolist(), 'seed': s}
    ok, R = _call(acc, 'makerandCIJdegreesfixed', (inv.copy(), outv.copy()), s, wit)
    if not ok:
        acc.case()
        return
    acc.case(key=('degfixed',) + ident + (s,), nontrivial=int(inv.sum()) >= 2, sample=wit)
    R = _basic(acc, 'makerandCIJdegreesfixed', R, n, wit)
    if R is None:
        return
    w2 = dict(wit, result=R.tolist())
    if not np.array_equal(R.sum(axis=0), inv):
        acc.violate('makerandCIJdegreesfixed/POST-column-sums-are-in-degrees', 'column sums %r, inv %r' % (R.sum(axis=0).tolist(), inv.tolist()), w2)
    if not np.array_equal(R.sum(axis=1), outv):
        acc.violate('makerandCIJdegreesfixed/POST-row-sums-are-out-degrees', 'row sums %r, outv %r' % (R.sum(axis=1).tolist(), outv.tolist()), w2)


def worker_degfixed(task):
    pairs, seeds = task
    acc = Acc()
    for inv, outv in pairs:
        inv = np.array(inv, dtype=int)
        outv = np.array(outv, dtype=int)
        for s in seeds:
            _check_degfixed(acc, inv, outv, s, (tuple(inv.tolist()), tuple(outv.tolist())))
    return acc


def worker_degfixed_random(task):
    seed, count, seeds = task
    rng = np.random.RandomState(seed)
    acc = Acc()
    for c in range(count):
        n = int(rng.randint(5, 9))
        A = G.random_dir(rng, n, rng.uniform(.1, .9))
        inv = A.sum(axis=0).astype(int)
        outv = A.sum(axis=1).astype(int)
        for s in seeds:
            _check_degfixed(acc, inv, outv, s, (tuple(inv.tolist()), tuple(outv.tolist())))
    return acc


def chunks(lst, k):
    k = max(1, k)
    return [lst[i::k] for i in range(k) if lst[i::k]]


def run_bounded(run, tier, seed):
    thorough = tier == 'thorough'
    ns = 20 if thorough else 5
    seeds = [seed * 1000 + i for i in range(ns)]
    N = 9
    # ---- random graphs and ring lattice -----------------------------------------------------------------------------
    run.bounded_part('makerandCIJ-and-ringlattice',
                     bounds={'n': '1..%d' % N, 'K': 'makerandCIJ_und: every K in 0..n(n-1)/2 (undirected connections); makerandCIJ_dir, makeringlatticeCIJ: every K in 0..n(n-1)',
                             'seeds': ns},
                     rule='one case = (generator, n, K, seed); non-trivial = 0 < K < maximum (ring lattice: K ends inside a band, so excess is removed at random); distinct by (generator, n, K, seed)',
                     exhaustive=True)
    merge_all(run, 'makerandCIJ-and-ringlattice', pmap(worker_rand, [(n, [s]) for n in range(N, 0, -1) for s in seeds]))
    # ---- toeplitz ---------------------------------------------------------------------------------------------------
    svals = [0.5, 1.0, 2.0, 4.0]
    run.bounded_part('maketoeplitzCIJ',
                     bounds={'n': '2..%d' % N, 's': svals, 'seeds': ns,
                             'K': 'every K in 0..n(n-1) that the rejection sampler can reach: K <= (expected count of one draw of the clipped template) + 4 standard deviations; '
                                  'BCTParamError (10000 unsuccessful draws) is a skip'},
                     rule='one case = (n, K, s, seed); non-trivial = 0 < K < n(n-1)', exhaustive=False)
    merge_all(run, 'maketoeplitzCIJ', pmap(worker_toeplitz, [(n, [s_], seeds) for n in range(N, 1, -1) for s_ in svals]))
    # ---- makeevenCIJ / makefractalCIJ -------------------------------------------------------------------------------
    tasks = []
    for n in (4, 8) + ((16,) if thorough else ()):
        for sz_cl in range(1, int(np.log2(n)) + 1):
            lo, hi = n * (2 ** sz_cl - 1), n * (n - 1)
            ks = list(range(lo, hi + 1)) if n <= 8 else sorted(set(list(range(lo, hi + 1, 7)) + [lo, lo + 1, hi - 1, hi]) & set(range(lo, hi + 1)))
            for ch in chunks(ks, 4):
                tasks.append((n, sz_cl, ch, seeds))
    run.bounded_part('makeevenCIJ',
                     bounds={'n': '4, 8' + (', 16 (every 7th K and both ends)' if thorough else ''), 'sz_cl': '1..log2 n (cluster size 2^sz_cl)',
                             'K': 'every K from the number of within-cluster connections n(2^sz_cl - 1) to n(n-1)', 'seeds': ns},
                     rule='one case = (n, K, sz_cl, seed); non-trivial = some but not all between-cluster cells are filled', exhaustive=True)
    merge_all(run, 'makeevenCIJ', pmap(worker_even, tasks))
    Es = [1, 1.5, 2, 3, 5]
    run.bounded_part('makefractalCIJ', bounds={'mx_lvl': '2, 3' + (', 4' if thorough else ''), 'E': Es, 'sz_cl': '1..mx_lvl', 'seeds': ns},
                     rule='one case = (mx_lvl, E, sz_cl, seed); non-trivial = neither empty nor complete', exhaustive=True)
    merge_all(run, 'makefractalCIJ', pmap(worker_fractal, [(m, [E], seeds) for m in (2, 3) + ((4,) if thorough else ()) for E in Es]))
    # ---- makerandCIJdegreesfixed ------------------------------------------------------------------------------------
    pairs = set()
    for n in range(1, 5):
        for A in G.all_dir(n):
            pairs.add((tuple(int(x) for x in A.sum(axis=0)), tuple(int(x) for x in A.sum(axis=1))))
    pairs = sorted(pairs)
    per, nt = (60, 32) if thorough else (20, 16)
    run.bounded_part('makerandCIJdegreesfixed',
                     bounds={'degree_sequences': 'the %d distinct (in-degree, out-degree) sequence pairs of all labelled digraphs n = 1..4; %d pairs taken from random digraphs n = 5..8'
                                                 % (len(pairs), per * nt), 'seeds': ns},
                     rule='one case = (inv, outv, seed); BCTParamError ("could not resolve") is a skip; non-trivial = at least two connections', exhaustive=False)
    accs = pmap(worker_degfixed, [(ch, seeds) for ch in chunks(pairs, 32)])
    accs += pmap(worker_degfixed_random, [(seed * 32452843 + 13 * t + 7, per, seeds) for t in range(nt)])
    merge_all(run, 'makerandCIJdegreesfixed', accs)
