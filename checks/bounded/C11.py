"""C11 bounded stand-in: constrained rewiring honours connectivity, lattice cost and forbidden cells.

The per-swap monitor of checks/bounded/rewire.py (woven into the rewiring loop of the real routines) supplies the clauses
CONN (network still (strongly) connected after every accepted swap), LATT (sum(D*R) never rises, D = the matrix in use)
and MASK (no connection created where B != 0).  This module drives it over enumerated small scopes and adds the
end-to-end postconditions (computed independently with engine.graphs) and the input-rejection clauses.
Only CONN / LATT / MASK / REJECT (and RAISES on in-domain input) clauses are reported here; everything else the shared
monitor sees belongs to C01.
"""
import numpy as np
import bct
from engine import graphs as G
from engine.par import pmap, Acc, merge_all
from engine.srng import Scripted, explore, ScriptExhausted, DrawLimit, default_options
from checks.bounded import rewire as RW

C11_PREFIXES = ('CONN', 'LATT', 'MASK')
UND_CONN = ('randmio_und_connected', 'latmio_und_connected')
DIR_CONN = ('randmio_dir_connected', 'latmio_dir_connected')
LATT = ('latmio_und', 'latmio_dir', 'latmio_und_connected', 'latmio_dir_connected')
MASKED = 'randomize_graph_partial_und'


class Mon11(RW.Mon):
    """The C11 clauses of rewire.Mon (same clause names, same tests) without the C01 bookkeeping clauses, which are
    evaluated by C01's own run; also records the distance matrix the routine really uses (default or caller-supplied)."""
    D_used = None

    def __call__(self, R, i, j, k, D=None):
        und = self.spec['kind'] == 'und'
        self.steps += 1
        if self.first is None:
            self.first = R.copy()
            self.prev = R.copy()
            if D is not None:
                self.D_used = np.array(D, dtype=float)
                self.cost0 = float(np.sum(D * R))
                self.costprev = self.cost0
        changed = not np.array_equal(R, self.prev)
        if changed:
            self.changes += 1
        if D is not None:
            cost = float(np.sum(D * R))
            if cost > self.costprev + 1e-9:
                self.bad('LATT-cost-nonincreasing', 'sum(D*R) rose from %r to %r in one swap' % (self.costprev, cost))
            self.costprev = cost
        if self.B is not None and changed:
            if np.any((R != 0) & (self.first == 0) & (self.B != 0)):
                self.bad('MASK-no-connection-in-masked-cell', 'a connection was created where the mask is nonzero')
        if self.check_conn and changed:
            okc = G.is_connected_und(R) if und else G.is_strongly_connected(R)
            if not okc:
                self.bad('CONN-connected-after-swap', 'network is not (strongly) connected after an accepted swap')
        if changed:
            self.prev = R.copy()


def call(name, R, budget, rng, D=None, B=None):
    spec = RW.ROUTINES[name]
    mon = Mon11(spec, D=D, B=B, check_conn=bool(spec.get('conn')))
    f = RW.woven(name)
    RW._STATE['mon'] = mon
    try:
        if spec.get('mask'):
            res = f(R, B, budget, seed=rng)
        elif spec.get('latt'):
            res = f(R, budget, D=D, seed=rng)
        else:
            res = f(R, budget, seed=rng)
    finally:
        RW._STATE['mon'] = None
    return res, mon


def _j(x):
    return list(x) if isinstance(x, tuple) else x


class _Wit:
    """Witness built only when a violation is recorded (everything needed to re-run the case)."""

    def __init__(self, *a):
        self.a = a

    def __call__(self):
        name, Rin, budget, Din, Bin, script, rng, tag = self.a
        return {'function': name, 'R': Rin.tolist(), 'budget': budget, 'D': None if Din is None else Din.tolist(),
                'B': None if Bin is None else Bin.tolist(), 'script': list(script) if script is not None else None,
                'fallback_seed': getattr(rng, '_c11_seed', None), 'class': tag,
                'draws': [list(map(_j, l)) for l in rng.log[:60]] if isinstance(rng, Scripted) else None}


def _connected(A, und):
    return G.is_connected_und(A) if und else G.is_strongly_connected(A)


def _check_one(acc, name, R, budget, rng, script, D=None, B=None, tag=''):
    """One run of the woven real routine; returns 'ok' | 'skipped' | 'raised'."""
    spec = RW.ROUTINES[name]
    und = spec['kind'] == 'und'
    Rin = R.copy()
    Din = None if D is None else np.array(D, dtype=float)
    Bin = None if B is None else np.array(B, dtype=float)
    wit = _Wit(name, Rin, budget, Din, Bin, script, rng, tag)
    try:
        res, mon = call(name, R, budget, rng, D=D, B=B)
    except ScriptExhausted:
        raise
    except DrawLimit:
        acc.case()
        return 'skipped'
    except bct.BCTParamError as e:
        acc.case()
        if spec.get('conn') and und:
            # every input generated for these routines here is symmetric and connected
            acc.violate('%s/REJECT-only-disconnected-or-asymmetric' % name,
                        'a connected symmetric input was rejected with %r' % (e,), wit())
        return 'skipped'
    except Exception as e:
        acc.case()
        acc.violate('%s/RAISES-%s' % (name, type(e).__name__), 'in-domain input raised %r instead of returning a network' % (e,), wit())
        return 'raised'
    fails = [(c, d) for c, d in mon.fail if c.startswith(C11_PREFIXES)]
    Rout = np.asarray(res if spec.get('mask') else res[0])
    # ---- end-to-end postconditions, computed here ---------------------------------------------------------
    if spec.get('conn'):
        if not _connected(Rout, und):
            fails.append(('CONN-output-connected', 'input is %sconnected but the returned network is not' % ('' if und else 'strongly ')))
        if spec.get('latt') and not _connected(np.asarray(res[1]), und):
            fails.append(('CONN-output-connected', 'the returned re-ordered network Rrp is not %sconnected' % ('' if und else 'strongly ')))
    if spec.get('latt'):
        Rrp, ind = np.asarray(res[1]), np.asarray(res[2])
        Duse = mon.D_used if mon.D_used is not None else Din      # the matrix in use, as the woven monitor received it
        if Duse is not None and sorted(ind.tolist()) == list(range(len(Rin))):
            before = float(np.sum(Duse * Rin[np.ix_(ind, ind)]))
            after = float(np.sum(Duse * Rrp))
            if after > before + 1e-9 * max(1.0, abs(before)):
                fails.append(('LATT-end-to-end-cost', 'sum(D*Rrp) = %r exceeds sum(D*R[ind_rp][:,ind_rp]) = %r' % (after, before)))
    if spec.get('mask'):
        if Rout.shape == Rin.shape and np.any((Rout != 0) & (Rin == 0) & (Bin != 0)):
            fails.append(('MASK-end-to-end', 'the returned network has a new connection in a cell where the mask is nonzero'))
    for clause, detail in fails:
        acc.violate('%s/%s' % (name, clause), detail, wit())
    nontrivial = mon.changes > 0 and (not spec.get('mask') or bool(np.any(Bin != 0)))
    acc.case(key=(name, tag, Rin.tobytes(), None if Din is None else Din.tobytes(), None if Bin is None else Bin.tobytes(),
                  budget, tuple(script) if script is not None else ('seed', getattr(rng, '_c11_seed', None))),
             nontrivial=nontrivial,
             sample=None if (len(acc.samples) >= 2 or not nontrivial) else
             {'function': name, 'class': tag, 'R': Rin.tolist(), 'budget': budget, 'D': 'default' if Din is None else Din.tolist(),
              'B': None if Bin is None else Bin.tolist(), 'script': list(script) if script is not None else 'seeded',
              'accepted_swaps': mon.changes})
    return 'ok'


def _absorb(acc, a):
    acc.evaluations += a.evaluations
    acc.nontrivial |= a.nontrivial
    for s in a.samples:
        if len(acc.samples) < 2:
            acc.samples.append(s)
    for v in a.violations:
        acc.violate(*v)


def _options(max_perms):
    return lambda kind, arg: default_options(kind, arg, max_perms=max_perms)


def _seeded(s, max_draws=4000):
    r = Scripted((), fallback_seed=int(s), max_draws=max_draws)
    r._c11_seed = int(s)
    return r


def _explore(acc, name, R0, budget, depth, max_perms, D=None, B=None, tag='', draw_cap=150):
    def run(rng):
        a = Acc()
        rng._c11_seed = 7 if rng.fallback else None
        _check_one(a, name, R0.copy(), budget, rng, tuple(rng.script), D=D, B=B, tag=tag)
        return a
    for script, a in explore(run, depth, options=_options(max_perms), fallback_seed=7, draw_cap=draw_cap):
        _absorb(acc, a)


def _budgets(name, k):
    spec = RW.ROUTINES[name]
    if spec.get('mask'):
        return [1, 2]
    if spec.get('latt'):
        return [1]                      # range(itr * k): k outer iterations
    return [1.5 / k, 2.5 / k]           # exactly 1 and 2 outer iterations


def _nedges(R, und):
    return int(np.count_nonzero(R)) // (2 if und else 1)


def _graph(n, bits, und, weighted):
    A = G.und_from_bits(n, bits) if und else G.dir_from_bits(n, bits)
    if weighted:
        A = G.weight_by_position(A, symmetric=und)
    return A


# ---- distance matrices ----------------------------------------------------------------------------------------------
def make_D(kind, n, salt):
    """Caller-supplied distance matrices.  'sym-*' are symmetric (the documented use of the undirected latticisers)."""
    if kind == 'default':
        return None
    r = np.random.RandomState(1000003 * (salt % 2000) + n)
    if kind in ('sym-int', 'asym-int'):
        D = r.randint(0, 4, (n, n)).astype(float)
    else:
        D = np.round(r.uniform(0, 3, (n, n)), 3)
    if kind.startswith('sym'):
        D = np.triu(D, 1)
        D = D + D.T
    return D


# ---- part 1: connectivity ------------------------------------------------------------------------------------------
def worker_conn(task):
    name, n, bitlist, weighted, depth, max_perms, seeds, seed_itr = task
    spec = RW.ROUTINES[name]
    und = spec['kind'] == 'und'
    acc = Acc()
    for bits in bitlist:
        R0 = _graph(n, bits, und, weighted)
        if not RW.has_two_disjoint_edges(R0, und):
            # no four distinct end points: the routine cannot propose any swap (and would draw forever); itr = 0 only
            _check_one(acc, name, R0.copy(), 0, _seeded(1), (), tag='small-scope')
            continue
        k = _nedges(R0, und)
        for budget in _budgets(name, k):
            _explore(acc, name, R0, budget, depth, max_perms, tag='small-scope')
        for s in seeds:
            _check_one(acc, name, R0.copy(), seed_itr, _seeded(s), None, tag='small-scope')
    return acc


def worker_struct(task):
    name, graphs, depth, max_perms, seeds, seed_itr = task
    spec = RW.ROUTINES[name]
    und = spec['kind'] == 'und'
    acc = Acc()
    for label, R0 in graphs:
        R0 = np.asarray(R0, dtype=float)
        if not RW.has_two_disjoint_edges(R0, und):
            continue
        k = _nedges(R0, und)
        for budget in _budgets(name, k)[-1:]:
            _explore(acc, name, R0, budget, depth, max_perms, tag=label)
        for s in seeds:
            _check_one(acc, name, R0.copy(), seed_itr, _seeded(s, max_draws=20000), None, tag=label)
    return acc


def _tree(r, n):
    A = np.zeros((n, n))
    for v in range(1, n):
        u = int(r.randint(v))
        A[u, v] = A[v, u] = 1
    return A


def _add_chords(r, A, c, und):
    n = len(A)
    A = A.copy()
    free = [(i, j) for i in range(n) for j in range(n) if i != j and A[i, j] == 0 and (not und or i < j)]
    for x in r.permutation(len(free))[:c]:
        i, j = free[int(x)]
        A[i, j] = 1
        if und:
            A[j, i] = 1
    return A


def structured_und(seed, nmax, reps, wevery=2):
    r = np.random.RandomState(seed)
    out = []
    for n in range(5, nmax + 1):
        C = np.zeros((n, n))
        for i in range(n):
            C[i, (i + 1) % n] = C[(i + 1) % n, i] = 1
        out.append(('ring-%d' % n, C))
        P = np.zeros((n, n))
        for i in range(n - 1):
            P[i, i + 1] = P[i + 1, i] = 1
        out.append(('path-%d' % n, P))
    for p, q in ((3, 3), (3, 4), (4, 4), (3, 5), (5, 5)):
        if p + q > nmax:
            continue
        A = np.zeros((p + q, p + q))
        A[:p, :p] = 1 - np.eye(p)
        A[p:, p:] = 1 - np.eye(q)
        A[p - 1, p] = A[p, p - 1] = 1
        out.append(('cliques-%d-%d-bridge' % (p, q), A))
    for n in range(6, nmax + 1):
        for c in (0, 1, 2, 3):
            for _ in range(reps):
                T = _add_chords(r, _tree(r, n), c, True)
                p = r.permutation(n)
                out.append(('tree-%d-plus-%d-chords' % (n, c), T[np.ix_(p, p)]))
    # weighted copies of every second graph
    out2 = []
    for x, (lab, A) in enumerate(out):
        out2.append((lab, A))
        if x % wevery == 0:
            out2.append((lab + '-weighted', G.weight_by_position(A, symmetric=True)))
    return [(lab, A) for lab, A in out2 if G.is_connected_und(A)]


def structured_dir(seed, nmax, reps, wevery=2):
    r = np.random.RandomState(seed + 1)
    out = []
    for n in range(4, nmax + 1):
        C = np.zeros((n, n))
        for i in range(n):
            C[i, (i + 1) % n] = 1
        for c in (0, 1, 2, 3):
            for _ in range(1 if c == 0 else reps):
                A = _add_chords(r, C, c, False)
                p = r.permutation(n)
                out.append(('dicycle-%d-plus-%d-chords' % (n, c), A[np.ix_(p, p)]))
    for n in range(4, min(nmax, 8) + 1):
        for _ in range(reps):
            T = _tree(r, n)              # every tree edge in both directions: strongly connected, every edge pair critical
            out.append(('bidirected-tree-%d' % n, T))
            out.append(('bidirected-tree-%d-plus-1' % n, _add_chords(r, T, 1, False)))
    for p, q in ((3, 3), (3, 4), (4, 4), (5, 5)):
        if p + q > nmax:
            continue
        A = np.zeros((p + q, p + q))
        for i in range(p):
            A[i, (i + 1) % p] = 1
        for i in range(q):
            A[p + i, p + (i + 1) % q] = 1
        A[p - 1, p] = A[p, p - 1] = 1
        out.append(('dicycles-%d-%d-two-way-bridge' % (p, q), A))
    out2 = []
    for x, (lab, A) in enumerate(out):
        out2.append((lab, A))
        if x % wevery == 0:
            out2.append((lab + '-weighted', G.weight_by_position(A, symmetric=False)))
    return [(lab, A) for lab, A in out2 if G.is_strongly_connected(A)]


# ---- part 2: input rejection ---------------------------------------------------------------------------------------
def worker_reject(task):
    name, kind, n, bitlist = task
    acc = Acc()
    f = getattr(bct, name)
    for bits in bitlist:
        variants = []
        if kind == 'disconnected':
            A = G.und_from_bits(n, bits)
            variants = [A] + ([G.weight_by_position(A, symmetric=True)] if A.any() else [])
            clause = 'REJECT-disconnected'
        else:
            A = G.dir_from_bits(n, bits)
            if np.array_equal(A, A.T):
                S = np.triu(A, 1)
                if not S.any():
                    continue
                variants = [A + S]                      # symmetric support, weights 2 above / 1 below the diagonal
            else:
                variants = [A, G.weight_by_position(A, symmetric=False)]
            clause = 'REJECT-asymmetric'
        for R in variants:
            for itr in (1,):
                Rin = R.copy()
                wit = {'function': name, 'R': Rin.tolist(), 'itr': itr, 'seed': 1, 'class': kind}
                rng = Scripted((), fallback_seed=1, max_draws=400)
                try:
                    f(R, itr, seed=rng)
                    acc.violate('%s/%s' % (name, clause), '%s input was accepted (returned normally) instead of raising BCTParamError' % kind, wit)
                except bct.BCTParamError:
                    pass
                except DrawLimit:
                    acc.violate('%s/%s' % (name, clause), '%s input was not rejected: the routine entered its rewiring loop' % kind, wit)
                except Exception as e:
                    acc.violate('%s/%s' % (name, clause), '%s input raised %r instead of BCTParamError' % (kind, e), wit)
                acc.case(key=(name, kind, Rin.tobytes()), nontrivial=True,
                         sample={'function': name, 'class': kind, 'R': Rin.tolist(), 'itr': itr})
    return acc


# ---- part 3: lattice cost ------------------------------------------------------------------------------------------
def worker_latt(task):
    name, n, bitlist, weighted, dkinds, depth, max_perms, seeds = task
    spec = RW.ROUTINES[name]
    und = spec['kind'] == 'und'
    acc = Acc()
    for bits in bitlist:
        R0 = _graph(n, bits, und, weighted)
        if not RW.has_two_disjoint_edges(R0, und):
            continue
        if spec.get('conn') and not _connected(R0, und):
            continue
        for dk in dkinds:
            D = make_D(dk, n, bits)
            _explore(acc, name, R0, 1, depth, max_perms, D=D, tag='D-' + dk)
            for s in seeds:
                _check_one(acc, name, R0.copy(), 2, _seeded(s), None, D=D, tag='D-' + dk)
    return acc


def worker_latt_random(task):
    name, seed, count, nmax = task
    spec = RW.ROUTINES[name]
    und = spec['kind'] == 'und'
    r = np.random.RandomState(seed)
    acc = Acc()
    kinds = ['default', 'sym-int', 'sym-float'] + ([] if und else ['asym-int', 'asym-float'])
    for x in range(count):
        n = int(r.randint(5, nmax + 1))
        for _try in range(30):
            p = r.uniform(.2, .7)
            R0 = G.random_und(r, n, p=p, weights=[1., 2., 3., .5]) if und else G.random_dir(r, n, p=p, weights=[1., 2., 3., .5])
            if RW.has_two_disjoint_edges(R0, und) and (not spec.get('conn') or _connected(R0, und)):
                break
        else:
            continue
        dk = kinds[x % len(kinds)]
        D = make_D(dk, n, int(r.randint(2000)))
        _check_one(acc, name, R0.copy(), int(r.randint(1, 4)), _seeded(int(r.randint(1 << 30)), max_draws=40000), None, D=D, tag='random-D-' + dk)
    return acc


# ---- part 4: mask --------------------------------------------------------------------------------------------------
def make_masks(n, bits, which):
    """Symmetric masks: sparse, dense ('most cells'), signed/weighted values, everything but the graph's own cells."""
    out = []
    nu = G.n_und(n)
    h = (bits * 2654435761 + 12345) & 0xffffffff
    for w in which:
        if w == 'sparse':
            B = G.und_from_bits(n, (h >> 5) % nu & (h >> 11) % nu)
        elif w == 'medium':
            B = G.und_from_bits(n, (h >> 7) % nu)
        elif w == 'dense':
            B = G.und_from_bits(n, ((h >> 3) % nu) | ((h >> 13) % nu))
        elif w == 'all-but-one-pair':
            B = G.und_from_bits(n, (nu - 1) & ~(1 << (h % (n * (n - 1) // 2))))
        elif w == 'all-but-two-pairs':
            m = n * (n - 1) // 2
            B = G.und_from_bits(n, (nu - 1) & ~(1 << (h % m)) & ~(1 << ((h >> 9) % m)))
        elif w == 'signed-values':
            B = G.weight_by_position(G.und_from_bits(n, (h >> 9) % nu), palette=(1.0, -1.0, 2.5), symmetric=True)
        elif isinstance(w, int):
            B = G.und_from_bits(n, w)
        else:
            raise AssertionError(w)
        out.append((str(w), B))
    return out


def worker_mask(task):
    n, bitlist, weighted, which, depth, seeds = task
    acc = Acc()
    for bits in bitlist:
        R0 = _graph(n, bits, True, weighted)
        if not RW.has_two_disjoint_edges(R0, True):
            continue
        for lab, B in make_masks(n, bits, which):
            for budget in (1, 2):
                _explore(acc, MASKED, R0, budget, depth, 1, B=B, tag='mask-' + (lab if not lab.isdigit() else 'enumerated'), draw_cap=120)
            for s in seeds:
                _check_one(acc, MASKED, R0.copy(), 4, _seeded(s, max_draws=600), None, B=B, tag='mask-' + (lab if not lab.isdigit() else 'enumerated'))
    return acc


def worker_mask_random(task):
    seed, count, nmax = task
    r = np.random.RandomState(seed)
    acc = Acc()
    for x in range(count):
        n = int(r.randint(5, nmax + 1))
        for _try in range(30):
            R0 = G.random_und(r, n, p=r.uniform(.2, .7), weights=[1., 2., 3., .5] if x % 2 else None)
            if RW.has_two_disjoint_edges(R0, True):
                break
        else:
            continue
        B = G.random_und(r, n, p=[.2, .5, .85][x % 3])
        _check_one(acc, MASKED, R0.copy(), int(r.randint(1, 8)), _seeded(int(r.randint(1 << 30)), max_draws=3000), None, B=B, tag='mask-random')
    return acc


# ---- driver --------------------------------------------------------------------------------------------------------
def chunks(lst, k):
    k = max(1, k)
    return [lst[i::k] for i in range(k) if lst[i::k]]


def _connected_bits(n, und, candidates=None):
    cand = range(G.n_und(n) if und else G.n_dir(n)) if candidates is None else candidates
    if und:
        return [b for b in cand if G.is_connected_und(G.und_from_bits(n, b))]
    return [b for b in cand if G.is_strongly_connected(G.dir_from_bits(n, b))]


def run_bounded(run, tier, seed):
    thorough = tier == 'thorough'
    rs = np.random.RandomState(seed)
    jobs = []

    # ---------------- part 1: connectivity ----------------
    und4 = _connected_bits(4, True)                                   # 38
    und5 = _connected_bits(5, True)                                   # 728
    dir4 = _connected_bits(4, False)                                  # 1606
    n5 = und5 if thorough else sorted(rs.choice(und5, 96, replace=False).tolist())
    und6 = _connected_bits(6, True, sorted(rs.choice(G.n_und(6), 400, replace=False).tolist())) if thorough else []
    d4r = dir4 if thorough else sorted(rs.choice(dir4, 96, replace=False).tolist())
    d4l = dir4 if thorough else sorted(rs.choice(dir4, 48, replace=False).tolist())
    d_u4 = 4 if thorough else 3
    d_d4 = 2
    d4deep = dir4[::10] if thorough else []                            # depth 3 on every tenth strongly connected digraph
    tasks = []
    for name in UND_CONN:
        latt = name in LATT
        for weighted in (False, True):
            for ch in chunks(und4, 4):
                tasks.append((name, 4, ch, weighted, d_u4 + latt, 8 if thorough else 6, [seed + 1, seed + 2], 2))
        for ch in chunks(n5, 64 if thorough else 24):
            tasks.append((name, 5, ch, True, 3 + latt, 3, [seed + 3], 2))
        for ch in chunks(und6, 32):
            tasks.append((name, 6, ch, True, 3 + latt, 2, [seed + 3], 1))
    for name in DIR_CONN:
        latt = name in LATT
        for ch in chunks(d4l if latt else d4r, 64 if thorough else 24):
            tasks.append((name, 4, ch, True, d_d4 + latt, 2 if thorough else 4, [seed + 4], 2))
        for ch in chunks(d4deep, 40):
            tasks.append((name, 4, ch, True, 3 + latt, 2, [], 2))
    run.bounded_part(
        'connectivity-small-scope',
        bounds={'undirected (randmio_und_connected, latmio_und_connected)':
                    'all 38 connected labelled graphs n=4 (binary and weighted {1,2,3} by position); %s connected graphs n=5%s'
                    % ('all 728' if thorough else '96 sampled of the 728', ('; %d sampled connected graphs n=6' % len(und6)) if thorough else ''),
                'directed (randmio_dir_connected, latmio_dir_connected)':
                    '%s strongly connected labelled digraphs n=4 (1606 exist), weighted' % ('all' if thorough else '96 (randmio) / 48 (latmio) sampled')
                    + ('; depth 3 on every tenth of them' if thorough else ''),
                'scripts': 'every sequence of random choices up to depth %d (und n=4) / 3 (und n>=5) / %d (dir) draws, one more for the latticisers\' node ordering '
                           '(first %d orderings und n=4, 3 n=5, 2 n=6, %d dir); coin in {.25,.75}; then a seeded continuation' % (d_u4, d_d4, 8 if thorough else 6, 2 if thorough else 4),
                'budgets': 'itr = 1.5/k, 2.5/k (1 and 2 outer iterations) for randmio_*; itr = 1 (k outer iterations) for latmio_*; seeded runs with itr = 2',
                'clauses': 'CONN after every accepted swap (woven), CONN-output-connected end to end (own BFS / reachability closure), LATT per swap with the default D'},
        rule='one case = (routine, connected input graph, budget, choice script or seed); non-trivial = at least one accepted swap; distinct by (routine, graph bytes, budget, script)',
        exhaustive=False)
    jobs += [('connectivity-small-scope', 'worker_conn', t) for t in tasks]

    nmax = 10
    su = structured_und(seed, nmax, 3 if thorough else 1, 2 if thorough else 4)
    sd = structured_dir(seed, nmax, 3 if thorough else 1, 2 if thorough else 4)
    seeds = [seed + 10 + x for x in range(24 if thorough else 4)]
    tasks = []
    for name in UND_CONN:
        latt = name in LATT
        for ch in chunks(su, 48 if thorough else 24):
            tasks.append((name, ch, 3 + latt, 2, seeds, 4 if thorough else 2))
    for name in DIR_CONN:
        latt = name in LATT
        for ch in chunks(sd, 48 if thorough else 24):
            tasks.append((name, ch, 2 + latt, 2, seeds, 4 if thorough else 2))
    run.bounded_part(
        'connectivity-sparse-structured',
        bounds={'undirected': '%d graphs n=5..%d: rings, paths, two cliques joined by a bridge, seeded random trees plus 0..3 chords (relabelled), binary and weighted' % (len(su), nmax),
                'directed': '%d digraphs n=4..%d: directed cycles plus 0..3 chords, bidirected trees (plus one arc), two directed cycles joined by a two-way bridge, binary and weighted' % (len(sd), nmax),
                'scripts': 'every choice script to depth 3 (und) / 2 (dir) draws (+1 for the latticisers, 2 node orderings) with itr = 2.5/k (two outer iterations; latticisers itr = 1), seeded continuation; plus %d seeds with itr = %d' % (len(seeds), 4 if thorough else 2)},
        rule='one case = (routine, graph, budget, script or seed); non-trivial = at least one accepted swap; distinct by (routine, graph bytes, budget, script)',
        exhaustive=False)
    jobs += [('connectivity-sparse-structured', 'worker_struct', t) for t in tasks]

    # ---------------- part 2: rejection ----------------
    tasks = []
    nrej = 6 if thorough else 5
    ndis = 0
    for name in UND_CONN:
        for n in range(2, nrej + 1):
            cand = list(range(G.n_und(n))) if n <= 5 else sorted(rs.choice(G.n_und(6), 3000, replace=False).tolist())
            dis = [b for b in cand if not G.is_connected_und(G.und_from_bits(n, b))]
            ndis += len(dis)
            for ch in chunks(dis, 8):
                tasks.append((name, 'disconnected', n, ch))
        for n in (2, 3):
            tasks.append((name, 'asymmetric', n, list(range(1, G.n_dir(n)))))
        a4 = list(range(1, G.n_dir(4))) if thorough else sorted(rs.choice(G.n_dir(4), 400, replace=False).tolist())
        for ch in chunks(a4, 8):
            tasks.append((name, 'asymmetric', 4, ch))
    run.bounded_part(
        'input-rejection',
        bounds={'disconnected': 'every disconnected labelled undirected graph n=2..5%s (binary and weighted), incl. empty graphs and isolated nodes' % (' and sampled n=6' if thorough else ''),
                'asymmetric': 'every non-empty digraph n=2,3 and %s n=4: asymmetric support (binary and weighted), or symmetric support with weights 2 above / 1 below the diagonal' % ('every' if thorough else '400 sampled'),
                'routines': list(UND_CONN), 'itr': 1},
        rule='one case = (routine, rejected-class input); the call must raise bct.BCTParamError (returning, looping or any other exception is the violation); every case is non-trivial; distinct by (routine, class, matrix bytes)',
        exhaustive=False)
    jobs += [('input-rejection', 'worker_reject', t) for t in tasks]

    # ---------------- part 3: lattice cost ----------------
    tasks = []
    all4 = list(range(G.n_und(4)))
    u5 = sorted(rs.choice(G.n_und(5), 320 if thorough else 40, replace=False).tolist())
    d4 = sorted(rs.choice(G.n_dir(4), 800 if thorough else 64, replace=False).tolist())
    for name in LATT:
        und = RW.ROUTINES[name]['kind'] == 'und'
        if und:
            dk = ['default', 'sym-int', 'sym-float']
            for weighted in (False, True):
                for ch in chunks(all4, 4):
                    tasks.append((name, 4, ch, weighted, dk if (thorough or weighted) else ['default', 'sym-float'], 4, 8 if thorough else 3, [seed + 5]))
            for ch in chunks(u5, 64 if thorough else 10):
                tasks.append((name, 5, ch, True, dk if thorough else ['default', 'sym-float'], 4, 2, [seed + 6]))
        else:
            dk = ['default', 'sym-int', 'asym-int', 'asym-float'] if thorough else ['default', 'sym-int', 'asym-float']
            for ch in chunks(d4, 48 if thorough else 12):
                tasks.append((name, 4, ch, True, dk, 3, 2, [seed + 7]))
    run.bounded_part(
        'lattice-cost',
        bounds={'routines': list(LATT),
                'undirected': 'all 64 labelled graphs n=4 (binary, weighted), %s graphs n=5 (weighted); connected ones only for the _connected variant' % ('320 sampled' if thorough else '40 sampled'),
                'directed': '%s labelled digraphs n=4 (weighted); strongly connected ones only for the _connected variant' % ('800 sampled' if thorough else '64 sampled'),
                'D': 'default (built inside the routine; the monitor receives it), caller-supplied symmetric integer {0..3} and symmetric float D; for the directed routines also asymmetric D. '
                     'Asymmetric D on an undirected routine is outside the documented use (the routine mirrors each write, its test looks at one triangle) and is not generated.',
                'scripts': 'every choice script to depth 4 (und: node ordering, two edges, coin) / 3 (dir) with itr = 1 (node orderings: first %d n=4 und, 2 otherwise), then seeded continuation; 1 seed with itr = 2' % (8 if thorough else 3),
                'clauses': 'LATT per accepted swap (woven; D in use), LATT-end-to-end-cost: sum(D*Rrp) <= sum(D*R[ix_(ind_rp, ind_rp)]) with D = the matrix in use as the woven monitor received it (observed equal to the caller\'s D when one is supplied, and to the wrap-around distance to the diagonal by default)'},
        rule='one case = (routine, graph, D, script or seed); non-trivial = at least one accepted swap; distinct by (routine, graph bytes, D bytes, script)',
        exhaustive=False)
    jobs += [('lattice-cost', 'worker_latt', t) for t in tasks]
    run.bounded_part('lattice-cost-random', bounds={'n': '5..%d' % (12 if thorough else 9), 'cases_per_routine': 160 if thorough else 48,
                                                    'D': 'default / symmetric int / symmetric float (und); also asymmetric (dir)', 'itr': '1..3'},
                     rule='seeded random (connected where required) weighted graphs; non-trivial = at least one accepted swap', exhaustive=False)
    jobs += [('lattice-cost-random', 'worker_latt_random', (name, seed * 977 + 31 * x + hash_name(name), 40 if thorough else 24, 12 if thorough else 9))
             for name in LATT for x in range(4 if thorough else 2)]

    # ---------------- part 4: mask ----------------
    tasks = []
    kinds = ['sparse', 'medium', 'dense', 'all-but-two-pairs', 'signed-values']
    if thorough:
        for ch in chunks(all4, 16):
            tasks.append((4, ch, False, list(range(G.n_und(4))), 3, []))
        for ch in chunks(all4, 16):
            tasks.append((4, ch, True, kinds, 4, [seed + 8, seed + 9]))
        for ch in chunks(sorted(rs.choice(G.n_und(5), 320, replace=False).tolist()), 64):
            tasks.append((5, ch, True, kinds, 3, [seed + 8]))
    else:
        for ch in chunks(all4, 8):
            tasks.append((4, ch, False, ['sparse', 'dense', 'all-but-one-pair'], 3, [seed + 8, seed + 9]))
            tasks.append((4, ch, True, ['medium', 'all-but-two-pairs', 'signed-values'], 3, [seed + 8, seed + 9]))
        for ch in chunks(sorted(rs.choice(G.n_und(5), 64, replace=False).tolist()), 16):
            tasks.append((5, ch, True, ['medium', 'dense', 'signed-values'], 3, [seed + 8]))
    run.bounded_part(
        'mask',
        bounds={'routine': MASKED,
                'graphs': 'all 64 labelled undirected graphs n=4 (binary, weighted), %s n=5 (weighted)' % ('320 sampled' if thorough else '64 sampled'),
                'masks': ('every symmetric 0/1 mask n=4 (64) on the binary graphs; ' if thorough else '') +
                         ('per graph: sparse, medium, dense, all cells but two pairs, mask with values {1,-1,2.5}' if thorough else 'per graph three of: sparse, medium, dense, all cells but one pair, all cells but two pairs, mask with values {1,-1,2.5}') + '; all symmetric',
                'scripts': 'every choice script to depth %s draws for maxswap = 1, 2, then seeded continuation; seeded runs with maxswap = 4' % ('3 (4 on the weighted n=4 set)' if thorough else '3'),
                'non-termination': 'the routine loops for ever when no admissible swap exists; runs that exceed 120 (scripts) / 600 (seeds) draws are skipped (counted as evaluations, never as non-trivial)'},
        rule='one case = (graph, mask, maxswap, script or seed); non-trivial = at least one accepted swap under a mask with a nonzero cell; distinct by (graph bytes, mask bytes, maxswap, script)',
        exhaustive=False)
    jobs += [('mask', 'worker_mask', t) for t in tasks]
    run.bounded_part('mask-random', bounds={'n': '5..%d' % (12 if thorough else 9), 'cases': 480 if thorough else 160, 'mask density': [.2, .5, .85], 'maxswap': '1..7'},
                     rule='seeded random graphs and symmetric masks; non-trivial = accepted swap under a nonzero mask', exhaustive=False)
    jobs += [('mask-random', 'worker_mask_random', (seed * 131 + x, 30 if thorough else 20, 12 if thorough else 9)) for x in range(16 if thorough else 8)]

    # one pool for all parts (no barrier between parts); results are merged into their parts in task order
    accs = pmap(_dispatch, [(w, t) for _, w, t in jobs])
    for (part, _, _), a in zip(jobs, accs):
        merge_all(run, part, [a])


def _dispatch(job):
    w, t = job
    return globals()[w](t)


def hash_name(name):
    return sum(ord(c) for c in name)
