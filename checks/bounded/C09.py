"""C09 bounded stand-in: clustering coefficients and transitivity against their published definitions, evaluated by
direct enumeration of node triples (pure Python loops, no matrix products), on exhaustively enumerated small graphs.

Definitions used by the oracles (i is the node, (j, h) runs over ORDERED pairs of distinct nodes, both different from i):

  binary undirected (Watts & Strogatz)   C_i = #{(j,h): a_ij, a_ih, a_jh all present} / (k_i (k_i - 1))
  binary directed (Fagiolo 2007)         t_i = 1/2 sum_(j,h) (a_ij + a_ji)(a_ih + a_hi)(a_jh + a_hj)
                                         C_i = t_i / (ktot_i (ktot_i - 1) - 2 kbi_i),  kbi_i = #{j: a_ij and a_ji}
  weighted undirected (Onnela 2005)      C_i = sum_(j,h) (w_ij w_ih w_jh)^(1/3) / (k_i (k_i - 1)),   k_i = #{j: w_ij != 0}
  weighted directed (Fagiolo 2007)       t_i = 1/2 sum_(j,h) (w_ij^1/3 + w_ji^1/3)(w_ih^1/3 + w_hi^1/3)(w_jh^1/3 + w_hj^1/3)
                                         same denominator as the binary directed form (on the adjacency pattern)
  wu_sign 'default'                      Onnela on W+ = max(W, 0) and on W- = max(-W, 0) separately
  wu_sign 'zhang' (Zhang & Horvath 2005) C_i = sum_(j,h) w_ij w_ih w_jh / sum_(j,h) w_ij w_ih   on W+ and on W- separately
  wu_sign 'costantini' (C. & Perugini)   C_i = sum_(j,h) w_ij w_ih w_jh / sum_(j,h) |w_ij w_ih|  (signed, one vector)
  transitivity_*                         (sum_i numerator_i) / (sum_i denominator_i)   -- ratio of TOTALS, no per-node masking

A node with fewer than two neighbours or with no triangle gets exactly 0.0.  Transitivity of a graph with no connected triple
(total denominator 0) is undefined: those graphs are skipped for transitivity_* (and only for these).
"""
import numpy as np
import bct
from engine import graphs as G
from engine.par import pmap, Acc, merge_all

RTOL, ATOL, RANGE_TOL = 1e-9, 1e-12, 1e-12
THIRD = 1.0 / 3.0


# ---------------------------------------------------------------------------------------------------------------------
# oracles: direct enumeration of node triples on nested python lists
# ---------------------------------------------------------------------------------------------------------------------
def _cbrt(x):
    return x ** THIRD if x >= 0 else -((-x) ** THIRD)


def oracle_bu(a):
    """-> (C, num, den, tri) per node; num = ordered connected neighbour pairs, den = k(k-1)."""
    n = len(a)
    C, num, den, tri = [0.0] * n, [0.0] * n, [0.0] * n, [False] * n
    for i in range(n):
        k = sum(1 for j in range(n) if j != i and a[i][j] != 0)
        t = 0
        for j in range(n):
            if j == i or a[i][j] == 0:
                continue
            for h in range(n):
                if h == i or h == j or a[i][h] == 0:
                    continue
                if a[j][h] != 0:
                    t += 1
        num[i], den[i], tri[i] = float(t), float(k * (k - 1)), t > 0
        C[i] = t / (k * (k - 1)) if (k >= 2 and t > 0) else 0.0
    return C, num, den, tri


def oracle_wu(w):
    """Onnela. -> (C, num, den, tri)."""
    n = len(w)
    C, num, den, tri = [0.0] * n, [0.0] * n, [0.0] * n, [False] * n
    for i in range(n):
        k = sum(1 for j in range(n) if j != i and w[i][j] != 0)
        t, has = 0.0, False
        for j in range(n):
            if j == i or w[i][j] == 0:
                continue
            for h in range(n):
                if h == i or h == j or w[i][h] == 0 or w[j][h] == 0:
                    continue
                has = True
                t += _cbrt(w[i][j] * w[i][h] * w[j][h])
        num[i], den[i], tri[i] = t, float(k * (k - 1)), has
        C[i] = t / (k * (k - 1)) if (k >= 2 and has) else 0.0
    return C, num, den, tri


def oracle_dir(w, weighted):
    """Fagiolo, binary (weighted=False: entries taken as present/absent) or weighted with cube roots. -> (C, num, den, tri)."""
    n = len(w)
    a = [[1 if (w[i][j] != 0 and i != j) else 0 for j in range(n)] for i in range(n)]
    if weighted:
        s = [[(_cbrt(w[i][j]) + _cbrt(w[j][i])) if i != j else 0.0 for j in range(n)] for i in range(n)]
    else:
        s = [[float(a[i][j] + a[j][i]) for j in range(n)] for i in range(n)]
    C, num, den, tri = [0.0] * n, [0.0] * n, [0.0] * n, [False] * n
    for i in range(n):
        ktot = sum(a[i][j] + a[j][i] for j in range(n) if j != i)
        kbi = sum(1 for j in range(n) if j != i and a[i][j] and a[j][i])
        t, has = 0.0, False
        for j in range(n):
            if j == i or not (a[i][j] or a[j][i]):
                continue
            for h in range(n):
                if h == i or h == j or not (a[i][h] or a[h][i]) or not (a[j][h] or a[h][j]):
                    continue
                has = True
                t += s[i][j] * s[i][h] * s[j][h]
        t /= 2.0
        d = float(ktot * (ktot - 1) - 2 * kbi)
        num[i], den[i], tri[i] = t, d, has
        C[i] = t / d if has else 0.0
    return C, num, den, tri


def oracle_zhang(w):
    """Zhang & Horvath on a non-negative symmetric matrix. -> (C, tri)."""
    n = len(w)
    C, tri = [0.0] * n, [False] * n
    for i in range(n):
        t3, t2, has = 0.0, 0.0, False
        for j in range(n):
            if j == i:
                continue
            for h in range(n):
                if h == i or h == j:
                    continue
                t2 += w[i][j] * w[i][h]
                p = w[i][j] * w[i][h] * w[j][h]
                if w[i][j] != 0 and w[i][h] != 0 and w[j][h] != 0:
                    has = True
                t3 += p
        tri[i] = has
        C[i] = t3 / t2 if (has and t2 != 0 and t3 != 0) else 0.0
    return C, tri


def oracle_costantini(w):
    """Costantini & Perugini on a signed symmetric matrix. -> (C, tri)."""
    n = len(w)
    C, tri = [0.0] * n, [False] * n
    for i in range(n):
        t3, t2, has = 0.0, 0.0, False
        for j in range(n):
            if j == i:
                continue
            for h in range(n):
                if h == i or h == j:
                    continue
                t2 += abs(w[i][j] * w[i][h])
                if w[i][j] != 0 and w[i][h] != 0 and w[j][h] != 0:
                    has = True
                t3 += w[i][j] * w[i][h] * w[j][h]
        tri[i] = has
        C[i] = t3 / t2 if (has and t2 != 0 and t3 != 0) else 0.0
    return C, tri


def _pos(w):
    return [[x if x > 0 else 0.0 for x in r] for r in w]


def _neg(w):
    return [[-x if x < 0 else 0.0 for x in r] for r in w]


# ---------------------------------------------------------------------------------------------------------------------
# comparison of one function on one matrix
# ---------------------------------------------------------------------------------------------------------------------
def _wit(fname, W, **kw):
    d = {'function': fname, 'W': W.tolist()}
    d.update(kw)
    return d


def _call(acc, fname, W, *args, **kw):
    """Returns (ok, result). BCTParamError -> skipped; any other exception -> RAISES violation."""
    try:
        with np.errstate(all='ignore'):
            return True, getattr(bct, fname)(W.copy(), *args, **kw)
    except bct.BCTParamError:
        return False, None
    except Exception as e:
        acc.violate('%s/RAISES-%s' % (fname, type(e).__name__), 'in-domain input raised %r' % (e,), _wit(fname, W, args=list(args), kwargs=kw))
        return False, None


def _check_vector(acc, fname, W, got, want, tri, rng01, suffix='', extra=None):
    """got: vector returned by the library; want/tri: oracle value and has-triangle flag per node."""
    n = len(W)
    wit = _wit(fname, W, **(extra or {}))
    got = np.asarray(got, dtype=float)
    if got.shape != (n,):
        acc.violate('%s/POST-shape%s' % (fname, suffix), 'result has shape %r, expected (%d,)' % (got.shape, n), wit)
        return
    wit = dict(wit, returned=got.tolist(), definition=list(want))
    for i in range(n):
        if not tri[i] and not (got[i] == 0.0):
            acc.violate('%s/POST-zero-without-triangle%s' % (fname, suffix),
                        'node %d has fewer than two neighbours or no triangle but gets %r, not exactly 0.0' % (i, got[i]), wit)
            break
    if not np.allclose(got, want, rtol=RTOL, atol=ATOL, equal_nan=False):
        acc.violate('%s/POST-equals-triple-enumeration%s' % (fname, suffix),
                    'returned vector differs from the definition evaluated over node triples', wit)
    if rng01 is not None:
        lo, hi = rng01
        if not np.all((got >= lo - RANGE_TOL) & (got <= hi + RANGE_TOL)):
            acc.violate('%s/POST-range-0-1%s' % (fname, suffix), 'value outside [%g,%g] for weights in [0,1]' % (lo, hi), wit)


def _check_scalar(acc, fname, W, got, num, den):
    """Transitivity: ratio of totals. Returns False when the case is skipped (no connected triple)."""
    D = float(sum(den))
    if D == 0:
        return False
    want = float(sum(num)) / D
    try:
        g = float(got)
    except Exception:
        acc.violate('%s/POST-scalar' % fname, 'result %r is not a scalar' % (got,), _wit(fname, W))
        return True
    wit = _wit(fname, W, returned=g, definition=want, total_numerator=float(sum(num)), total_denominator=D)
    if not np.allclose(g, want, rtol=RTOL, atol=ATOL, equal_nan=False):
        acc.violate('%s/POST-equals-ratio-of-totals' % fname,
                    'transitivity differs from (sum of per-node triangle terms)/(sum of per-node triple counts)', wit)
    if not (-RANGE_TOL <= g <= 1 + RANGE_TOL):
        acc.violate('%s/POST-range-0-1' % fname, 'value outside [0,1] for weights in [0,1]', wit)
    return True


def _is_sym(W):
    return bool(np.array_equal(W, W.T))


def check_matrix(acc, W, tag, signed=False, sign_types=('default', 'zhang', 'costantini')):
    """Run every function whose documented domain contains W.  tag: small hashable identifying W (for case keys).
    signed: W has negative entries (only wu_sign is in domain then).  The binary (_bu/_bd) functions run when W is 0/1."""
    w = W.tolist()
    binary = bool(np.all((W == 0) | (W == 1)))
    sym = _is_sym(W)
    sample = {'W': w}

    def case(fname, nontrivial, skipped=False):
        if not skipped:
            acc.case(key=(fname, tag), nontrivial=nontrivial, sample=dict(sample, function=fname))

    if not signed:
        # ---- directed family (an undirected graph is a symmetric directed graph) ----------------------------------
        Cd, numd, dend, trid = oracle_dir(w, weighted=True)
        ok, got = _call(acc, 'clustering_coef_wd', W)
        if ok:
            _check_vector(acc, 'clustering_coef_wd', W, got, Cd, trid, (0, 1))
            case('clustering_coef_wd', any(trid))
        ok, got = _call(acc, 'transitivity_wd', W)
        if ok:
            case('transitivity_wd', any(trid), skipped=not _check_scalar(acc, 'transitivity_wd', W, got, numd, dend))
        if binary:
            Cb, numb, denb, trib = oracle_dir(w, weighted=False)
            ok, got = _call(acc, 'clustering_coef_bd', W)
            if ok:
                _check_vector(acc, 'clustering_coef_bd', W, got, Cb, trib, (0, 1))
                case('clustering_coef_bd', any(trib))
            ok, got = _call(acc, 'transitivity_bd', W)
            if ok:
                case('transitivity_bd', any(trib), skipped=not _check_scalar(acc, 'transitivity_bd', W, got, numb, denb))
        # ---- undirected family ------------------------------------------------------------------------------------
        if sym:
            Cu, numu, denu, triu = oracle_wu(w)
            ok, got = _call(acc, 'clustering_coef_wu', W)
            if ok:
                _check_vector(acc, 'clustering_coef_wu', W, got, Cu, triu, (0, 1))
                case('clustering_coef_wu', any(triu))
            ok, got = _call(acc, 'transitivity_wu', W)
            if ok:
                case('transitivity_wu', any(triu), skipped=not _check_scalar(acc, 'transitivity_wu', W, got, numu, denu))
            if binary:
                Cb, numb, denb, trib = oracle_bu(w)
                ok, got = _call(acc, 'clustering_coef_bu', W)
                if ok:
                    _check_vector(acc, 'clustering_coef_bu', W, got, Cb, trib, (0, 1))
                    case('clustering_coef_bu', any(trib))
                ok, got = _call(acc, 'transitivity_bu', W)
                if ok:
                    case('transitivity_bu', any(trib), skipped=not _check_scalar(acc, 'transitivity_bu', W, got, numb, denb))
    # ---- signed undirected ------------------------------------------------------------------------------------------
    if sym:
        wp, wn = _pos(w), _neg(w)
        for ct in sign_types:
            ok, got = _call(acc, 'clustering_coef_wu_sign', W, coef_type=ct)
            if not ok:
                continue
            fname, extra = 'clustering_coef_wu_sign', {'coef_type': ct}
            if ct == 'costantini':
                Cc, tric = oracle_costantini(w)
                if isinstance(got, tuple):
                    acc.violate('%s/POST-shape/%s' % (fname, ct), 'costantini variant is documented to return one vector', _wit(fname, W, **extra))
                    continue
                _check_vector(acc, fname, W, got, Cc, tric, None if signed else (0, 1), suffix='/' + ct, extra=extra)
                nt = any(tric)
            else:
                if not (isinstance(got, tuple) and len(got) == 2):
                    acc.violate('%s/POST-shape/%s' % (fname, ct), 'expected the pair (C_pos, C_neg)', _wit(fname, W, **extra))
                    continue
                if ct == 'default':
                    Cp, _, _, trp = oracle_wu(wp)
                    Cn, _, _, trn = oracle_wu(wn)
                else:
                    Cp, trp = oracle_zhang(wp)
                    Cn, trn = oracle_zhang(wn)
                _check_vector(acc, fname, W, got[0], Cp, trp, (0, 1), suffix='/%s-pos' % ct, extra=extra)
                _check_vector(acc, fname, W, got[1], Cn, trn, (0, 1), suffix='/%s-neg' % ct, extra=extra)
                nt = any(trp) or any(trn)
            acc.case(key=(fname, ct, tag), nontrivial=nt, sample=dict(sample, function=fname, coef_type=ct))


# ---------------------------------------------------------------------------------------------------------------------
# input families
# ---------------------------------------------------------------------------------------------------------------------
PALETTES = ((0.2, 0.5, 1.0), (1.0, 0.3, 0.7, 0.05))


def _weight(A, pal, symmetric, shift=0):
    """Position-dependent weights in (0,1] from a palette (engine.graphs.weight_by_position with a rotated palette)."""
    p = tuple(pal[(k + shift) % len(pal)] for k in range(len(pal)))
    return G.weight_by_position(A, palette=p, symmetric=symmetric)


def worker_und(task):
    """All 0/1 undirected graphs in a bit range: binary functions, then two position-weighted copies."""
    n, lo, hi = task
    acc = Acc()
    for bits in range(lo, hi):
        A = G.und_from_bits(n, bits)
        check_matrix(acc, A, ('u', n, bits, 0), sign_types=('default',))
        if bits:
            for pi, pal in enumerate(PALETTES):
                W = _weight(A, pal, True, shift=bits % 3)
                check_matrix(acc, W, ('u', n, bits, 1 + pi))
    return acc


def worker_dir(task):
    """All 0/1 directed graphs in a bit range: bd/wd and transitivity_bd/wd, then two asymmetric position-weighted copies."""
    n, lo, hi = task
    acc = Acc()
    for bits in range(lo, hi):
        A = G.dir_from_bits(n, bits)
        check_matrix(acc, A, ('d', n, bits, 0), sign_types=('default',))
        if bits:
            for pi, pal in enumerate(PALETTES):
                W = _weight(A, pal, False, shift=bits % 3)
                check_matrix(acc, W, ('d', n, bits, 1 + pi))
    return acc


def _nth_product(values, m, idx):
    out = []
    for _ in range(m):
        out.append(values[idx % len(values)])
        idx //= len(values)
    return out


def worker_allw(task):
    """All matrices with entries from a value set (und: symmetric; dir: any), index range [lo,hi) of the product."""
    kind, n, values, lo, hi = task
    acc = Acc()
    pr = G.und_pairs(n) if kind != 'd' else G.dir_pairs(n)
    signed = min(values) < 0
    for idx in range(lo, hi):
        vs = _nth_product(values, len(pr), idx)
        W = np.zeros((n, n))
        for (i, j), v in zip(pr, vs):
            W[i, j] = v
            if kind != 'd':
                W[j, i] = v
        neg = bool((W < 0).any())
        check_matrix(acc, W, (kind, n, values, idx), signed=neg)
    return acc


def _tree(rng, n):
    A = np.zeros((n, n))
    for v in range(1, n):
        u = rng.randint(0, v)
        A[u, v] = A[v, u] = 1
    return A


def _bipartite(rng, n, p):
    side = rng.randint(0, 2, n)
    A = np.zeros((n, n))
    for i in range(n):
        for j in range(i + 1, n):
            if side[i] != side[j] and rng.random_sample() < p:
                A[i, j] = A[j, i] = 1
    return A


def worker_random(task):
    seed, count, nmin, nmax = task
    rng = np.random.RandomState(seed)
    acc = Acc()
    for c in range(count):
        n = int(rng.randint(nmin, nmax + 1))
        fam = c % 8
        p = float(rng.choice([.15, .3, .5, .7, .9]))
        signed = False
        if fam == 0:       # binary undirected
            W = G.random_und(rng, n, p)
        elif fam == 1:     # binary directed
            W = G.random_dir(rng, n, p)
        elif fam == 2:     # weighted undirected, continuous weights in (0,1]
            A = G.random_und(rng, n, p)
            U = np.triu(1.0 - rng.random_sample((n, n)), 1)
            W = A * (U + U.T)
        elif fam == 3:     # weighted directed, continuous weights in (0,1]
            W = G.random_dir(rng, n, p) * (1.0 - rng.random_sample((n, n)))
        elif fam == 4:     # signed undirected
            A = G.random_und(rng, n, p)
            U = np.triu(rng.uniform(-1, 1, (n, n)), 1)
            W = A * (U + U.T)
            signed = bool((W < 0).any())
        elif fam == 5:     # triangle-free: tree or bipartite, palette weights
            A = _tree(rng, n) if rng.random_sample() < .5 else _bipartite(rng, n, p)
            W = _weight(A, PALETTES[c % 2], True) if rng.random_sample() < .5 else A
        elif fam == 6:     # orientation of a triangle-free graph, with some reciprocal edges
            A = _tree(rng, n) if rng.random_sample() < .5 else _bipartite(rng, n, p)
            M = rng.randint(0, 3, (n, n))
            M = np.triu(M, 1)
            D = np.zeros((n, n))
            for i in range(n):
                for j in range(i + 1, n):
                    if A[i, j]:
                        if M[i, j] in (0, 2):
                            D[i, j] = 1
                        if M[i, j] in (1, 2):
                            D[j, i] = 1
            W = D * (1.0 - rng.random_sample((n, n))) if rng.random_sample() < .5 else D
        else:              # weighted undirected, palette weights incl. exact 1.0
            W = G.random_und(rng, n, p, weights=[.2, .5, 1.0, 1.0])
        if rng.random_sample() < .4:     # isolate one or two nodes
            for v in rng.choice(n, size=int(rng.randint(1, 3)), replace=False):
                W[v, :] = 0
                W[:, v] = 0
        check_matrix(acc, W, ('r', seed, c), signed=signed)
    return acc


def worker_named(task):
    acc = Acc()
    for name, A in sorted(G.named_graphs().items()):
        check_matrix(acc, A, ('named', name, 0))
        check_matrix(acc, _weight(A, PALETTES[0], True), ('named', name, 1))
        # with an isolated node appended
        n = len(A)
        B = np.zeros((n + 1, n + 1))
        B[:n, :n] = A
        check_matrix(acc, B, ('named', name, 2))
        # an arbitrary orientation (upper triangle) -> no directed 3-cycle needed: Fagiolo counts all 8 triangle types
        check_matrix(acc, np.triu(A), ('named', name, 3), sign_types=())
    return acc


def _chunks(total, size):
    return [(lo, min(total, lo + size)) for lo in range(0, total, size)]


def run_bounded(run, tier, seed):
    thorough = tier == 'thorough'
    n_und = 6 if thorough else 5
    n_dir = 4          # 4096 digraphs: cheap enough for the quick tier as well
    rule_common = ('one case = one (function[, coef_type], matrix) evaluation compared per node with the triple-enumeration oracle '
                   '(allclose rtol 1e-9 atol 1e-12), exact 0.0 at nodes without a triangle, range [0,1]; non-trivial = the matrix '
                   'has at least one triangle through some node (per-node coefficient not masked to 0 everywhere); keyed by (function, matrix id); '
                   'transitivity_* skipped (not counted) when the graph has no connected triple (definition 0/0)')

    # ---- part 1: exhaustive binary graphs and their position-weighted copies ------------------------------------
    part = 'exhaustive-binary-and-position-weighted'
    run.bounded_part(part, bounds={
        'undirected': 'all labelled 0/1 symmetric matrices, 1 <= n <= %d: clustering_coef_bu/wu/bd/wd, transitivity_bu/wu/bd/wd, '
                      'clustering_coef_wu_sign(default)' % n_und,
        'directed': 'all labelled 0/1 matrices with empty diagonal, 1 <= n <= %d: clustering_coef_bd/wd, transitivity_bd/wd' % n_dir,
        'weighted copies': 'every non-empty graph above re-weighted by position with palettes %r (rotated by bits %% 3), symmetric for '
                           'undirected / asymmetric for directed: wu, wd, transitivity_wu/wd, wu_sign default/zhang/costantini (undirected), '
                           'wd, transitivity_wd (directed)' % (PALETTES,),
        'includes': 'empty graph, isolated nodes, all triangle-free graphs of these sizes',
        'transitivity': 'graphs with no connected triple skipped for transitivity_* (denominator 0, undefined)'},
        rule=rule_common, exhaustive=True)
    tasks = []
    for n in range(1, n_und + 1):
        tasks += [('u', n, lo, hi) for lo, hi in _chunks(G.n_und(n), 64)]
    for n in range(1, n_dir + 1):
        tasks += [('d', n, lo, hi) for lo, hi in _chunks(G.n_dir(n), 64)]
    accs = pmap(_dispatch, tasks)
    merge_all(run, part, accs)

    # ---- part 2: all matrices over small value sets (weighted and signed) -----------------------------------------
    part = 'exhaustive-small-value-sets'
    if thorough:
        sets = [('u', 4, (0.0, 0.2, 0.5, 1.0)), ('u', 5, (0.0, 0.5, 1.0)), ('d', 3, (0.0, 0.2, 0.5, 1.0)),
                ('s', 3, (-1.0, -0.3, 0.0, 0.5, 1.0)), ('s', 4, (-1.0, -0.3, 0.0, 0.5, 1.0)), ('s', 5, (-0.5, 0.0, 1.0))]
    else:
        sets = [('u', 4, (0.0, 0.2, 0.5, 1.0)), ('d', 3, (0.0, 0.2, 0.5, 1.0)),
                ('s', 3, (-1.0, -0.3, 0.0, 0.5, 1.0)), ('s', 4, (-1.0, -0.3, 0.0, 0.5, 1.0))]
    run.bounded_part(part, bounds={
        'sets': ['%s n=%d entries from %r (%d matrices)' % ({'u': 'symmetric weighted', 'd': 'directed weighted', 's': 'symmetric signed'}[k], n, v,
                                                            len(v) ** (n * (n - 1) // (1 if k == 'd' else 2))) for k, n, v in sets],
        'functions': 'non-negative symmetric: wu, wd, transitivity_wu/wd (+bu/bd forms when 0/1), wu_sign x3; directed: wd, transitivity_wd '
                     '(+bd forms when 0/1); matrices with a negative entry: clustering_coef_wu_sign default/zhang/costantini only'},
        rule=rule_common, exhaustive=True)
    tasks = []
    for k, n, v in sets:
        total = len(v) ** (n * (n - 1) // (1 if k == 'd' else 2))
        tasks += [('w', k, n, v, lo, hi) for lo, hi in _chunks(total, 400)]
    accs = pmap(_dispatch, tasks)
    merge_all(run, part, accs)

    # ---- part 3: random and named graphs ----------------------------------------------------------------------------
    part = 'random-and-named'
    nrand = 640 if thorough else 96
    per = 40 if thorough else 25
    run.bounded_part(part, bounds={
        'random': '%d seeds x %d matrices, 6 <= n <= 9, eight families in rotation: binary und, binary dir, continuous weights in (0,1] und / dir, '
                  'signed und in [-1,1], triangle-free (random tree or bipartite) und, oriented triangle-free with reciprocal edges, palette '
                  'weights {.2,.5,1}; density from {.15,.3,.5,.7,.9}; with probability .4 one or two nodes isolated; seed base = VERIF_SEED' % (nrand, per),
        'named': 'engine.graphs.named_graphs() (cycles C3..C8, K33, K4, K5, Petersen, 2xK3, star, cube): binary, position-weighted, with an '
                 'isolated node appended, and the upper-triangle orientation'},
        rule=rule_common, exhaustive=False)
    tasks = [('r', seed * 100003 + 17 * s + 1, per, 6, 9) for s in range(nrand)] + [('named',)]
    accs = pmap(_dispatch, tasks)
    merge_all(run, part, accs)


def _dispatch(task):
    kind = task[0]
    if kind == 'u':
        return worker_und(task[1:])
    if kind == 'd':
        return worker_dir(task[1:])
    if kind == 'w':
        return worker_allw(task[1:])
    if kind == 'r':
        return worker_random(task[1:])
    return worker_named(task[1:])
