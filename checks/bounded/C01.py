"""C01 bounded stand-in: rewiring contracts executed on the real routines over exhaustively enumerated small scopes."""
import numpy as np
import bct
from engine import graphs as G
from engine.par import pmap, Acc, merge_all
from engine.srng import Scripted, explore, ScriptExhausted, DrawLimit
from checks.bounded import rewire as RW

C01_CLAUSES_MON = ('I1', 'I2I3', 'SYM', 'I4', 'D-', 'W-')


def _graph(n, bits, und, weighted):
    A = G.und_from_bits(n, bits) if und else G.dir_from_bits(n, bits)
    if weighted:
        A = G.weight_by_position(A, symmetric=und)
    return A


def _check_one(acc, name, R, budget, rng, script, D=None, B=None):
    spec = RW.ROUTINES[name]
    und = spec['kind'] == 'und'
    Rin = R.copy()
    try:
        res, mon = RW.call(name, R, budget, rng, D=D, B=B)
    except ScriptExhausted:
        raise
    except (bct.BCTParamError, DrawLimit):
        acc.case()
        return
    except Exception as e:
        acc.case()
        acc.violate('%s/RAISES-%s' % (name, type(e).__name__), 'in-domain input raised %r instead of returning a network' % (e,),
                    {'function': name, 'R': Rin.tolist(), 'budget': budget, 'script': list(script) if script is not None else None})
        return
    wit = {'function': name, 'R': Rin.tolist(), 'budget': budget, 'script': list(script) if script is not None else None,
           'draws': [list(map(_j, l)) for l in rng.log[:40]] if isinstance(rng, Scripted) else None}
    if not np.array_equal(R, Rin):
        acc.violate('%s/FRAME-argument-unchanged' % name, 'the caller\'s matrix was modified', wit)
    fails = [(c, d) for c, d in mon.fail if c.startswith(C01_CLAUSES_MON)] + RW.post_c01(name, Rin, res, budget, mon)
    for clause, detail in fails:
        acc.violate('%s/%s' % (name, clause), detail, wit)
    acc.case(key=(name, Rin.tobytes(), tuple(script) if script is not None else None), nontrivial=mon.changes > 0,
             sample={'function': name, 'R': Rin.tolist(), 'budget': budget, 'script': list(script) if script is not None else 'seeded',
                     'accepted_swaps': mon.changes})


def _j(x):
    return list(x) if isinstance(x, tuple) else x


def _options(max_perms):
    from engine.srng import default_options
    return lambda kind, arg: default_options(kind, arg, max_perms=max_perms)


def worker(task):
    name, n, bitlist, weighted, depth, max_perms, seeds = task
    spec = RW.ROUTINES[name]
    und = spec['kind'] == 'und'
    acc = Acc()
    for bits in bitlist:
        R0 = _graph(n, bits, und, weighted)
        k = int(np.count_nonzero(R0)) // (2 if und else 1)
        feasible = RW.has_two_disjoint_edges(R0, und)
        if spec.get('conn') and und and not G.is_connected_und(R0):
            feasible = False     # rejected input; rejection itself is a C11 clause
        B = None
        if spec.get('mask'):
            B = G.und_from_bits(n, (bits * 2654435761 >> 7) % G.n_und(n))
        # budget 0: identity clause (any graph)
        if spec.get('mask'):
            _check_one(acc, name, R0.copy(), 0, Scripted((), fallback_seed=1), (), B=B)
        elif not spec.get('conn') or (G.is_connected_und(R0) if und else True):
            try:
                _check_one(acc, name, R0.copy(), 0, Scripted((), fallback_seed=1), ())
            except Exception as e:
                if not isinstance(e, (ValueError, ZeroDivisionError)):
                    raise
        if not feasible:
            continue
        # budgets that give exactly 1 and 2 outer iterations
        if spec.get('mask'):
            budgets = [1, 2]
        elif spec.get('latt'):
            budgets = [1]            # range(itr*k): k iterations
        else:
            budgets = [1.5 / k, 2.5 / k]

        def runner(budget):
            def run(rng):
                a = Acc()
                _check_one(a, name, R0.copy(), budget, rng, tuple(rng.script), B=B)
                return a
            return run
        for budget in budgets:
            for script, a in explore(runner(budget), depth, options=_options(max_perms), fallback_seed=7, draw_cap=150):
                acc.evaluations += a.evaluations
                acc.nontrivial |= a.nontrivial
                for s in a.samples:
                    if len(acc.samples) < 2:
                        acc.samples.append(s)
                for v in a.violations:
                    acc.violate(*v)
        for s in seeds:
            _check_one(acc, name, R0.copy(), budgets[-1] * 2, Scripted((), fallback_seed=s, max_draws=3000), None, B=B)
    return acc


def worker_random(task):
    name, seed, count, nmax = task
    spec = RW.ROUTINES[name]
    und = spec['kind'] == 'und'
    rng = np.random.RandomState(seed)
    acc = Acc()
    for _ in range(count):
        n = rng.randint(5, nmax + 1)
        for _try in range(20):
            R0 = G.random_und(rng, n, p=rng.uniform(.2, .8), weights=[1., 2., 3., .5]) if und else G.random_dir(rng, n, p=rng.uniform(.2, .7), weights=[1., 2., 3., .5])
            if RW.has_two_disjoint_edges(R0, und) and (not spec.get('conn') or (G.is_connected_und(R0) if und else G.is_strongly_connected(R0))):
                break
        else:
            continue
        B = G.random_und(rng, n, p=.3) if spec.get('mask') else None
        D = None
        if spec.get('latt') and rng.rand() < .5:
            D = rng.randint(0, 4, (n, n)).astype(float)
            D = D + D.T
        budget = int(rng.randint(1, 4)) if (spec.get('latt') or spec.get('mask')) else float(rng.choice([.5, 1, 2]))
        if spec.get('mask'):
            budget = int(rng.randint(1, 6))
        _check_one(acc, name, R0.copy(), budget, Scripted((), fallback_seed=int(rng.randint(1 << 30)), max_draws=20000), None, D=D, B=B)
    return acc


# ---- randomizer_bin_und: output-level contract + one woven loop invariant (whole-array set operations, DESIGN 5/C01) ----
_BIN = {}


def _bin_mon(R, i, j, it, k):
    """invariant at the head of `for it in range(k)`: every slot still to be processed names a present connection of the
    working matrix (a slot pointing at a removed connection is later 'rewired' although it does not exist)."""
    st = _BIN.get('st')
    if st is None or st.get('bad'):
        return
    for m in range(int(it), int(k)):
        if R[i[m], j[m]] != 1:
            st['bad'] = 'slot %d = (%d, %d) names no connection at iteration %d' % (m, i[m], j[m], it)
            return


def _bin_woven():
    if 'f' not in _BIN:
        import bct.algorithms.reference as ref
        from engine import weave as W
        _BIN['f'] = W.weave(ref, 'randomizer_bin_und', inserts=[{'where': 'loop_head', 'key': 'for it in range(k)', 'code': '__mon(R, i, j, it, k)'}],
                            hooks={'__mon': _bin_mon})
    return _BIN['f']


def worker_bin(task):
    n, bitlist, alphas, seeds, dtype = task
    acc = Acc()
    fw = _bin_woven()
    if n < 0:
        # seeded random graphs, n = 6..10 (bitlist holds generator seeds)
        graphs = []
        for gs in bitlist:
            r = np.random.RandomState(gs)
            nn = int(r.randint(6, 11))
            U = np.triu(r.random_sample((nn, nn)) < r.uniform(.2, .6), 1).astype(dtype)
            graphs.append(U + U.T)
    else:
        graphs = [G.und_from_bits(n, bits, dtype=dtype) for bits in bitlist]
    for A in graphs:
        for alpha in alphas:
            for s in seeds:
                Ain = A.copy()
                try:
                    _BIN['st'] = {}
                    R = fw(A, alpha, seed=s)
                    if _BIN['st'].get('bad'):
                        acc.violate('randomizer_bin_und/INV-unprocessed-slots-name-present-connections', _BIN['st']['bad'],
                                    {'function': 'randomizer_bin_und', 'R': Ain.tolist(), 'alpha': alpha, 'seed': s, 'dtype': str(dtype)})
                except bct.BCTParamError:
                    acc.case()
                    continue
                except Exception as e:
                    acc.case()
                    acc.violate('randomizer_bin_und/RAISES-%s' % type(e).__name__, 'in-domain input raised %r instead of returning a network' % (e,),
                                {'function': 'randomizer_bin_und', 'R': Ain.tolist(), 'alpha': alpha, 'seed': s, 'dtype': str(dtype)})
                    continue
                wit = {'function': 'randomizer_bin_und', 'R': Ain.tolist(), 'alpha': alpha, 'seed': s, 'dtype': str(dtype)}
                R = np.asarray(R)
                if not np.array_equal(A, Ain):
                    acc.violate('randomizer_bin_und/FRAME-argument-unchanged', 'argument modified', wit)
                if not np.array_equal((R != 0).sum(0), (Ain != 0).sum(0)) or not np.array_equal((R != 0).sum(1), (Ain != 0).sum(1)):
                    acc.violate('randomizer_bin_und/POST-degree', 'degree of some node differs', wit)
                if not np.array_equal(np.sort(R[R != 0]), np.sort((Ain != 0).astype(int)[Ain != 0])):
                    acc.violate('randomizer_bin_und/POST-weight-multiset', 'not a 0/1 matrix with the same number of connections', wit)
                if not np.array_equal(R, R.T):
                    acc.violate('randomizer_bin_und/POST-symmetric', 'output not symmetric', wit)
                if np.any(np.diag(R) != 0):
                    acc.violate('randomizer_bin_und/POST-no-new-self-connection', 'self-connection in output', wit)
                if alpha == 0 and not np.array_equal(R, (Ain != 0).astype(int)):
                    acc.violate('randomizer_bin_und/POST-zero-rewirings-identity', 'alpha = 0 but output differs', wit)
                acc.case(key=(Ain.tobytes(), alpha, s), nontrivial=not np.array_equal(R, (Ain != 0).astype(int)),
                         sample={'function': 'randomizer_bin_und', 'R': Ain.tolist(), 'alpha': alpha, 'seed': s})
    return acc


def chunks(lst, k):
    k = max(1, k)
    return [lst[i::k] for i in range(k) if lst[i::k]]


def run_bounded(run, tier, seed):
    thorough = tier == 'thorough'
    rs = np.random.RandomState(seed)
    tasks = []
    nU = 5 if thorough else 4
    for name, spec in RW.ROUTINES.items():
        und = spec['kind'] == 'und'
        latt = bool(spec.get('latt'))
        if und:
            # all undirected graphs n = 4 (scripts to depth d) and n = 5 (first attempt only)
            d4 = (5 if (thorough and not latt) else 4 if thorough else 3) + (1 if latt else 0)
            for weighted in (False, True):
                for ch in chunks(list(range(G.n_und(4))), 16 if thorough else 4):
                    tasks.append((name, 4, ch, weighted, d4, 6, [seed + 1, seed + 2]))
            bits5 = list(range(G.n_und(5))) if thorough else sorted(rs.choice(G.n_und(5), 96, replace=False).tolist())
            for ch in chunks(bits5, 64 if thorough else 8):
                tasks.append((name, 5, ch, True, 3 + (1 if latt else 0), 3, [seed + 3]))
        else:
            bits4 = list(range(G.n_dir(4))) if thorough else sorted(rs.choice(G.n_dir(4), 192, replace=False).tolist())
            for ch in chunks(bits4, 64 if thorough else 12):
                tasks.append((name, 4, ch, True, 2 + (1 if latt else 0), 4, [seed + 4, seed + 5] if thorough else [seed + 4]))
    part = run.bounded_part(
        'rewiring-routines-small-scope',
        bounds={'undirected': 'all 64 labelled graphs n=4 (binary and weighted {1,2,3} by position), %s graphs n=5' % ('all 1024' if thorough else '256 sampled'),
                'directed': '%s labelled digraphs n=4, weighted' % ('all 4096' if thorough else '192 sampled'),
                'scripts': 'every sequence of random choices up to depth %s draws (undirected n=4 / directed; latticisers one more for the node ordering; n=5: 3; coin in {.25,.75}; node orderings: first %s permutations), then a seeded continuation' % ('5 (latticisers 4+1)/2' if thorough else '3/2', '6'),
                'budgets': 'itr = 0, 1.5/k, 2.5/k (0, 1, 2 outer iterations); latticisers itr = 0, 1; maxswap = 0, 1, 2'},
        rule='one case = (routine, input graph, budget, choice script); non-trivial = at least one accepted swap; distinct by (routine, graph bytes, script)',
        exhaustive=thorough)
    merge_all(run, 'rewiring-routines-small-scope', pmap(worker, tasks))
    # random larger graphs
    part = run.bounded_part('rewiring-routines-random', bounds={'n': '5..%d' % (12 if thorough else 9), 'cases_per_routine': 120 if thorough else 40},
                            rule='seeded random graphs (VERIF_SEED), weights from {.5,1,2,3}, random symmetric D for latticisers, random mask; non-trivial = at least one accepted swap')
    rt = [(name, seed * 1000 + x, 30 if thorough else 20, 12 if thorough else 9) for name in RW.ROUTINES for x in range(4 if thorough else 2)]
    merge_all(run, 'rewiring-routines-random', pmap(worker_random, rt))
    # randomizer_bin_und
    nb = 6 if thorough else 5
    run.bounded_part('randomizer_bin_und', bounds={'graphs': 'all labelled undirected graphs n = 4..%d, float and int dtype; plus %s seeded random graphs n = 6..10 x %s seeds x alpha {1, .6} with a woven loop invariant (unprocessed slots name present connections)' % (nb, '480' if thorough else '96', '40' if thorough else '25'), 'alpha': [0, .5, 1], 'seeds': 3},
                     rule='one case = (graph, alpha, seed); non-trivial = output differs from input', exhaustive=False)
    bt = []
    for n in range(4, nb + 1):
        allb = list(range(G.n_und(n)))
        if n == 6:
            allb = sorted(rs.choice(G.n_und(6), 4096, replace=False).tolist())
        for ch in chunks(allb, 16):
            bt.append((n, ch, [0, .5, 1.0], [seed, seed + 1, seed + 2], float))
            if n <= 5:
                bt.append((n, ch, [1.0], [seed], int))
    nrg, nsd = (480, 40) if thorough else (96, 25)
    for ch in chunks(list(range(seed * 7919 + 1, seed * 7919 + 1 + nrg)), 16):
        bt.append((-1, ch, [1.0, .6], list(range(seed, seed + nsd)), float))
    merge_all(run, 'randomizer_bin_und', pmap(worker_bin, bt))
