"""Independent shortest-path oracles for the bounded stand-ins of C03, C08 and C12.

Nothing here imports bct.  Conventions:
  * a *length matrix* L has L[i, j] = length of the connection i -> j and inf where there is no connection; the diagonal is
    ignored (no self-connections);
  * distances come from a min-plus closure computed by Bellman-style relaxation over the number of edges (not Floyd, not
    Dijkstra, not matrix powers of the adjacency matrix: none of the algorithms used by the code under test);
  * "tight" triples (s, v, w): the connection v -> w continues some minimum-length walk from s, i.e.
    d(s, v) + L[v, w] = d(s, w) < inf.  Everything else (hop-count sets, path counts sigma) is dynamic programming over the
    tight triples, level by level in the number of edges;
  * `brute(L)` enumerates every simple path explicitly and is used to validate the dynamic programs (`selftest`).
Equalities between sums of lengths use a relative tolerance (exact for the integer / dyadic palettes used for ties).
"""
import math
from collections import deque
import numpy as np

INF = float('inf')
RTOL, ATOL = 1e-9, 1e-12


def close(a, b):
    """Element-wise a == b for finite numbers up to rounding; inf matches only inf."""
    a = np.asarray(a, dtype=float)
    b = np.asarray(b, dtype=float)
    with np.errstate(invalid='ignore'):
        fin = np.isfinite(a) & np.isfinite(b)
        out = np.zeros(np.broadcast(a, b).shape, dtype=bool)
        d = np.abs(np.where(fin, a - b, 0.0))
        tol = ATOL + RTOL * np.maximum(np.abs(np.where(fin, a, 0.0)), np.abs(np.where(fin, b, 0.0)))
        out[...] = np.where(fin, d <= tol, (a == b) & ~np.isnan(a))
    return out


def same_matrix(X, Y, offdiag_only=False):
    """(same inf pattern, finite entries close) for two distance-like matrices."""
    X = np.asarray(X, dtype=float)
    Y = np.asarray(Y, dtype=float)
    m = np.ones(X.shape, dtype=bool)
    if offdiag_only:
        m &= ~np.eye(len(X), dtype=bool)
    pat = bool(np.all((np.isinf(X) == np.isinf(Y))[m])) and not bool(np.any(np.isnan(X[m])))
    val = bool(np.all(close(X, Y)[m & np.isfinite(X) & np.isfinite(Y)]))
    return pat, val


def lengths_from(W, transform=None):
    """Length matrix of a connection matrix: 0 = no connection; transform None (entries are lengths), 'inv' (1/w), 'log' (-ln w)."""
    W = np.asarray(W)
    n = len(W)
    L = np.full((n, n), INF)
    for i in range(n):
        for j in range(n):
            if i != j and W[i, j] != 0:
                w = float(W[i, j])
                if transform is None:
                    L[i, j] = w
                elif transform == 'inv':
                    L[i, j] = 1.0 / w
                elif transform == 'log':
                    L[i, j] = 0.0 - math.log(w)
                else:
                    raise ValueError(transform)
    return L


def closure(L):
    """d(s, t) = minimum total length over all walks s -> t (0 for s = t, inf when there is none); lengths must be >= 0."""
    L = np.asarray(L, dtype=float)
    n = len(L)
    step = L.copy()
    np.fill_diagonal(step, 0.0)          # staying put costs nothing: D after h rounds = best walk with <= h edges
    D = step.copy()
    for _ in range(n):
        # D2[s, w] = min_v D[s, v] + step[v, w]
        D2 = np.min(D[:, :, None] + step[None, :, :], axis=1)
        if np.array_equal(D2, D):
            break
        D = D2
    return D


def bfs_hops(A):
    """Hop distances of a binary graph by breadth-first search from every node."""
    A = np.asarray(A)
    n = len(A)
    D = np.full((n, n), INF)
    nbr = [[j for j in range(n) if j != i and A[i, j] != 0] for i in range(n)]
    for s in range(n):
        D[s, s] = 0
        dq = deque([s])
        while dq:
            u = dq.popleft()
            for v in nbr[u]:
                if D[s, v] == INF:
                    D[s, v] = D[s, u] + 1
                    dq.append(v)
    return D


def tight(L, D):
    """T[s, v, w]: connection v -> w exists and d(s, v) + L[v, w] = d(s, w) (finite)."""
    L = np.asarray(L, dtype=float)
    with np.errstate(invalid='ignore'):
        lhs = D[:, :, None] + L[None, :, :]
        T = close(lhs, np.broadcast_to(D[:, None, :], lhs.shape)) & np.isfinite(lhs)
    n = len(L)
    for v in range(n):
        T[:, v, v] = False
    return T


def hop_sets(L, D=None):
    """H[h, s, t] (h = 0 .. n-1): there is a minimum-length walk s -> t with exactly h edges.

    For positive lengths every minimum-length walk is a simple path, so H[:, s, t] is exactly the set of edge counts of the
    minimum-length paths.  With zero-length connections it is a superset restricted to h <= n - 1."""
    L = np.asarray(L, dtype=float)
    n = len(L)
    if D is None:
        D = closure(L)
    T = tight(L, D)
    H = np.zeros((n, n, n), dtype=bool)
    H[0] = np.eye(n, dtype=bool)
    for h in range(1, n):
        H[h] = np.any(H[h - 1][:, :, None] & T, axis=1)
    return H


def sigma(L, D=None):
    """S[s, t] = number of minimum-length paths s -> t (1 for s = t, 0 when unreachable); needs positive lengths."""
    L = np.asarray(L, dtype=float)
    n = len(L)
    fin = L[np.isfinite(L) & ~np.eye(n, dtype=bool)]
    if fin.size and fin.min() <= 0:
        raise ValueError('sigma needs positive lengths')
    if D is None:
        D = closure(L)
    T = tight(L, D).astype(float)
    N = np.eye(n)                       # paths with exactly h edges that are minimum-length
    S = N.copy()
    for h in range(1, n):
        N = np.einsum('sv,svw->sw', N, T)
        S += N
    return S


def betweenness(L):
    """(BC, EBC, D, S) by the definition: BC[v] = sum over ordered pairs s != t (t reachable from s), v not in {s, t}, of
    sigma(s,t|v)/sigma(s,t); EBC[u, v] likewise for the connection u -> v."""
    L = np.asarray(L, dtype=float)
    n = len(L)
    D = closure(L)
    S = sigma(L, D)
    offd = ~np.eye(n, dtype=bool)
    pair = offd & np.isfinite(D)                                  # ordered pairs s != t with t reachable from s
    with np.errstate(invalid='ignore', divide='ignore'):
        inv = np.where(pair, 1.0 / np.where(pair, S, 1.0), 0.0)   # 1/sigma(s,t) on those pairs, 0 elsewhere
        # nodes: on[s, v, t] <=> v lies on a minimum-length s-t path
        via = D[:, :, None] + D[None, :, :]                       # d(s,v) + d(v,t)
        on = close(via, np.broadcast_to(D[:, None, :], via.shape)) & np.isfinite(via)
        idx = np.arange(n)
        on[idx, idx, :] = False                                   # v = s
        on[:, idx, idx] = False                                   # v = t
        cnt = S[:, :, None] * S[None, :, :]                       # sigma(s,v) * sigma(v,t)
        BC = np.einsum('svt,svt,st->v', on.astype(float), cnt, inv)
        # connections: one[s, u, v, t] <=> u -> v lies on a minimum-length s-t path
        Lf = np.where(np.isfinite(L) & offd, L, INF)
        thru = D[:, :, None, None] + Lf[None, :, :, None] + D[None, None, :, :]
        one = close(thru, np.broadcast_to(D[:, None, None, :], thru.shape)) & np.isfinite(thru)
        cnte = S[:, :, None, None] * S[None, None, :, :]
        EBC = np.einsum('suvt,suvt,st->uv', one.astype(float), cnte, inv)
    return BC, EBC, D, S


# ---- explicit enumeration (validation of the dynamic programs; exponential, n <= 6) ------------------------------------
def simple_paths(L, s, t):
    n = len(L)
    path = [s]
    seen = [False] * n
    seen[s] = True

    def rec(u):
        if u == t:
            yield list(path)
            return
        for v in range(n):
            if not seen[v] and u != v and L[u][v] != INF:
                seen[v] = True
                path.append(v)
                yield from rec(v)
                path.pop()
                seen[v] = False
    if s == t:
        yield [s]
    else:
        yield from rec(s)


def brute(L):
    """D, S, hop sets (list of sets), BC, EBC by listing every simple path."""
    L = np.asarray(L, dtype=float)
    n = len(L)
    Ll = L.tolist()
    D = np.full((n, n), INF)
    S = np.zeros((n, n))
    HS = [[set() for _ in range(n)] for _ in range(n)]
    BC = np.zeros(n)
    EBC = np.zeros((n, n))
    for s in range(n):
        for t in range(n):
            ps = []
            for p in simple_paths(Ll, s, t):
                ln = 0.0
                for a, b in zip(p[:-1], p[1:]):
                    ln = ln + Ll[a][b]
                ps.append((ln, p))
            if not ps:
                continue
            m = min(l for l, _ in ps)
            best = [p for l, p in ps if bool(close(l, m))]
            D[s, t] = m
            S[s, t] = len(best)
            HS[s][t] = {len(p) - 1 for p in best}
            if s != t:
                for p in best:
                    for v in p[1:-1]:
                        BC[v] += 1.0 / len(best)
                    for a, b in zip(p[:-1], p[1:]):
                        EBC[a, b] += 1.0 / len(best)
    return D, S, HS, BC, EBC


def selftest(mats):
    """Compares the dynamic programs with explicit enumeration on the given length matrices; returns a list of complaints."""
    bad = []
    for L in mats:
        L = np.asarray(L, dtype=float)
        n = len(L)
        D = closure(L)
        D0, S0, HS0, BC0, EBC0 = brute(L)
        if not all(same_matrix(D, D0)):
            bad.append(('closure', L.tolist()))
            continue
        fin = L[np.isfinite(L) & ~np.eye(n, dtype=bool)]
        positive = not fin.size or fin.min() > 0
        H = hop_sets(L, D)
        for s in range(n):
            for t in range(n):
                hs = {h for h in range(n) if H[h, s, t]}
                if (positive and hs != HS0[s][t]) or (not positive and not HS0[s][t] <= hs):
                    bad.append(('hop_sets', L.tolist(), s, t))
        if positive:
            BC, EBC, _, S = betweenness(L)
            if not np.allclose(S, S0) or not np.allclose(BC, BC0) or not np.allclose(EBC, EBC0):
                bad.append(('sigma/betweenness', L.tolist()))
        if np.all((fin == 1)):
            if not all(same_matrix(bfs_hops(np.isfinite(L)), D0)):
                bad.append(('bfs', L.tolist()))
    return bad


def chunks(lst, k):
    k = max(1, k)
    return [lst[i::k] for i in range(k) if lst[i::k]]


def weighted_from_index(cls, n, values, idx):
    """The idx-th matrix (base-len(values) digits over the node pairs) with entries from `values`; cls 'und' (symmetric) or 'dir'."""
    pr = [(i, j) for i in range(n) for j in range(n) if (i < j if cls == 'und' else i != j)]
    k = len(values)
    W = np.zeros((n, n))
    for (i, j) in pr:
        v = values[idx % k]
        idx //= k
        W[i, j] = v
        if cls == 'und':
            W[j, i] = v
    return W


def rounding_tie_class(L, D=None, H=None):
    """Input class used in violation keys for the 'log' transform (irrational lengths): minimum-length walks with different
    edge counts tie over the reals (or a zero-length cycle exists, weight exactly 1), so which of them "wins" a strict
    floating-point comparison is decided by the order of summation."""
    L = np.asarray(L, dtype=float)
    n = len(L)
    if D is None:
        D = closure(L)
    if H is None:
        H = hop_sets(L, D)
    offd = ~np.eye(n, dtype=bool)
    if bool(np.any((H.sum(axis=0) > 1) & offd)):
        return True
    return bool(np.any((L == 0) & (D.T == 0) & offd))
