"""C13 bounded cross-check: no public call modifies the caller's arrays unless copy=False is requested.

Dynamic counterpart of the static frame analysis (written separately); it stands on its own.  ALL public callables of the
`bct` namespace are enumerated (dir(bct), functions defined in bct.* modules).  A table of argument builders gives each of
them small valid inputs whose array arguments have a non-zero diagonal, signed entries where the domain allows, arbitrary
(non-contiguous, zero-based) community labels, in float and int dtype.  A deep snapshot (values, dtype, shape,
flags.writeable) of every ndarray reachable from the arguments (also inside lists / tuples / dicts) is taken before the call
and compared after it -- also when the call raises.

Clauses
  <f>/FRAME-argument-<arg>-modified          an array passed as (or inside) argument <arg> differs after the call
  <f>/COPYFLAG-copy-true-result-aliases-argument      copy=True returned the argument or a view of it
  <f>/COPYFLAG-copy-false-result-is-not-the-argument  copy=False did not return the caller's array (`out is arg` fails)
  <f>/COPYFLAG-copy-false-argument-does-not-hold-result   after copy=False the caller's array differs from the copy=True result
  <f>/COPYFLAG-copy-false-raises              copy=False raised on an input on which copy=True returned
"""
import copy as _copy, inspect, os, shutil, tempfile
import numpy as np
import bct
from engine.par import pmap, Acc, merge_all
from checks.bounded.nets import und, dir_, ring, dist, coords, labels, brief, timed_call, CallTimeout

N0 = 6

SKIP = {
    'make_motif34lib': 'writes motif34lib.mat into the package directory of the repository under test; must never be called',
    'adjacency_plot_und': 'opens a mayavi 3-D scene (mayavi is not installed; needs a display)',
}

# ---- named small inputs (fresh object at every use) -----------------------------------------------------------------
NET = {
    'WU': lambda n=None: und(n or N0, .5, 1, weighted=True, diag=True),
    'WUi': lambda n=None: und(n or N0, .5, 1, weighted=True, diag=True, dtype=int),
    'WD': lambda n=None: dir_(n or N0, .4, 2, weighted=True, diag=True),
    'WDi': lambda n=None: dir_(n or N0, .4, 2, weighted=True, diag=True, dtype=int),
    'BU': lambda n=None: und(n or N0, .4, 3, diag=True),
    'BUi': lambda n=None: und(n or N0, .4, 3, diag=True, dtype=int),
    'BD': lambda n=None: dir_(n or N0, .35, 4, diag=True),
    'BDi': lambda n=None: dir_(n or N0, .35, 4, diag=True, dtype=int),
    'SU': lambda n=None: und(n or N0, .7, 5, weighted=True, signed=True, diag=True),
    'SUi': lambda n=None: und(n or N0, .7, 5, weighted=True, signed=True, diag=True, dtype=int),
    'SD': lambda n=None: dir_(n or N0, .6, 6, weighted=True, signed=True, diag=True),
    'SDi': lambda n=None: dir_(n or N0, .6, 6, weighted=True, signed=True, diag=True, dtype=int),
    'FU': lambda n=None: und(n or N0, .5, 7, frac=True, diag=True),        # weights in (0, 1]: valid for the 'log' transform
    'FD': lambda n=None: dir_(n or N0, .4, 8, frac=True, diag=True),
    'FUL': lambda n=None: und(n or N0, 1.0, 7, frac=True, diag=True),      # every entry in (0, 1]: the domain of logtransform
    'FDL': lambda n=None: dir_(n or N0, 1.0, 8, frac=True, diag=True),
    'BU0': lambda n=None: und(n or N0, .4, 3),                              # empty diagonal (where a routine documents it)
    'WU0': lambda n=None: und(n or N0, .5, 1, weighted=True),
    'BD0': lambda n=None: dir_(n or N0, .35, 4),
    'FD0': lambda n=None: dir_(n or N0, .35, 4, frac=True),
}


def CI(n=None, seed=1, dtype=int):
    return labels(n or N0, seed).astype(dtype)


def CI1(n=None):
    """contiguous labels 1..3 (for the one routine that is known to index with label values, C14 finding)"""
    n = n or N0
    return np.array([1, 1, 2, 2, 3, 3][:n] + [3] * max(0, n - 6))


def M(kinds, *extra, **kw):
    return [(k, (NET[k](),) + tuple(_copy.deepcopy(extra)), dict(kw)) for k in kinds.split()]


def MC(kinds, *extra, **kw):
    """matrix + community vector (int and float labels)"""
    out = []
    for i, k in enumerate(kinds.split()):
        out.append((k + '+ci', (NET[k](), CI(dtype=int if i % 2 == 0 else float)) + tuple(extra), dict(kw)))
    return out


def _stack(n, m, seed, shift=0.0):
    r = np.random.RandomState(seed)
    x = r.random_sample((n, n, m))
    x = x + x.transpose(1, 0, 2)
    x[:2, :, :] += shift
    x[:, :2, :] += shift
    return x


def _seednet(n, edges, diag=True):
    A = np.zeros((n, n))
    for i, j in list(edges) + [(n - 2, n - 1)]:
        A[i, j] = A[j, i] = 1
    return A


def _gmD(n, seed):
    D = dist(n, seed) + 1.0
    np.fill_diagonal(D, 0)
    return D


def _partitions(n=None, m=4, seed=0):
    n = n or N0
    r = np.random.RandomState(seed)
    return np.array([7, 0, 12])[r.randint(0, 3, (n, m))]


def table(name, tmpdir):
    """-> list of (label, args, kwargs) for the public function `name`, or None if the table has no entry."""
    T = {
        # ---- centrality ---------------------------------------------------------------------------------------------
        'betweenness_bin': lambda: M('BU BD BUi WD'),
        'betweenness_wei': lambda: M('WU WD WUi'),
        'diversity_coef_sign': lambda: MC('SU SUi SD'),
        'edge_betweenness_bin': lambda: M('BU BD BUi WD'),
        'edge_betweenness_wei': lambda: M('WU WD WUi'),
        'eigenvector_centrality_und': lambda: M('WU BU BUi'),
        'erange': lambda: M('BD BDi BU WD'),
        'flow_coef_bd': lambda: M('BD BDi BU WD'),
        'gateway_coef_sign': lambda: [('SU+ci1', (NET['SU'](), CI1()), {}), ('SU+ci1-strength', (NET['SU'](), CI1(), 'strength'), {}),
                                      ('SUi+ci1', (NET['SUi'](), CI1()), {})] + MC('SU WU'),
        'kcoreness_centrality_bd': lambda: M('BD BDi BU WD'),
        'kcoreness_centrality_bu': lambda: M('BU BUi WU'),
        'module_degree_zscore': lambda: MC('WU WUi') + MC('WD WDi', 1) + MC('WD', 2) + MC('WD', 3),
        'pagerank_centrality': lambda: M('WD WU BDi', .85) + [('WD+falff', (NET['WD'](), .85, np.arange(1., N0 + 1)), {})],
        'participation_coef': lambda: MC('WU WUi SU') + MC('WD WDi', 'in') + MC('WD', 'out'),
        'participation_coef_sign': lambda: MC('SU SUi SD'),
        'participation_coef_sparse': lambda: _sparse_inputs(),
        'subgraph_centrality': lambda: M('BU BUi WU'),
        # ---- clustering ---------------------------------------------------------------------------------------------
        'agreement': lambda: [('6x4', (_partitions(),), {}), ('6x4-buff2', (_partitions(seed=1), 2), {}), ('6x4-float', (_partitions().astype(float),), {})],
        'agreement_weighted': lambda: [('4x6', (_partitions().T.copy(), np.array([.1, .2, .3, .4])), {}),
                                       ('4x6-view', (_partitions().T, np.array([1, 2, 3, 4])), {})],
        'clustering_coef_bd': lambda: M('BD BDi BU WD'),
        'clustering_coef_bu': lambda: M('BU BUi WU'),
        'clustering_coef_wd': lambda: M('WD WDi FD'),
        'clustering_coef_wu': lambda: M('WU WUi FU'),
        'clustering_coef_wu_sign': lambda: M('SU SUi') + M('SU', 'zhang') + M('SU', 'constantini') + M('WU'),
        'consensus_und': lambda: [('FU', (NET['FU'](), .3, 4), {'seed': 1}), ('FU8', (und(8, .6, 3, frac=True, diag=True), .2, 3), {'seed': 2})],
        'get_components': lambda: M('BU BUi WU') + M('BU', True),
        'get_components_old': lambda: M('BU BUi WU') + M('BU', True),
        'number_of_components': lambda: M('BU BUi WU'),
        'path_transitivity': lambda: M('WU0 WU WUi') + M('FU', 'log') + M('WU', 'inv'),
        'transitivity_bd': lambda: M('BD BDi WD'),
        'transitivity_bu': lambda: M('BU BUi WU'),
        'transitivity_wd': lambda: M('WD WDi FD'),
        'transitivity_wu': lambda: M('WU WUi FU'),
        # ---- core ---------------------------------------------------------------------------------------------------
        'assortativity_bin': lambda: M('BU BUi WU') + [('BD-flag%d' % f, (NET['BD'](), f), {}) for f in (1, 2, 3, 4)],
        'assortativity_wei': lambda: M('WU WUi') + [('WD-flag%d' % f, (NET['WD'](), f), {}) for f in (1, 2, 3, 4)],
        'core_periphery_dir': lambda: M('WD WDi WU SD', seed=1) + [('WD+C0', (NET['WD'](), 1.2, np.arange(N0) % 2), {'seed': 2})],
        'kcore_bd': lambda: M('BD BDi WD', 2) + M('BD', 2, True),
        'kcore_bu': lambda: M('BU BUi WU', 2) + M('BU', 2, True),
        'local_assortativity_wu_sign': lambda: M('SU SUi WU'),
        'rich_club_bd': lambda: M('BD BDi WD') + M('BD', 2),
        'rich_club_bu': lambda: M('BU BUi WU') + M('BU', 2),
        'rich_club_wd': lambda: M('WD WDi') + M('WD', 2),
        'rich_club_wu': lambda: M('WU WUi') + M('WU', 2),
        'score_wu': lambda: M('WU WUi', 4),
        'clique_communities': lambda: M('BU0 BU BUi WU0', 3),
        # ---- degree -------------------------------------------------------------------------------------------------
        'degrees_dir': lambda: M('BD WD WDi'),
        'degrees_und': lambda: M('BU WU WUi'),
        'jdegree': lambda: M('BD WD BDi'),
        'strengths_dir': lambda: M('WD WDi SD'),
        'strengths_und': lambda: M('WU WUi SU'),
        'strengths_und_sign': lambda: M('SU SUi WU'),
        # ---- distance -----------------------------------------------------------------------------------------------
        'breadth': lambda: M('BD BU BDi WD', 0) + M('BD', 3),
        'breadthdist': lambda: M('BD BU BDi WD'),
        'charpath': lambda: [('D', (dist(N0, 1) + np.eye(N0),), {}), ('D-inf', (_dinf(),), {}), ('D-inf-noinf', (_dinf(), True, False), {}),
                             ('Dint', ((dist(N0, 1) + np.eye(N0)).astype(int) + 1,), {})],
        'cycprob': lambda: [('Pq', (_pq(),), {}), ('Pq-int', (_pq().astype(int),), {})],
        'distance_bin': lambda: M('BD BU BDi WD'),
        'distance_wei': lambda: M('WD WU WDi'),
        'distance_wei_floyd': lambda: M('WD WU WDi') + M('FU', 'log') + M('WU', 'inv') + M('WUi', 'inv'),
        'findpaths': lambda: [('BD', (NET['BD'](), 3, np.array([0, 2])), {}), ('WD', (NET['WD'](), 2, np.array([0, 2])), {}), ('BDi', (NET['BDi'](), 2, np.array([1])), {}),
                              ('BU', (NET['BU'](), 2, np.array([0, 1, 2])), {})],
        'findwalks': lambda: M('BD BU BDi WD'),
        'mean_first_passage_time': lambda: M('WU WD WUi'),
        'navigation_wu': lambda: [('WU+D', (NET['WU'](), dist(N0, 1)), {}), ('WUi+D', (NET['WUi'](), dist(N0, 2)), {}),
                                  ('WU+D+hops', (NET['WU'](), dist(N0, 1), 3), {})],
        'reachdist': lambda: M('BD BU BDi') + M('WD', False),
        'retrieve_shortest_path': lambda: _rsp_inputs(),
        'search_information': lambda: M('WU WD WUi') + M('FU', 'log') + M('WU', 'inv', True),
        # ---- efficiency ---------------------------------------------------------------------------------------------
        'diffusion_efficiency': lambda: M('WU WD WUi'),
        'efficiency_bin': lambda: M('BU BUi BD') + M('BU', True) + M('BD', True) + M('WU', True),
        'efficiency_wei': lambda: M('WU WUi FU') + M('WU', True) + M('FU', True) + M('WD', True),
        'resource_efficiency_bin': lambda: M('BU BUi WU', .5) + M('BU', np.nan) + [('BU+spl+m', (NET['BU'](), .5, _spl(), _tm()), {})],
        'rout_efficiency': lambda: M('WU WD WUi') + M('FU', 'log') + M('WU', 'inv'),
        # ---- generative ---------------------------------------------------------------------------------------------
        'generative_model': lambda: [
            ('matching7', (_seednet(7, [(0, 1), (2, 3)]), _gmD(7, 1), 9, np.array([-2.]), np.array([.5])), {'seed': 1}),
            ('euclidean6', (_seednet(6, [(0, 2)]), _gmD(6, 2), 7, np.array([-1.5]), np.array([0.]), 'euclidean'), {'seed': 2}),
            ('deg-avg7', (_seednet(7, [(0, 1), (1, 2)]), _gmD(7, 3), 8, np.array([-1., -2.]), np.array([.3, .6]), 'deg-avg'), {'seed': 3}),
            ('neighbors8', (_seednet(8, [(0, 1), (1, 2), (0, 2)]), _gmD(8, 4), 12, np.array([-2.]), np.array([.4]), 'neighbors'), {'seed': 4}),
            ('clu-avg8', (_seednet(8, [(0, 1), (1, 2), (0, 2)]), _gmD(8, 5), 12, np.array([-2.]), np.array([.4]), 'clu-avg'), {'seed': 5}),
            ('deg-prod7-exp', (_seednet(7, [(0, 1), (1, 2)]), _gmD(7, 3), 8, np.array([-1.]), np.array([.3]), 'deg-prod', 'exponential'), {'seed': 3})],
        'evaluate_generative_model': lambda: [
            ('matching7', (_seednet(7, [(0, 1)]), und(7, .4, 2), _gmD(7, 1), np.array([-2.]), np.array([.5])), {'seed': 1}),
            ('deg-avg7', (_seednet(7, [(0, 1), (1, 2)]), und(7, .3, 3), _gmD(7, 3), np.array([-1., -2.]), np.array([.3, .6]), 'deg-avg'), {'seed': 2})],
        'generate_fc': lambda: [('WU', (NET['WU'](), np.ones(3), dist(N0, 1)), {'seed': 1})],
        # ---- modularity ---------------------------------------------------------------------------------------------
        'ci2ls': lambda: [('ci', (np.array([1, 3, 3, 2, 1, 5]),), {}), ('ci-float', (np.array([1., 3., 3., 2., 1., 5.]),), {}),
                          ('ci-zero', (np.array([0, 2, 2, 1, 0, 4]), True), {})],
        'ls2ci': lambda: [('ls', ([[0, 4], [3], [1, 2]],), {}), ('ls-arrays', ([np.array([0, 4]), np.array([3]), np.array([1, 2])], True), {})],
        'community_louvain': lambda: M('WU WUi WD', seed=1) + M('SU SUi', 1, None, 'negative_asym', seed=2) + M('SU', 1, None, 'negative_sym', seed=2)
            + [('WU+ci', (NET['WU'](), 1.1, CI()), {'seed': 3}), ('WU+B', (NET['WU'](), 1, None, NET['WU']()), {'seed': 4}),
               ('WU+potts', (NET['FU'](), .5, None, 'potts'), {'seed': 5})],
        'link_communities': lambda: M('WD WU WDi') + M('WD', 'complete'),
        'modularity_dir': lambda: M('WD WDi BD') + [('WD+kci', (NET['WD'](), 1, CI()), {}), ('WD+kci-float', (NET['WD'](), 1.2, CI(dtype=float)), {})],
        'modularity_und': lambda: M('WU WUi BU') + [('WU+kci', (NET['WU'](), 1, CI()), {}), ('WU+kci-float', (NET['WU'](), 1.2, CI(dtype=float)), {})],
        'modularity_und_sign': lambda: MC('SU SUi') + MC('SU', 'gja') + MC('SU', 'neg') + MC('SU', 'pos') + MC('SU', 'smp'),
        'modularity_finetune_dir': lambda: M('WD WDi', seed=1) + [('WD+ci', (NET['WD'](), CI(), 1.2), {'seed': 2}), ('WD+ci-float', (NET['WD'](), CI(dtype=float)), {'seed': 2})],
        'modularity_finetune_und': lambda: M('WU WUi', seed=1) + [('WU+ci', (NET['WU'](), CI(), 1.2), {'seed': 2}), ('WU+ci-float', (NET['WU'](), CI(dtype=float)), {'seed': 2})],
        'modularity_finetune_und_sign': lambda: M('SU SUi', seed=1) + M('SU', 'gja', seed=1) + [('SU+ci', (NET['SU'](), 'sta', 1, CI()), {'seed': 2})],
        'modularity_probtune_und_sign': lambda: M('SU SUi', seed=1) + M('SU', 'smp', seed=1) + [('SU+ci', (NET['SU'](), 'sta', 1, CI()), {'seed': 2})],
        'modularity_louvain_dir': lambda: M('WD WDi', seed=1) + M('WD', 1.2, True, seed=2),
        'modularity_louvain_und': lambda: M('WU WUi', seed=1) + M('WU', 1.2, True, seed=2),
        'modularity_louvain_und_sign': lambda: M('SU SUi', seed=1) + M('SU', 1, 'gja', seed=2),
        'partition_distance': lambda: [('ci,ci', (CI(seed=1), CI(seed=2)), {}), ('float', (CI(seed=1, dtype=float), CI(seed=3, dtype=float)), {})],
        # ---- motifs -------------------------------------------------------------------------------------------------
        'find_motif34': lambda: [('id3', (5, 3), {}), ('id4', (20, 4), {}), ('matrix3', (np.array([[0, 1, 0], [0, 0, 1], [1, 0, 0]]),), {}),
                                 ('matrix4', (np.array([[0, 1, 0, 0], [0, 0, 1, 0], [0, 0, 0, 1], [1, 0, 0, 0]]),), {})],
        'motif3funct_bin': lambda: M('BD BDi BU WD'),
        'motif3funct_wei': lambda: M('FD WD WDi'),
        'motif3struct_bin': lambda: M('BD BDi BU WD'),
        'motif3struct_wei': lambda: M('FD WD WDi'),
        'motif4funct_bin': lambda: M('BD BDi BD0 WD'),
        'motif4funct_wei': lambda: M('FD WD FD0'),
        'motif4struct_bin': lambda: M('BD BDi BD0 WD'),
        'motif4struct_wei': lambda: M('FD WD FD0'),
        # ---- physical connectivity ----------------------------------------------------------------------------------
        'density_dir': lambda: M('BD WD WDi SD'),
        'density_und': lambda: M('BU WU WUi SU'),
        'rentian_scaling': lambda: [('BU', (NET['BU'](), coords(N0, 1), 6), {'seed': 1}), ('WU', (NET['WU'](), coords(N0, 3), 6), {'seed': 3}), ('BUi', (NET['BUi'](), coords(N0, 2).astype(int) + 0, 6), {'seed': 2})],
        # ---- reference ----------------------------------------------------------------------------------------------
        'latmio_dir': lambda: M('WD WDi', 2, seed=1) + [('WD+D', (NET['WD'](), 1, dist(N0, 1)), {'seed': 2})],
        'latmio_dir_connected': lambda: M('WD WDi', 2, seed=1) + [('WD+D', (NET['WD'](), 1, dist(N0, 1)), {'seed': 2})],
        'latmio_und': lambda: M('WU WUi', 2, seed=1) + [('WU+D', (NET['WU'](), 1, dist(N0, 1)), {'seed': 2})],
        'latmio_und_connected': lambda: M('WU WUi', 2, seed=1) + [('WU+D', (NET['WU'](), 1, dist(N0, 1)), {'seed': 2})],
        'randmio_dir': lambda: M('WD WDi BD', 2, seed=1),
        'randmio_dir_connected': lambda: M('WD WDi BD', 2, seed=1),
        'randmio_und': lambda: M('WU WUi BU', 2, seed=1),
        'randmio_und_connected': lambda: M('WU WUi BU', 2, seed=1),
        'randmio_dir_signed': lambda: M('SD SDi', 2, seed=1),
        'randmio_und_signed': lambda: M('SU SUi', 2, seed=1),
        'null_model_dir_sign': lambda: M('SD SDi', seed=1) + M('SD', 2, 1.0, seed=2),
        'null_model_und_sign': lambda: M('SU SUi', seed=1) + M('SU', 2, 1.0, seed=2),
        'randomize_graph_partial_und': lambda: [('sparse8', (und(8, .15, 3, diag=True), np.eye(8), 3), {'seed': 1}),
                                                ('sparse8-int', (und(8, .15, 3, diag=True, dtype=int), und(8, .1, 5, backbone=False, dtype=int), 2), {'seed': 2})],
        'randomizer_bin_und': lambda: [('bu7', (und(7, .4, 3), .8), {'seed': 1}), ('bu7-int', (und(7, .4, 3, dtype=int), .8), {'seed': 1}),
                                       ('bu7-diag', (und(7, .4, 3, diag=True), .8), {'seed': 1})],
        'makeevenCIJ': lambda: [('8-20-2', (8, 20, 2), {'seed': 1})],
        'makefractalCIJ': lambda: [('3-2-2', (3, 2., 2), {'seed': 1})],
        'makerandCIJ_dir': lambda: [('6-12', (6, 12), {'seed': 1})],
        'makerandCIJ_und': lambda: [('6-7', (6, 7), {'seed': 1})],
        'makerandCIJdegreesfixed': lambda: [('5', (np.array([2, 1, 2, 1, 2]), np.array([1, 2, 2, 2, 1])), {'seed': 1}),
                                            ('5-float', (np.array([2., 1., 2., 1., 2.]), np.array([1., 2., 2., 2., 1.])), {'seed': 2})],
        'makeringlatticeCIJ': lambda: [('7-16', (7, 16), {'seed': 1})],
        'maketoeplitzCIJ': lambda: [('6-8-1', (6, 8, 1.), {'seed': 1})],
        # ---- similarity ---------------------------------------------------------------------------------------------
        'corr_flat_dir': lambda: [('WD,WD', (NET['WD'](), NET['SD']()), {}), ('int', (NET['WDi'](), NET['SDi']()), {})],
        'corr_flat_und': lambda: [('WU,SU', (NET['WU'](), NET['SU']()), {}), ('int', (NET['WUi'](), NET['SUi']()), {})],
        'dice_pairwise_und': lambda: [('BU,WU', (NET['BU'](), NET['WU']()), {}), ('int', (NET['BUi'](), NET['WUi']()), {})],
        'edge_nei_overlap_bd': lambda: M('BD BDi WD') + [('dense', (dir_(N0, .8, 11, diag=True),), {})],
        'edge_nei_overlap_bu': lambda: M('BU BUi WU') + [('dense', (und(N0, .8, 11, diag=True),), {})],
        'gtom': lambda: M('BU BUi WU', 1) + M('BU', 3) + M('BU', 0),
        'matching_ind': lambda: M('BD WD BDi'),
        'matching_ind_und': lambda: M('BU WU BUi'),
        # ---- nbs ----------------------------------------------------------------------------------------------------
        'nbs_bct': lambda: [('5x5', (_stack(5, 6, 1, .8), _stack(5, 5, 2), 1.5, 5), {'seed': 1}),
                            ('6x6-paired', (_stack(6, 5, 3, .6), _stack(6, 5, 4), 1.0, 5, 'both', True), {'seed': 2})],
        # ---- utils --------------------------------------------------------------------------------------------------
        'cuberoot': lambda: [('array', (np.array([-8., 27., 0., 1.]),), {}), ('int', (np.array([-8, 27, 0, 1]),), {}), ('matrix', (NET['SU'](),), {})],
        'teachers_round': lambda: [('2.5', (2.5,), {}), ('-2.5', (-2.5,), {})],
        'dummyvar': lambda: [('6x4', (_partitions(),), {}), ('6x4-sparse', (_partitions(seed=2), True), {})],
        'get_rng': lambda: [('int', (3,), {}), ('none', (), {})],
        'pick_four_unique_nodes_quickly': lambda: [('5', (5,), {'seed': 1})],
        'threshold_absolute': lambda: M('WU WUi SU', 2),
        'threshold_proportional': lambda: M('WU WUi SU WD', .5),
        'weight_conversion': lambda: M('WU WUi SU', 'binarize') + M('WU SU', 'normalize') + M('WU WUi', 'lengths'),
        'binarize': lambda: M('WU WUi SU'),
        'normalize': lambda: M('WU SU WUi'),
        'invert': lambda: M('WU SU WUi'),
        'logtransform': lambda: M('FUL FDL FU'),
        'autofix': lambda: [('nan-inf', (_dirty(),), {}), ('nearly-binary', (_nearbin(),), {}), ('WU', (NET['WU'](),), {}), ('WUi', (NET['WUi'](),), {})],
        # ---- visualisation helpers that only compute ----------------------------------------------------------------
        'align_matrices': lambda: [('WU,WU', (NET['WU'](), und(N0, .5, 9, weighted=True, diag=True)), {'H': 200}),
                                   ('absdiff', (NET['WD'](), NET['WU'](), 'absdiff'), {'H': 100}), ('cosang', (NET['WU'](), NET['BU'](), 'cosang'), {'H': 100})],
        'backbone_wu': lambda: M('WU WUi WU0', 2),
        'grid_communities': lambda: [('ci', (CI(),), {}), ('ci-float', (CI(dtype=float),), {})],
        'reorderMAT': lambda: M('WU WUi WD', 50) + M('WU', 50, 'circ'),
        'reorder_matrix': lambda: M('WU WUi WD', H=100) + M('WU', 'circ', H=100),
        'reorder_mod': lambda: MC('WU WUi WD'),
        'writetoPAJ': lambda: [('WD', (NET['WD'](), os.path.join(tmpdir, 'a.paj'), True), {}), ('WUi', (NET['WUi'](), os.path.join(tmpdir, 'b.paj'), False), {})],
    }
    f = T.get(name)
    return None if f is None else f()


def _dinf():
    D = dist(N0, 2) + np.eye(N0)
    D[0, 3] = D[3, 0] = np.inf
    return D


def _pq():
    r = np.random.RandomState(4)
    return r.randint(0, 4, (N0, N0, 4)).astype(float)


def _spl():
    D = np.rint(dist(N0, 3) / 4) + 1
    np.fill_diagonal(D, 0)
    return D


def _tm():
    A = NET['BU']()
    return A / A.sum(1, keepdims=True)


def _dirty():
    W = NET['WU']()
    W[0, 1] = np.inf
    W[2, 3] = np.nan
    W[4, 5] = 1e-9
    return W


def _nearbin():
    W = NET['BU']()
    return W + 1e-9 * (W != 0)


def _sparse_inputs():
    import scipy.sparse as sp
    return [('csr+ci', (sp.csr_matrix(NET['WU']()), CI()), {}), ('csr+ci-in', (sp.csr_matrix(NET['WD']()), CI(), 'in'), {}),
            ('csc-int+ci', (sp.csc_matrix(NET['WUi']()), CI(dtype=float)), {})]


def _rsp_inputs():
    # hops / Pmat as documented: outputs of a Floyd-Warshall run, computed here independently of bct
    out = []
    for lab, L in (('WU', NET['WU0']()), ('BU-int', NET['BU0']())):
        n = len(L)
        D = np.where(L != 0, L.astype(float), np.inf)
        np.fill_diagonal(D, 0)
        hops = (L != 0).astype(float)
        P = np.tile(np.arange(n), (n, 1)) * (L != 0)
        for k in range(n):
            for i in range(n):
                for j in range(n):
                    if D[i, k] + D[k, j] < D[i, j]:
                        D[i, j] = D[i, k] + D[k, j]
                        hops[i, j] = hops[i, k] + hops[k, j]
                        P[i, j] = P[i, k]
        np.fill_diagonal(hops, 0)
        if lab.endswith('int'):
            hops, P = hops.astype(int), P.astype(int)
        out.append((lab, (0, 3, hops, P), {}))
    return out


# ---- discovery ------------------------------------------------------------------------------------------------------
def discover():
    out = []
    for nme in sorted(dir(bct)):
        if nme.startswith('_'):
            continue
        o = getattr(bct, nme)
        if inspect.isfunction(o) and (getattr(o, '__module__', '') or '').startswith('bct'):
            out.append(nme)
    return out


def copyflag_functions():
    """the utilities with a `copy` flag = public functions defined in bct.utils.other whose signature has a `copy` parameter"""
    out = []
    for nme in discover():
        o = getattr(bct, nme)
        try:
            if 'copy' in inspect.signature(o).parameters and o.__module__ == 'bct.utils.other':
                out.append(nme)
        except (TypeError, ValueError):
            pass
    return out


# ---- snapshots ------------------------------------------------------------------------------------------------------
def arrays_in(obj, path, out, depth=0):
    """every ndarray reachable from obj through lists / tuples / dicts / scipy sparse containers -> [(path, array)]"""
    if isinstance(obj, np.ndarray):
        out.append((path, obj))
        if obj.dtype.kind == 'O' and depth < 3:
            for i, v in enumerate(obj.ravel().tolist()):
                arrays_in(v, '%s[%d]' % (path, i), out, depth + 1)
    elif isinstance(obj, (list, tuple)) and depth < 4:
        for i, v in enumerate(obj):
            arrays_in(v, '%s[%d]' % (path, i), out, depth + 1)
    elif isinstance(obj, dict) and depth < 4:
        for k, v in obj.items():
            arrays_in(v, '%s[%r]' % (path, k), out, depth + 1)
    elif hasattr(obj, 'nnz') and hasattr(obj, 'toarray'):
        for att in ('data', 'indices', 'indptr'):
            if isinstance(getattr(obj, att, None), np.ndarray):
                out.append(('%s.%s' % (path, att), getattr(obj, att)))


def snap(a):
    return {'values': a.copy(), 'dtype': a.dtype.str, 'shape': tuple(a.shape), 'strides': tuple(a.strides), 'writeable': bool(a.flags.writeable)}


def differs(s, a):
    """None or a sentence saying how array a differs from its snapshot s"""
    if a.dtype.str != s['dtype']:
        return 'dtype %s -> %s' % (s['dtype'], a.dtype.str)
    if tuple(a.shape) != s['shape']:
        return 'shape %s -> %s' % (s['shape'], tuple(a.shape))
    if bool(a.flags.writeable) != s['writeable']:
        return 'flags.writeable %s -> %s' % (s['writeable'], bool(a.flags.writeable))
    v = s['values']
    if a.dtype.kind == 'O':
        same = all(_objeq(x, y) for x, y in zip(v.ravel().tolist(), a.ravel().tolist()))
        return None if same else 'object entries changed'
    if a.dtype.kind in 'fc':
        neq = ~((v == a) | (np.isnan(v) & np.isnan(a)))
    else:
        neq = v != a
    neq = np.asarray(neq)
    if neq.any():
        idx = np.argwhere(neq)
        on_diag = a.ndim == 2 and a.shape[0] == a.shape[1] and all(i[0] == i[1] for i in idx.tolist())
        first = tuple(int(x) for x in idx[0])
        return '%d element(s) changed%s, first at %s: %r -> %r' % (len(idx), ' (all on the diagonal)' if on_diag else '', first,
                                                                 v[first].item(), a[first].item())
    return None


def _objeq(x, y):
    if isinstance(x, np.ndarray) or isinstance(y, np.ndarray):
        return isinstance(x, np.ndarray) and isinstance(y, np.ndarray) and x.shape == y.shape and bool(np.all(x == y))
    return x is y or x == y


def shares(res, arrs):
    ra = []
    arrays_in(res, 'result', ra)
    for _, r in ra:
        for p, a in arrs:
            try:
                if np.may_share_memory(r, a) and np.shares_memory(r, a, max_work=100000):
                    return p
            except Exception:
                if np.may_share_memory(r, a):
                    return p
    return None


def argnames(fn, args, kwargs):
    try:
        ba = inspect.signature(fn).bind(*args, **kwargs)
        return list(ba.arguments.items())
    except TypeError:
        return [('arg%d' % i, a) for i, a in enumerate(args)] + list(kwargs.items())


def values_equal(a, b):
    a, b = np.asarray(a), np.asarray(b)
    if a.shape != b.shape:
        return False
    if a.dtype.kind in 'fc' or b.dtype.kind in 'fc':
        return bool(np.all((a == b) | (np.isnan(a.astype(float)) & np.isnan(b.astype(float)))))
    return bool(np.all(a == b))


# ---- workers --------------------------------------------------------------------------------------------------------
def motiflib_redirect():
    """The motif routines open <package>/algorithms/motif34lib.mat; the repository ships the library as <package>/motif34lib.mat
    and expects make_motif34lib() to write the other copy into the package directory -- which a check must never do.  The module
    attribute `motiflib` is pointed at the shipped file *in this process only* (os.path.join keeps an absolute second part)."""
    import bct.algorithms.motifs as mo
    here = os.path.dirname(os.path.abspath(mo.__file__))
    if os.path.exists(os.path.join(here, str(mo.motiflib))):
        return None
    shipped = os.path.join(os.path.dirname(here), 'motif34lib.mat')
    if os.path.exists(shipped):
        mo.motiflib = shipped
        return shipped
    return None


def worker(task):
    name, cap, extra_n = task
    acc = Acc()
    motiflib_redirect()
    acc.info = {'name': name, 'calls': 0, 'ok': 0, 'raised': {}, 'timeouts': 0, 'aliases': None, 'array_args': 0}
    fn = getattr(bct, name)
    tmpdir = tempfile.mkdtemp(prefix='c13_')
    try:
        cases = table(name, tmpdir)
        if cases is None:
            acc.info['missing'] = True
            return acc
        if extra_n:
            cases = _larger(name, extra_n, tmpdir)
        for label, args, kwargs in cases:
            named = argnames(fn, args, kwargs)
            arrs, snaps = [], []
            for an, val in named:
                found = []
                arrays_in(val, an, found)
                for p, a in found:
                    arrs.append((an, p, a))
                    snaps.append(snap(a))
            witness = {'function': name, 'input': label, 'args': _copy.deepcopy(args), 'kwargs': _copy.deepcopy(kwargs)}
            acc.info['calls'] += 1
            acc.info['array_args'] += len(arrs)
            status, res = 'ok', None
            try:
                res = timed_call(fn, args, kwargs, cap)
                acc.info['ok'] += 1
            except CallTimeout:
                status = 'timeout'
                acc.info['timeouts'] += 1
            except BaseException as e:
                if isinstance(e, (KeyboardInterrupt, SystemExit)):
                    raise
                status = 'raised ' + type(e).__name__
                acc.info['raised'].setdefault(type(e).__name__, '%s: %s' % (label, str(e)[:120]))
            for (an, p, a), s in zip(arrs, snaps):
                d = differs(s, a)
                if d is not None:
                    acc.violate('%s/FRAME-argument-%s-modified' % (name, an),
                                'after the call (%s) the caller\'s array %s differs from its snapshot: %s' % (status, p, d), witness)
            if status == 'ok' and acc.info['aliases'] is None:
                p = shares(res, [(p, a) for _, p, a in arrs])
                if p is not None:
                    acc.info['aliases'] = '%s (input %s)' % (p, label)
            acc.case(key=(name, label), nontrivial=bool(arrs) and status == 'ok',
                     sample={'function': name, 'input': label, 'status': status, 'arrays_watched': [p for _, p, _ in arrs]})
    finally:
        shutil.rmtree(tmpdir, ignore_errors=True)
    return acc


def _larger(name, n, tmpdir):
    """thorough tier: the table again with n-node matrices (entries with fixed-size arguments are simply repeated)"""
    global N0
    old = N0
    out = []
    try:
        N0 = n
        for label, args, kwargs in (table(name, tmpdir) or []):
            out.append(('%s@n=%d' % (label, n), args, kwargs))
    except Exception:
        out = []
    finally:
        N0 = old
    return out




def copy_inputs(name):
    dirty = ('nan-inf', _dirty)
    base = {
        'threshold_absolute': [(k, NET[k], (2,)) for k in ('WU', 'WUi', 'SU', 'WD')],
        'threshold_proportional': [(k, NET[k], (.5,)) for k in ('WU', 'WUi', 'SU', 'WD')] + [('WU-p1', NET['WU'], (1.0,)), ('WU-p0', NET['WU'], (0.,))],
        'weight_conversion': [(k + '-' + w, NET[k], (w,)) for k in ('WU', 'WUi', 'SU') for w in ('binarize', 'normalize', 'lengths')],
        'binarize': [(k, NET[k], ()) for k in ('WU', 'WUi', 'SU', 'BU')],
        'normalize': [(k, NET[k], ()) for k in ('WU', 'SU', 'WD', 'WUi')],
        'invert': [(k, NET[k], ()) for k in ('WU', 'SU', 'WD', 'WUi')],
        'logtransform': [(k, NET[k], ()) for k in ('FUL', 'FDL')] + [('ones', lambda: np.ones((4, 4)), ())],
        'autofix': [dirty + ((),), ('nearly-binary', _nearbin, ()), ('WU', NET['WU'], ()), ('WD', NET['WD'], ()), ('WUi', NET['WUi'], ()),
                    ('asym-noise', lambda: NET['WU']() + 1e-12 * np.arange(N0 * N0).reshape(N0, N0), ())],
    }
    return base.get(name)


def worker_copy(task):
    name, cap = task
    acc = Acc()
    acc.info = {'name': name, 'calls': 0, 'ok': 0}
    fn = getattr(bct, name)
    ins = copy_inputs(name)
    if ins is None:
        acc.info['missing'] = True
        return acc
    for label, build, extra in ins:
        wit = {'function': name, 'input': label, 'W': build(), 'extra': list(extra)}
        acc.info['calls'] += 1
        # copy=True (explicit) and the default
        W0 = build()
        s0 = snap(W0)
        try:
            out_t = timed_call(fn, (W0,) + extra, {'copy': True}, cap)
        except CallTimeout:
            continue
        except Exception as e:
            d = differs(s0, W0)
            if d is not None:
                acc.violate('%s/FRAME-argument-W-modified' % name, 'copy=True raised %s and left the caller\'s array changed: %s' % (type(e).__name__, d), wit)
            acc.case(key=(name, label), nontrivial=False, sample={'function': name, 'input': label, 'status': 'copy=True raised ' + type(e).__name__})
            continue
        acc.info['ok'] += 1
        d = differs(s0, W0)
        if d is not None:
            acc.violate('%s/FRAME-argument-W-modified' % name, 'copy=True changed the caller\'s array: %s' % d, wit)
        if out_t is W0 or (isinstance(out_t, np.ndarray) and np.shares_memory(out_t, W0)):
            acc.violate('%s/COPYFLAG-copy-true-result-aliases-argument' % name, 'copy=True returned the caller\'s array (or a view of it)', wit)
        Wd = build()
        sd = snap(Wd)
        try:
            out_d = timed_call(fn, (Wd,) + extra, {}, cap)
            if differs(sd, Wd) is not None or out_d is Wd:
                acc.violate('%s/FRAME-argument-W-modified' % name, 'the default (copy not given) worked on the caller\'s array: %s' % differs(sd, Wd), wit)
        except Exception:
            pass
        # copy=False
        W1 = build()
        s1 = snap(W1)
        try:
            out_f = timed_call(fn, (W1,) + extra, {'copy': False}, cap)
        except CallTimeout:
            continue
        except Exception as e:
            acc.violate('%s/COPYFLAG-copy-false-raises' % name, 'copy=False raised %s(%s) on an input on which copy=True returned' % (type(e).__name__, str(e)[:100]), wit)
            continue
        changed = not values_equal(out_t, s1['values'])      # the operation is not the identity on this input
        if name not in C17_COPYFLAG_UTILITIES:
            # C13 only *permits* copy=False to work on the caller's array; that the array must then hold the result is stated
            # (by C17) for the thresholding / weight-conversion utilities only.  logtransform and autofix rebind internally
            # (copy=False leaves the argument unprocessed or partly processed): not a violation of any listed property.
            if not values_equal(out_f, out_t):
                acc.violate('%s/COPYFLAG-copy-false-result-differs' % name, 'copy=False and copy=True returned different values', wit)
            acc.case(key=(name, label), nontrivial=changed, sample={'function': name, 'input': label, 'operation_changes_values': changed})
            continue
        if out_f is not W1:
            acc.violate('%s/COPYFLAG-copy-false-result-is-not-the-argument' % name,
                        'copy=False returned an object that is not the caller\'s array (shares memory with it: %s)'
                        % (bool(isinstance(out_f, np.ndarray) and np.shares_memory(out_f, W1))), wit)
        if not (values_equal(W1, out_t) and W1.dtype == np.asarray(out_t).dtype):
            acc.violate('%s/COPYFLAG-copy-false-argument-does-not-hold-result' % name,
                        'after copy=False the caller\'s array does not hold the result computed by the copy=True call (%s)'
                        % ('array left as it was' if differs(s1, W1) is None else 'partially processed'), wit)
        if not values_equal(out_f, out_t):
            acc.violate('%s/COPYFLAG-copy-false-result-differs' % name, 'copy=False and copy=True returned different values', wit)
        acc.case(key=(name, label), nontrivial=changed, sample={'function': name, 'input': label, 'operation_changes_values': changed})
    return acc


C17_COPYFLAG_UTILITIES = ('threshold_absolute', 'threshold_proportional', 'weight_conversion', 'binarize', 'normalize', 'invert')


def run_bounded(run, tier, seed):
    thorough = tier == 'thorough'
    names = discover()
    cap = 60 if thorough else 20
    skipped = [n for n in names if n in SKIP]
    todo = [n for n in names if n not in SKIP]
    part = 'all-public-functions-frame'
    run.bounded_part(part, bounds={'functions': 'all %d public functions of the bct namespace (dir(bct), defined in bct.*), %d skipped by rule' % (len(names), len(skipped)),
                                   'inputs': 'hand-written table, n = 6 (a few 5..8)%s: non-zero diagonal, signed where allowed, labels from {0, 3, 7, 12}, float and int dtype'
                                             % ('; thorough repeats the matrix entries with n = 9 and n = 12' if thorough else ''),
                                   'per_call_cap_s': cap},
                     rule='one case = (function, input); non-trivial = the call returned and at least one ndarray argument was watched; distinct by (function, input label)',
                     exhaustive=False)
    tasks = [(n, cap, 0) for n in todo]
    if thorough:
        tasks += [(n, cap, k) for n in todo for k in (9, 12)]
    accs = pmap(worker, tasks)
    merge_all(run, part, accs)
    # copy-flag utilities
    cf = copyflag_functions()
    part2 = 'copy-flag-utilities'
    run.bounded_part(part2, bounds={'functions': cf, 'inputs': '3..9 matrices each (float / int / signed / directed / NaN+inf / nearly binary)'},
                     rule='one case = (utility, input) called with copy=True, default and copy=False; non-trivial = the operation changes the values of that input',
                     exhaustive=False)
    accs2 = pmap(worker_copy, [(n, cap) for n in cf])
    merge_all(run, part2, accs2)
    # ---- coverage bookkeeping ------------------------------------------------------------------------------------------
    info = {}
    for a in accs:
        i = a.info
        d = info.setdefault(i['name'], {'calls': 0, 'ok': 0, 'raised': {}, 'timeouts': 0, 'aliases': None, 'missing': False, 'array_args': 0})
        d['calls'] += i['calls']; d['ok'] += i['ok']; d['timeouts'] += i['timeouts']; d['array_args'] += i['array_args']
        d['missing'] = d['missing'] or i.get('missing', False)
        d['aliases'] = d['aliases'] or i['aliases']
        for k, v in i['raised'].items():
            d['raised'].setdefault(k, v)
    called = sorted(n for n, d in info.items() if d['ok'] > 0)
    missing = sorted(n for n, d in info.items() if d['missing'])
    never = sorted(n for n, d in info.items() if d['ok'] == 0 and not d['missing'])
    cov = 100.0 * len(called) / max(1, len(names))
    for n in skipped:
        run.notes.append('C13 bounded: %s skipped: %s' % (n, SKIP[n]))
    ml = motiflib_redirect()
    if ml:
        run.notes.append('C13 bounded: bct.algorithms.motifs.motiflib pointed at the shipped %s inside the checking process (the routines look for '
                         'algorithms/motif34lib.mat, which only make_motif34lib() would create, by writing into the package)' % ml)
    for n in missing:
        run.notes.append('C13 bounded: public function %s has no entry in the argument table of checks/bounded/C13.py -- NOT CHECKED' % n)
        run.undecide('C13 bounded: newly discovered public function %s has no argument table entry' % n)
    for n in never:
        run.notes.append('C13 bounded: no valid call could be constructed for %s (%s); its arguments were still compared after every raising call'
                         % (n, '; '.join('%s [%s]' % kv for kv in info[n]['raised'].items()) or 'timeouts only'))
    part_raise = sorted((n, d['raised']) for n, d in info.items() if d['ok'] > 0 and d['raised'])
    if part_raise:
        run.notes.append('C13 bounded: calls that raised although another input of the same function returned (arguments compared after the raise): '
                         + '; '.join('%s %s' % (n, sorted(r)) for n, r in part_raise))
    to = sorted(n for n, d in info.items() if d['timeouts'])
    if to:
        run.notes.append('C13 bounded: calls cut off by the %d s cap (skipped): %s' % (cap, ', '.join(to)))
    al = sorted('%s: %s' % (n, d['aliases']) for n, d in info.items() if d['aliases'])
    if al:
        run.notes.append('C13 bounded (information, not a clause): results that share memory with an argument under default flags: ' + '; '.join(al))
    for n in copyflag_functions():
        if copy_inputs(n) is None:
            run.notes.append('C13 bounded: utility %s has a copy flag but no entry in copy_inputs -- NOT CHECKED' % n)
            run.undecide('C13 bounded: copy-flag utility %s has no input entry' % n)
    oth = [n for n in names if n not in cf and 'copy' in _params(n)]
    if oth:
        run.notes.append('C13 bounded: %s also take a `copy` parameter outside bct.utils.other; they are called with the default copy=True only '
                         '(generative_model documents that copy=False lets the model add edges to the caller\'s seed network)' % ', '.join(oth))
    run.notes.append('C13 bounded coverage: %d public functions, %d skipped by rule, %d called successfully at least once (%.1f%%), %d without a valid call, %d without table entry'
                     % (len(names), len(skipped), len(called), cov, len(never), len(missing)))
    run.extra['c13_bounded_coverage'] = {'public_functions': len(names), 'skipped': skipped, 'called_successfully': len(called), 'percent': round(cov, 1),
                                         'no_valid_call': never, 'no_table_entry': missing}
    print('C13 bounded coverage: %d public functions; skipped %s; called successfully %d (%.1f%%); no valid call: %s; no table entry: %s'
          % (len(names), skipped, len(called), cov, never, missing))
    if cov < 90.0:
        run.undecide('C13 bounded: only %.1f%% of the public functions were called successfully (< 90%%)' % cov)


def _params(n):
    try:
        return inspect.signature(getattr(bct, n)).parameters
    except (TypeError, ValueError):
        return {}
