"""C05 bounded cross-check: seeded calls are reproducible and never touch the global random stream.

Dynamic counterpart of the static effect analysis (written separately); it stands on its own.  Every public function of the
`bct` namespace whose signature has a `seed` parameter is *discovered* (inspect.signature over dir(bct)); a hand-written
table supplies small valid argument sets.  For each function x input x seed s the clauses are

  E-same-seed             two calls with seed=s return identical results (deep, NaN-aware, bit-exact); the global generators
                          are put into *different* states before the two calls, so a leak from the global stream shows here too
  E-int-vs-RandomState    seed=s and seed=np.random.RandomState(s) return identical results
  E-global-untouched      with a seed given, every component of np.random.get_state() and Python's random.getstate() is the
                          same before and after the call (also when the call raises)
  E-unseeded-uses-global  np.random.seed(s) + unseeded call is repeatable (Python's `random` is reseeded differently in between),
                          equals the call with seed=RandomState(s) (same MT19937 stream), and from an arbitrary prior history
                          of global draws (incl. a cached Gaussian) equals the call on a RandomState set to that very state.
"""
import copy, inspect, random
import numpy as np
import bct
from engine.par import pmap, Acc, merge_all
from checks.bounded import nets as N
from checks.bounded.nets import und, dir_, ring, dist, coords, labels, canon, brief, timed_call, CallTimeout

# functions that cannot be called successfully on the unchanged tree (reason is reported through run.notes); their seeded calls
# are still made, only E-global-untouched can be observed.
UNCALLABLE = {
    'generate_fc': 'body is `rng = get_rng(seed); raise NotImplementedError()` (bct/algorithms/generative.py): no input returns',
}


def _stack(n, m, seed, shift=0.0):
    r = np.random.RandomState(seed)
    x = r.random_sample((n, n, m))
    x = x + x.transpose(1, 0, 2)
    x[:2, :, :] += shift
    x[:, :2, :] += shift
    return x


def _seednet(n, edges):
    """seed network for the generative models: a few edges, always including the last pair (n-2, n-1) -- the models draw pair
    index r in 1..npairs (an off-by-one of the port, outside C05) and u[r] raises IndexError when the last pair is drawn with
    positive probability; it has probability 0 when that pair is already connected."""
    A = np.zeros((n, n))
    for i, j in list(edges) + [(n - 2, n - 1)]:
        A[i, j] = A[j, i] = 1
    return A


def _gm_D(n, seed):
    D = dist(n, seed) + 1.0
    np.fill_diagonal(D, 0)
    return D


def inputs(name, tier):
    """-> list of (label, args tuple, kwargs dict); quick: >= 2 per function, thorough: more and larger."""
    th = tier == 'thorough'
    big = [(10, 21), (12, 22), (14, 23)] if th else []
    L = []

    def add(label, *args, **kw):
        L.append((label, args, kw))
    if name in ('randmio_und', 'randmio_und_connected', 'latmio_und', 'latmio_und_connected'):
        add('wu7', und(7, .5, 3, weighted=True), 2)
        add('bu6', und(6, .6, 8), 1)
        if name.startswith('latmio'):
            add('wu7-D', und(7, .5, 4, weighted=True), 1, D=dist(7, 5))
        for n, s in big:
            add('wu%d' % n, und(n, .4, s, weighted=True), 3)
    elif name in ('randmio_dir', 'randmio_dir_connected', 'latmio_dir', 'latmio_dir_connected'):
        add('wd7', dir_(7, .4, 4, weighted=True), 2)
        add('bd6', dir_(6, .5, 9), 1)
        if name.startswith('latmio'):
            add('wd7-D', dir_(7, .4, 5, weighted=True), 1, D=dist(7, 6))
        for n, s in big:
            add('wd%d' % n, dir_(n, .35, s, weighted=True), 3)
    elif name in ('randmio_und_signed', 'null_model_und_sign'):
        extra = (2,) if name.startswith('randmio') else ()
        add('su7', und(7, .7, 5, weighted=True, signed=True), *extra)
        add('su8', und(8, .8, 6, weighted=True, signed=True), *extra)
        for n, s in big:
            add('su%d' % n, und(n, .7, s, weighted=True, signed=True), *extra)
        if name == 'null_model_und_sign':
            add('su7-freq1', und(7, .7, 7, weighted=True, signed=True), 2, 1.0)
    elif name in ('randmio_dir_signed', 'null_model_dir_sign'):
        extra = (2,) if name.startswith('randmio') else ()
        add('sd7', dir_(7, .6, 6, weighted=True, signed=True), *extra)
        add('sd8', dir_(8, .7, 7, weighted=True, signed=True), *extra)
        for n, s in big:
            add('sd%d' % n, dir_(n, .6, s, weighted=True, signed=True), *extra)
        if name == 'null_model_dir_sign':
            add('sd7-freq1', dir_(7, .6, 8, weighted=True, signed=True), 2, 1.0)
    elif name == 'randomize_graph_partial_und':
        add('ring8+chords', und(8, .15, 3), np.zeros((8, 8)), 3)
        add('sparse9-mask', und(9, .2, 4, weighted=True), und(9, .1, 5, backbone=False), 4)
        for n, s in big:
            add('sparse%d' % n, und(n, .2, s), und(n, .05, s + 1, backbone=False), 6)
    elif name == 'randomizer_bin_und':
        add('bu7', und(7, .4, 3), .8)
        add('bu8', und(8, .3, 4), 1.0)
        for n, s in big:
            add('bu%d' % n, und(n, .3, s), .9)
    elif name == 'makeevenCIJ':
        add('8-30-2', 8, 30, 2); add('16-60-2', 16, 60, 2)
        if th:
            add('32-200-3', 32, 200, 3); add('16-100-3', 16, 100, 3)
    elif name == 'makefractalCIJ':
        add('3-2-2', 3, 2., 2); add('4-3-2', 4, 3., 2)
        if th:
            add('5-2.5-3', 5, 2.5, 3); add('4-1.5-1', 4, 1.5, 1)
    elif name == 'makerandCIJ_dir':
        add('6-12', 6, 12); add('8-20', 8, 20)
        if th:
            add('12-60', 12, 60); add('5-20', 5, 20)
    elif name == 'makerandCIJ_und':
        add('6-7', 6, 7); add('8-12', 8, 12)
        if th:
            add('12-30', 12, 30); add('5-10', 5, 10)
    elif name == 'makerandCIJdegreesfixed':
        add('5', np.array([2, 1, 2, 1, 2]), np.array([1, 2, 2, 2, 1]))
        add('6', np.array([1, 2, 3, 2, 1, 1]), np.array([2, 2, 1, 1, 2, 2]))
        if th:
            add('8', np.array([2, 3, 2, 3, 2, 3, 2, 3]), np.array([3, 2, 3, 2, 3, 2, 3, 2]))
    elif name == 'makeringlatticeCIJ':
        add('7-16', 7, 16); add('8-20', 8, 20)
        if th:
            add('12-50', 12, 50); add('9-30', 9, 30)
    elif name == 'maketoeplitzCIJ':
        add('6-8-1', 6, 8, 1.); add('7-12-1.5', 7, 12, 1.5)
        if th:
            add('8-14-2', 8, 14, 2.)
    elif name == 'community_louvain':
        add('wu7', und(7, .5, 3, weighted=True))
        add('su7-negasym', und(7, .7, 5, weighted=True, signed=True), 1, None, 'negative_asym')
        add('wd7-gamma', dir_(7, .4, 4, weighted=True), 1.3)
        add('wu8-ci', und(8, .4, 9, weighted=True), 1, labels(8, 2))
        for n, s in big:
            add('wu%d' % n, und(n, .4, s, weighted=True))
            add('su%d-negsym' % n, und(n, .6, s, weighted=True, signed=True), 1, None, 'negative_sym')
    elif name in ('modularity_louvain_und', 'modularity_finetune_und'):
        add('wu7', und(7, .5, 3, weighted=True))
        add('bu8-gamma', und(8, .4, 9), **{'gamma': 1.2})
        if name == 'modularity_finetune_und':
            add('wu8-ci', und(8, .4, 9, weighted=True), labels(8, 2))
        else:
            add('wu8-hier', und(8, .4, 9, weighted=True), hierarchy=True)
        for n, s in big:
            add('wu%d' % n, und(n, .4, s, weighted=True))
    elif name in ('modularity_louvain_dir', 'modularity_finetune_dir'):
        add('wd7', dir_(7, .4, 4, weighted=True))
        add('bd8-gamma', dir_(8, .4, 9), **{'gamma': 1.2})
        if name == 'modularity_finetune_dir':
            add('wd8-ci', dir_(8, .4, 9, weighted=True), labels(8, 2))
        else:
            add('wd8-hier', dir_(8, .4, 9, weighted=True), hierarchy=True)
        for n, s in big:
            add('wd%d' % n, dir_(n, .35, s, weighted=True))
    elif name in ('modularity_louvain_und_sign', 'modularity_finetune_und_sign', 'modularity_probtune_und_sign'):
        add('su7', und(7, .7, 5, weighted=True, signed=True))
        add('su8-gja', und(8, .8, 6, weighted=True, signed=True), qtype='gja')
        if name != 'modularity_louvain_und_sign':
            add('su8-ci', und(8, .8, 6, weighted=True, signed=True), ci=labels(8, 2))
        for n, s in big:
            add('su%d' % n, und(n, .7, s, weighted=True, signed=True), qtype='smp')
    elif name == 'core_periphery_dir':
        add('wd7', dir_(7, .4, 4, weighted=True))
        add('bd8-gamma', dir_(8, .5, 9), 1.3)
        for n, s in big:
            add('wd%d' % n, dir_(n, .35, s, weighted=True))
    elif name == 'consensus_und':
        add('d7', und(7, .7, 2, frac=True), .3, 5)
        add('d8', und(8, .6, 3, frac=True), .2, 4)
        for n, s in big:
            add('d%d' % n, und(n, .6, s, frac=True), .3, 6)
    elif name == 'rentian_scaling':
        add('bu7', und(7, .5, 3), coords(7, 3), 8)
        add('bu9', und(9, .4, 4), coords(9, 5), 12)
        for n, s in big:
            add('bu%d' % n, und(n, .4, s), coords(n, s), 30)
    elif name == 'nbs_bct':
        add('5x5-6v5', _stack(5, 6, 1, .8), _stack(5, 5, 2), 1.5, 5)
        add('6x6-5v5-paired', _stack(6, 5, 3, .6), _stack(6, 5, 4), 1.0, 5, 'both', True)
        if th:
            add('7x7-8v7-left', _stack(7, 8, 5), _stack(7, 7, 6, .7), 1.2, 5, 'left')
    elif name == 'generative_model':
        add('matching7', _seednet(7, [(0, 1), (2, 3)]), _gm_D(7, 1), 9, np.array([-2.]), np.array([.5]))
        add('euclidean6', _seednet(6, [(0, 2)]), _gm_D(6, 2), 7, np.array([-1.5]), np.array([0.]), 'euclidean')
        add('deg-avg7-2params', _seednet(7, [(0, 1), (1, 2)]), _gm_D(7, 3), 8, np.array([-1., -2.]), np.array([.3, .6]), 'deg-avg')
        if th:
            add('neighbors8', _seednet(8, [(0, 1), (1, 2), (0, 2)]), _gm_D(8, 4), 12, np.array([-2.]), np.array([.4]), 'neighbors')
            add('clu-avg8', _seednet(8, [(0, 1), (1, 2), (0, 2)]), _gm_D(8, 5), 12, np.array([-2.]), np.array([.4]), 'clu-avg')
    elif name == 'evaluate_generative_model':
        add('matching7', _seednet(7, [(0, 1)]), und(7, .4, 2), _gm_D(7, 1), np.array([-2.]), np.array([.5]))
        add('deg-avg7', _seednet(7, [(0, 1), (1, 2)]), und(7, .3, 3), _gm_D(7, 3), np.array([-1., -2.]), np.array([.3, .6]), 'deg-avg')
    elif name == 'pick_four_unique_nodes_quickly':
        add('n4', 4); add('n5', 5); add('n9', 9)
        if th:
            add('n30', 30)
    elif name == 'get_rng':
        add('noargs')
    elif name == 'generate_fc':
        add('wu7', und(7, .5, 3, weighted=True), np.ones(3))
        add('wu6', und(6, .5, 4, weighted=True), np.ones(2), dist(6, 1))
    else:
        return None
    return L


def discover():
    out = []
    for nme in sorted(dir(bct)):
        if nme.startswith('_'):
            continue
        o = getattr(bct, nme)
        if not inspect.isfunction(o) or not (getattr(o, '__module__', '') or '').startswith('bct'):
            continue
        try:
            sig = inspect.signature(o)
        except (TypeError, ValueError):
            continue
        if 'seed' in sig.parameters:
            out.append(nme)
    return out


# ---- global generator snapshots ----------------------------------------------------------------------------------------
def scramble(h):
    """put both global generators into a state that depends on h (position inside the block, a cached Gaussian)"""
    np.random.seed(h % (1 << 32))
    np.random.random_sample(3 + h % 5)
    np.random.standard_normal()
    random.seed(h + 1)
    random.random()


def gsnap():
    return np.random.get_state(), random.getstate(), id(np.random.mtrand._rand)


def gdiff(a, b):
    """list of the components of the global generator state that differ"""
    (n0, p0, i0), (n1, p1, i1) = a, b
    d = []
    if n0[0] != n1[0]:
        d.append('np.random bit generator name')
    if not np.array_equal(n0[1], n1[1]):
        d.append('np.random MT19937 key')
    if int(n0[2]) != int(n1[2]):
        d.append('np.random MT19937 pos %d -> %d' % (n0[2], n1[2]))
    if int(n0[3]) != int(n1[3]):
        d.append('np.random has_gauss')
    if repr(float(n0[4])) != repr(float(n1[4])):
        d.append('np.random cached_gaussian')
    if p0 != p1:
        d.append("Python's random.getstate()")
    if i0 != i1:
        d.append('np.random.mtrand._rand object replaced')
    return d


_NOSEED = object()


def outcome(fn, args, kwargs, cap, seed=_NOSEED):
    """('ok', canonical result) | ('raise', type name, message) | ('timeout',).  Arguments are deep-copied for every call; the
    seed object (int or RandomState instance) is passed as it is."""
    a, k = copy.deepcopy(args), copy.deepcopy(kwargs)
    if seed is not _NOSEED:
        k['seed'] = seed
    try:
        r = timed_call(fn, a, k, cap)
    except CallTimeout:
        return ('timeout',)
    except BaseException as e:
        if isinstance(e, (KeyboardInterrupt, SystemExit)):
            raise
        return ('raise', type(e).__name__, str(e)[:200], isinstance(e, bct.BCTParamError))
    return ('ok', canon(r), brief(r))


def same(o1, o2):
    return o1[:2] == o2[:2] if o1[0] == 'ok' else o1[:3] == o2[:3]


def worker(task):
    name, tier, idx, seeds, cap = task
    acc = Acc()
    acc.info = []          # (kind, text): 'timeout' | 'raise' | 'bctparam'
    fn = getattr(bct, name)
    label, args, kwargs = inputs(name, tier)[idx]
    for s in seeds:
        wit = {'function': name, 'input': label, 'args': args, 'kwargs': kwargs, 'seed': s}
        # --- seeded calls, global generators in three different known states ------------------------------------------
        touched = []
        scramble(1000 + s)
        g0 = gsnap()
        o1 = outcome(fn, args, kwargs, cap, seed=s)
        touched += gdiff(g0, gsnap())
        scramble(2000 + 3 * s)
        g0 = gsnap()
        o2 = outcome(fn, args, kwargs, cap, seed=s)
        touched += gdiff(g0, gsnap())
        scramble(3000 + 7 * s)
        g0 = gsnap()
        inst = np.random.RandomState(s)
        st0 = canon(inst)
        o3 = outcome(fn, args, kwargs, cap, seed=inst)
        touched += gdiff(g0, gsnap())
        consumed = canon(inst) != st0
        if any(o[0] == 'timeout' for o in (o1, o2, o3)):
            acc.info.append(('timeout', '%s[%s] seed=%d: call did not return within %ss (skipped)' % (name, label, s, cap)))
            acc.case()
            continue
        if touched:
            acc.violate('%s/E-global-untouched' % name,
                        'a call with seed given changed the global random state: %s' % ', '.join(sorted(set(touched))), wit)
        if o1[0] == 'raise':
            if o1[3]:
                acc.info.append(('bctparam', '%s[%s] seed=%d: BCTParamError %s (case skipped)' % (name, label, s, o1[2])))
                acc.case()
                continue
            acc.info.append(('raise', (name, label, s, o1[1], o1[2], wit)))
        if not same(o1, o2):
            acc.violate('%s/E-same-seed' % name, 'two calls with the same integer seed returned different results (%s vs %s)'
                        % (o1[-1] if o1[0] == 'ok' else o1[:3], o2[-1] if o2[0] == 'ok' else o2[:3]), wit)
        if not same(o1, o3):
            acc.violate('%s/E-int-vs-RandomState' % name, 'seed=s and seed=np.random.RandomState(s) returned different results (%s vs %s)'
                        % (o1[-1] if o1[0] == 'ok' else o1[:3], o3[-1] if o3[0] == 'ok' else o3[:3]), wit)
        # --- unseeded calls ----------------------------------------------------------------------------------------
        np.random.seed(s)
        random.seed(11)
        u1 = outcome(fn, args, kwargs, cap)
        np.random.seed(s)
        random.seed(22)
        u2 = outcome(fn, args, kwargs, cap)
        # arbitrary prior history of the global generator: position inside the block, cached Gaussian present
        scramble(4000 + 11 * s)
        X = np.random.get_state()
        u3 = outcome(fn, args, kwargs, cap)
        g = np.random.RandomState()
        g.set_state(X)
        scramble(5000 + 13 * s)
        o4 = outcome(fn, args, kwargs, cap, seed=g)
        if any(o[0] == 'timeout' for o in (u1, u2, u3, o4)):
            acc.info.append(('timeout', '%s[%s] seed=%d: unseeded call did not return within %ss (skipped)' % (name, label, s, cap)))
        else:
            if not same(u1, u2):
                acc.violate('%s/E-unseeded-uses-global/not-repeatable' % name,
                            'np.random.seed(s) before the unseeded call did not make it reproducible', wit)
            if not same(u1, o3):
                acc.violate('%s/E-unseeded-uses-global/differs-from-RandomState-stream' % name,
                            'the unseeded call after np.random.seed(s) differs from the call with seed=np.random.RandomState(s): '
                            'the result does not depend on the global generator through its stream alone', wit)
            if not same(u3, o4):
                acc.violate('%s/E-unseeded-uses-global/history' % name,
                            'after a prior history of global draws the unseeded call differs from the call on a RandomState set to the same state', wit)
        acc.case(key=(name, label, s), nontrivial=consumed and o1[0] == 'ok',
                 sample={'function': name, 'input': label, 'seed': s, 'stream_consumed': consumed, 'result': o1[-1] if o1[0] == 'ok' else list(o1[:3])})
    # get_rng: the documented fallback for integers RandomState rejects (private random.Random instance)
    if name == 'get_rng':
        for big in (2 ** 40 + 5, -3):
            scramble(77)
            g0 = gsnap()
            a, b = outcome(fn, (), {}, cap, seed=big), outcome(fn, (), {}, cap, seed=big)
            d = gdiff(g0, gsnap())
            w = {'function': 'get_rng', 'seed': big}
            if d:
                acc.violate('get_rng/E-global-untouched', 'get_rng(%d) changed the global random state: %s' % (big, ', '.join(d)), w)
            if not same(a, b):
                acc.violate('get_rng/E-same-seed', 'get_rng(%d) twice gave generators in different states' % big, w)
            acc.case(key=('get_rng', 'fallback', big), nontrivial=a[0] == 'ok', sample={'function': 'get_rng', 'seed': big, 'outcome': a[0]})
    return acc


def run_bounded(run, tier, seed):
    thorough = tier == 'thorough'
    names = discover()
    nseeds = 20 if thorough else 3
    seeds = [int((seed * 7919 + k * 104729 + 1) % (1 << 32)) for k in range(nseeds)]
    cap = 60 if thorough else 20
    tasks, missing = [], []
    for nme in names:
        ins = inputs(nme, tier)
        if ins is None:
            missing.append(nme)
            continue
        for idx in range(len(ins)):
            for s in seeds:
                tasks.append((nme, tier, idx, [s], cap))
    part = 'seedable-functions'
    run.bounded_part(part, bounds={'functions': 'every public function of the bct namespace with a `seed` parameter (%d discovered by inspect.signature)' % len(names),
                                   'inputs_per_function': '>= 2 hand-written small inputs (n = 4..9%s)' % ('; thorough adds n = 10, 12, 14 and further variants' if thorough else ''),
                                   'seeds': seeds, 'calls_per_case': '3 seeded + 3 unseeded + 1 on a RandomState set to an arbitrary global state',
                                   'per_call_cap_s': cap},
                     rule='one case = (function, input, seed); non-trivial = the call returned and consumed draws from the RandomState it was given; distinct by (function, input label, seed)',
                     exhaustive=False)
    accs = pmap(worker, tasks)
    merge_all(run, part, accs)
    # ---- bookkeeping: coverage, notes, RAISES -----------------------------------------------------------------------------
    ok_cases, nontriv, raises, notes_t = {}, {}, {}, []
    for t, a in zip(tasks, accs):
        nme = t[0]
        ok_cases.setdefault(nme, 0)
        nontriv.setdefault(nme, 0)
        nontriv[nme] += len(a.nontrivial)
        for kind, txt in getattr(a, 'info', []):
            if kind == 'raise':
                raises.setdefault(nme, []).append(txt)
            else:
                notes_t.append(txt)
    for nme, lst in sorted(raises.items()):
        f, label, s, et, msg, wit = lst[0]
        if nme in UNCALLABLE:
            continue
        # rule 2: an exception other than BCTParamError on an in-domain input (the table holds inputs that return on the unchanged tree)
        run.violation('%s/RAISES-%s' % (nme, et), 'in-domain input raised %s(%r) instead of returning (%d of the cases of this function)' % (et, msg, len(lst)),
                      wit)
    for nme in names:
        if nme in UNCALLABLE:
            run.notes.append('C05 bounded: %s cannot be called successfully: %s; only E-global-untouched is observed for it' % (nme, UNCALLABLE[nme]))
    for nme in missing:
        run.notes.append('C05 bounded: seed-accepting function %s has no entry in the input table of checks/bounded/C05.py -- NOT CHECKED' % nme)
        run.undecide('C05 bounded: newly discovered seed-accepting function %s has no input table entry' % nme)
    dull = [n for n in names if n not in missing and n not in UNCALLABLE and nontriv.get(n, 0) == 0]
    if dull:
        run.notes.append('C05 bounded: no case of %s consumed random draws (clauses hold trivially there)' % ', '.join(dull))
    for txt in notes_t[:20]:
        run.notes.append('C05 bounded: ' + txt)
    run.notes.append('C05 bounded: %d seed-accepting public functions discovered, %d with inputs, %d exercised non-trivially; bct.nbs_parallel.nbs_bct is '
                     'not exported into the bct namespace and is outside this cross-check' % (len(names), len(names) - len(missing), sum(1 for n in names if nontriv.get(n, 0) > 0)))
    print('C05 bounded: %d seedable functions discovered: %s' % (len(names), ' '.join(names)))
    print('C05 bounded: %d tasks, seeds %s; non-trivially exercised %d/%d; uncallable: %s; without table entry: %s; timeouts/skips: %d'
          % (len(tasks), seeds, sum(1 for n in names if nontriv.get(n, 0) > 0), len(names), sorted(UNCALLABLE), missing, len(notes_t)))
