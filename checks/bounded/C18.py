"""C18 bounded stand-in: random-walk and spectral measures satisfy their defining equations (residual tolerance 1e-8).

Conventions read from the code / docstrings and used by the oracles:
* mean_first_passage_time(A)[i, j] is the expected number of steps FROM i TO j; P = D^-1 A with D = diag(row sums) (rows are
  normalised).  The first-step equation M[i,j] = 1 + sum_{k != j} P[i,k] M[k,j] is checked for i != j (for i == j the same
  right-hand side is the mean return time, while the routine reports 0 on the diagonal; the diagonal is not constrained here).
* diffusion_efficiency(A) = (mean over the n^2 - n off-diagonal cells of E, E) with E[i,j] = 1 / M[i,j], E[i,i] = 0.
* pagerank_centrality(A, d, falff): D = diag(COLUMN sums of A) (zero column sums replaced by 1), f = falff / sum(falff) or the
  uniform vector; the routine solves (I - d A D^-1) x = (1-d) f and returns x / sum(x).  When no column sum is zero, A D^-1 is
  column-stochastic, sum(x) = 1 and the returned r satisfies r = d A D^-1 r + (1-d) f exactly: only such inputs are generated
  (connected undirected, strongly connected directed, disjoint unions of connected graphs on >= 2 nodes).
* findwalks(CIJ): weights are discarded; Wq has n slices, slice q holds the walks of length q for q = 1..n-1; slice 0 is never
  written (all zero; not constrained here).  twalk and wlq are the documented sums of the returned Wq.
"""
import numpy as np
import bct
from engine import graphs as G
from engine.par import pmap, Acc, merge_all

TOL = 1e-8
PALETTES = ((1.0, 2.0, 3.0), (0.5, 1.0, 2.5))


def _raise(acc, fname, e, wit):
    acc.violate('%s/RAISES-%s' % (fname, type(e).__name__), 'in-domain input raised %r' % (e,), wit)


def _finite_real(x):
    x = np.asarray(x)
    if np.iscomplexobj(x):
        if np.any(np.abs(x.imag) > TOL):
            return None
        x = x.real
    x = x.astype(float)
    return x if np.all(np.isfinite(x)) else None


# ---------------------------------------------------------------------------------------------- individual contracts
def first_step_residual(A, M):
    """max over i != j of |M[i,j] - 1 - sum_{k != j} P[i,k] M[k,j]|, relative to max(1, |M|)."""
    A = np.asarray(A, dtype=float)
    n = len(A)
    P = A / A.sum(axis=1)[:, None]
    worst = 0.0
    for j in range(n):
        P0 = P.copy()
        P0[:, j] = 0
        res = M[:, j] - 1 - P0 @ M[:, j]
        res[j] = 0
        worst = max(worst, float(np.abs(res).max()))
    return worst / max(1.0, float(np.abs(M[~np.eye(n, dtype=bool)]).max()) if n > 1 else 1.0)


def check_mfpt(acc, A, ident):
    n = len(A)
    Ain = A.copy()
    wit = {'function': 'mean_first_passage_time', 'adjacency': A.tolist(), 'dtype': str(A.dtype)}
    try:
        M = bct.mean_first_passage_time(A)
    except bct.BCTParamError:
        return
    except Exception as e:
        _raise(acc, 'mean_first_passage_time', e, wit)
        acc.case()
        return
    if not np.array_equal(A, Ain):
        acc.violate('mean_first_passage_time/FRAME-argument-unchanged', 'argument modified', wit)
    Mr = _finite_real(M)
    if Mr is None or Mr.shape != (n, n):
        acc.violate('mean_first_passage_time/POST-finite-real-matrix', 'result %r' % (np.asarray(M).tolist(),), wit)
    else:
        r = first_step_residual(Ain, Mr)
        if not r <= TOL:
            acc.violate('mean_first_passage_time/POST-first-step-equation',
                        'M[i,j] = 1 + sum_{k != j} P[i,k] M[k,j] violated for some i != j, relative residual %.3g; M = %r' % (r, Mr.tolist()), wit)
    acc.case(key=('mfpt',) + ident, nontrivial=n >= 3, sample={'function': 'mean_first_passage_time', 'adjacency': A.tolist()})
    # diffusion_efficiency
    wit = {'function': 'diffusion_efficiency', 'adj': Ain.tolist(), 'dtype': str(A.dtype)}
    A2 = Ain.copy()
    try:
        ge, E = bct.diffusion_efficiency(A2)
    except bct.BCTParamError:
        return
    except Exception as e:
        _raise(acc, 'diffusion_efficiency', e, wit)
        acc.case()
        return
    if not np.array_equal(A2, Ain):
        acc.violate('diffusion_efficiency/FRAME-argument-unchanged', 'argument modified', wit)
    Er = _finite_real(E)
    off = ~np.eye(n, dtype=bool)
    if Er is None or Er.shape != (n, n) or np.any(Er[off] <= 0):
        acc.violate('diffusion_efficiency/POST-finite-positive-offdiagonal', 'pairwise efficiencies %r' % (np.asarray(E).tolist(),), wit)
    else:
        if np.any(np.diag(Er) != 0):
            acc.violate('diffusion_efficiency/POST-diagonal-zero', 'diagonal %r' % (np.diag(Er).tolist(),), wit)
        Minv = np.zeros((n, n))
        Minv[off] = 1.0 / Er[off]
        r = first_step_residual(Ain, Minv)
        if not r <= TOL:
            acc.violate('diffusion_efficiency/POST-elementwise-inverse-of-first-passage-time',
                        '1/ediff does not satisfy the first-step equation, relative residual %.3g; ediff = %r' % (r, Er.tolist()), wit)
        mean = Er[off].sum() / (n * n - n)
        if not np.isclose(float(np.real(ge)), mean, rtol=TOL, atol=1e-12):
            acc.violate('diffusion_efficiency/POST-global-is-mean-of-offdiagonal', 'gediff %r, mean of the off-diagonal of ediff %r' % (ge, mean), wit)
    acc.case(key=('ediff',) + ident, nontrivial=n >= 3, sample={'function': 'diffusion_efficiency', 'adj': Ain.tolist()})


def check_pagerank(acc, A, ident, fs):
    n = len(A)
    colsum = np.asarray(A, dtype=float).sum(axis=0)
    assert np.all(colsum > 0), 'generator must not produce zero column sums'
    AD = np.asarray(A, dtype=float) / colsum[None, :]
    for d in (.5, .85):
        for fi, falff in enumerate(fs):
            Ain = A.copy()
            fin = None if falff is None else np.array(falff, dtype=float)
            wit = {'function': 'pagerank_centrality', 'A': A.tolist(), 'dtype': str(A.dtype), 'd': d, 'falff': None if falff is None else list(falff)}
            try:
                r = bct.pagerank_centrality(A, d) if falff is None else bct.pagerank_centrality(A, d, fin)
            except bct.BCTParamError:
                continue
            except Exception as e:
                _raise(acc, 'pagerank_centrality', e, wit)
                acc.case()
                continue
            if not np.array_equal(A, Ain) or (falff is not None and not np.array_equal(fin, np.array(falff, dtype=float))):
                acc.violate('pagerank_centrality/FRAME-arguments-unchanged', 'an argument was modified', wit)
            rr = _finite_real(r)
            f = np.ones(n) / n if falff is None else np.array(falff, dtype=float) / float(np.sum(falff))
            if rr is None or rr.shape != (n,):
                acc.violate('pagerank_centrality/POST-finite-real-vector', 'result %r' % (np.asarray(r).tolist(),), wit)
            else:
                positive_expected = bool(np.all(f > 0)) or ident[0] != 'disjoint'
                if positive_expected and np.any(rr <= 0):
                    acc.violate('pagerank_centrality/POST-positive', 'r = %r' % (rr.tolist(),), wit)
                if abs(rr.sum() - 1) > TOL:
                    acc.violate('pagerank_centrality/POST-sums-to-one', 'sum r = %r' % (float(rr.sum()),), wit)
                res = float(np.abs(rr - d * (AD @ rr) - (1 - d) * f).max())
                if not res <= TOL:
                    acc.violate('pagerank_centrality/POST-r-equals-d-A-Dinv-r-plus-(1-d)-f', 'residual %.3g, r = %r' % (res, rr.tolist()), wit)
            regular = len(set(np.round(colsum, 12))) == 1 and np.allclose(A, np.asarray(A).T)
            acc.case(key=('pagerank', d, fi) + ident, nontrivial=(not regular) or falff is not None,
                     sample={'function': 'pagerank_centrality', 'A': A.tolist(), 'd': d, 'falff': None if falff is None else list(falff)})


def check_subgraph(acc, A, ident):
    n = len(A)
    Ain = A.copy()
    wit = {'function': 'subgraph_centrality', 'CIJ': A.tolist(), 'dtype': str(A.dtype)}
    try:
        cs = bct.subgraph_centrality(A)
    except bct.BCTParamError:
        return
    except Exception as e:
        _raise(acc, 'subgraph_centrality', e, wit)
        acc.case()
        return
    if not np.array_equal(A, Ain):
        acc.violate('subgraph_centrality/FRAME-argument-unchanged', 'argument modified', wit)
    lam, V = np.linalg.eigh(np.asarray(Ain, dtype=float))          # symmetric input: orthonormal basis guaranteed
    exp = (V * V) @ np.exp(lam)
    c = _finite_real(cs)
    if c is None or c.shape != (n,) or not np.allclose(c, exp, rtol=TOL, atol=TOL):
        acc.violate('subgraph_centrality/POST-diagonal-of-matrix-exponential', 'returned %r, diag(expm(A)) = %r' % (np.asarray(cs).tolist(), exp.tolist()), wit)
    repeated = bool(np.any(np.diff(np.sort(lam)) < 1e-9))
    acc.case(key=('subgraph',) + ident, nontrivial=repeated, sample={'function': 'subgraph_centrality', 'CIJ': A.tolist(), 'repeated_eigenvalue': repeated})


def check_eigenvector(acc, A, ident):
    n = len(A)
    Ain = A.copy()
    wit = {'function': 'eigenvector_centrality_und', 'CIJ': A.tolist(), 'dtype': str(A.dtype)}
    try:
        v = bct.eigenvector_centrality_und(A)
    except bct.BCTParamError:
        return
    except Exception as e:
        _raise(acc, 'eigenvector_centrality_und', e, wit)
        acc.case()
        return
    if not np.array_equal(A, Ain):
        acc.violate('eigenvector_centrality_und/FRAME-argument-unchanged', 'argument modified', wit)
    lmax = float(np.linalg.eigvalsh(np.asarray(Ain, dtype=float))[-1])
    vv = _finite_real(v)
    if vv is None or vv.shape != (n,):
        acc.violate('eigenvector_centrality_und/POST-finite-real-vector', 'result %r' % (np.asarray(v).tolist(),), wit)
    else:
        if np.any(vv < 0):
            acc.violate('eigenvector_centrality_und/POST-non-negative', 'v = %r' % (vv.tolist(),), wit)
        if abs(np.linalg.norm(vv) - 1) > TOL:
            acc.violate('eigenvector_centrality_und/POST-unit-norm', '|v| = %r' % (float(np.linalg.norm(vv)),), wit)
        res = float(np.abs(np.asarray(Ain, dtype=float) @ vv - lmax * vv).max()) / max(1.0, abs(lmax))
        if not res <= TOL:
            acc.violate('eigenvector_centrality_und/POST-A-v-equals-lambda-max-v', 'residual %.3g with lambda_max = %r, v = %r' % (res, lmax, vv.tolist()), wit)
    deg = np.asarray(Ain, dtype=float).sum(axis=0)
    acc.case(key=('eigvec',) + ident, nontrivial=len(set(np.round(deg, 12))) > 1, sample={'function': 'eigenvector_centrality_und', 'CIJ': A.tolist()})


def check_findwalks(acc, A, ident):
    n = len(A)
    Ain = A.copy()
    wit = {'function': 'findwalks', 'CIJ': A.tolist(), 'dtype': str(A.dtype)}
    try:
        Wq, twalk, wlq = bct.findwalks(A)
    except bct.BCTParamError:
        return
    except Exception as e:
        _raise(acc, 'findwalks', e, wit)
        acc.case()
        return
    if not np.array_equal(A, Ain):
        acc.violate('findwalks/FRAME-argument-unchanged', 'argument modified', wit)
    Wq = np.asarray(Wq)
    B = (np.asarray(Ain) != 0).astype(np.int64)
    if Wq.ndim != 3 or Wq.shape[:2] != (n, n) or Wq.shape[2] < n:
        acc.violate('findwalks/POST-Wq-shape', 'Wq has shape %r, expected (n, n, n) so that lengths 1..n-1 are stored' % (Wq.shape,), wit)
    else:
        Pw = np.eye(n, dtype=np.int64)
        for q in range(1, n):
            Pw = Pw @ B
            if not np.array_equal(Wq[:, :, q], Pw):
                acc.violate('findwalks/POST-slice-q-is-qth-power', 'Wq[:,:,%d] = %r, CIJ^%d = %r' % (q, Wq[:, :, q].tolist(), q, Pw.tolist()), wit)
                break
        if not np.isclose(float(twalk), float(Wq.sum()), rtol=1e-12, atol=0):
            acc.violate('findwalks/POST-twalk-is-total', 'twalk %r, sum of Wq %r' % (twalk, float(Wq.sum())), wit)
        if np.shape(wlq) != (Wq.shape[2],) or not np.allclose(np.asarray(wlq, dtype=float), Wq.sum(axis=(0, 1)), rtol=1e-12, atol=0):
            acc.violate('findwalks/POST-wlq-is-sum-per-length', 'wlq %r, per-length sums %r' % (np.asarray(wlq).tolist(), Wq.sum(axis=(0, 1)).tolist()), wit)
    acc.case(key=('findwalks',) + ident, nontrivial=n >= 3 and bool(B.any()), sample={'function': 'findwalks', 'CIJ': A.tolist()})


# ---------------------------------------------------------------------------------------------- workers
def _fs(n, connected):
    fs = [None, list(range(1, n + 1))]
    if connected and n >= 2:
        fs.append([1] + [0] * (n - 1))        # non-negative with zeros: still positive r on a (strongly) connected graph
    return fs


def worker_und(task):
    n, bitlist, dtype = task
    acc = Acc()
    for bits in bitlist:
        A = G.und_from_bits(n, bits, dtype=dtype)
        ident = ('und', n, bits, str(np.dtype(dtype)))
        check_findwalks(acc, A, ident)
        check_subgraph(acc, A, ident)
        if not G.is_connected_und(A):
            continue
        variants = [(A, ident)]
        if dtype is float:
            for pi, pal in enumerate(PALETTES):
                variants.append((G.weight_by_position(A, palette=pal, symmetric=True), ident + ('w%d' % pi,)))
        for W, idn in variants:
            check_mfpt(acc, W, idn)
            check_pagerank(acc, W, idn, _fs(n, True))
            check_eigenvector(acc, W, idn)
            if W is not A:
                check_subgraph(acc, W, idn)
                check_findwalks(acc, W, idn)
    return acc


def worker_dir(task):
    n, bitlist, dtype = task
    acc = Acc()
    for bits in bitlist:
        A = G.dir_from_bits(n, bits, dtype=dtype)
        ident = ('dir', n, bits, str(np.dtype(dtype)))
        check_findwalks(acc, A, ident)
        if not G.is_strongly_connected(A):
            continue
        variants = [(A, ident)]
        if dtype is float:
            for pi, pal in enumerate(PALETTES):
                variants.append((G.weight_by_position(A, palette=pal, symmetric=False), ident + ('w%d' % pi,)))
        for W, idn in variants:
            check_mfpt(acc, W, idn)
            check_pagerank(acc, W, idn, _fs(n, True))
    return acc


def _block(*Ms):
    n = sum(len(m) for m in Ms)
    R = np.zeros((n, n))
    o = 0
    for m in Ms:
        R[o:o + len(m), o:o + len(m)] = m
        o += len(m)
    return R


def named_inputs():
    ng = G.named_graphs()
    conn = {k: v for k, v in ng.items() if G.is_connected_und(v)}
    disj = {k: v for k, v in ng.items() if not G.is_connected_und(v)}
    disj['2xC4'] = _block(ng['C4'], ng['C4'])
    disj['C3+C5'] = _block(ng['C3'], ng['C5'])
    disj['2xK33'] = _block(ng['K33'], ng['K33'])
    disj['K4+C6'] = _block(ng['K4'], ng['C6'])
    disj['3xK2'] = _block(*[np.array([[0., 1.], [1., 0.]])] * 3)
    # components of different size in both orders, and an isolated node first: the leading eigenvector is then zero on whole
    # components (in particular at node 0), which a sign convention based on one entry does not survive
    K2 = np.array([[0., 1.], [1., 0.]])
    disj['K2+K3'] = _block(K2, ng['C3'])
    disj['K3+K2'] = _block(ng['C3'], K2)
    disj['K1+K3'] = _block(np.zeros((1, 1)), ng['C3'])
    disj['C4+K4'] = _block(ng['C4'], ng['K4'])
    return conn, disj


def worker_named(task):
    acc = Acc()
    conn, disj = named_inputs()
    for name, A in conn.items():
        n = len(A)
        perm = np.random.RandomState(len(name) + n).permutation(n)
        for tag, M in (('', A), ('perm', A[np.ix_(perm, perm)]), ('w', G.weight_by_position(A, palette=PALETTES[1], symmetric=True))):
            ident = ('named', name, tag)
            check_findwalks(acc, M, ident)
            check_subgraph(acc, M, ident)
            check_mfpt(acc, M, ident)
            check_pagerank(acc, M, ident, _fs(n, True))
            check_eigenvector(acc, M, ident)
    for name, A in disj.items():
        n = len(A)
        perm = np.random.RandomState(len(name) + n).permutation(n)
        for tag, M in (('', A), ('perm', A[np.ix_(perm, perm)])):
            ident = ('disjoint', name, tag)
            check_findwalks(acc, M, ident)
            check_subgraph(acc, M, ident)
            if np.all(M.sum(axis=0) > 0):          # PageRank is specified for networks without dangling nodes
                check_pagerank(acc, M, ident, _fs(n, False))
            # (for a disconnected graph |v| of any eigenvector of lambda_max is again one: on every component v is a multiple of
            # that component's Perron vector or zero)
            check_eigenvector(acc, M, ident)
    return acc


def worker_random(task):
    seed, count = task
    rng = np.random.RandomState(seed)
    acc = Acc()
    for c in range(count):
        n = int(rng.randint(6, 11))
        for _ in range(50):
            A = G.random_und(rng, n, rng.uniform(.25, .8), weights=None if rng.rand() < .5 else [.5, 1., 2., 3.])
            if G.is_connected_und(A):
                break
        else:
            continue
        ident = ('rnd-und', seed, c)
        check_findwalks(acc, A, ident)
        check_subgraph(acc, A, ident)
        check_mfpt(acc, A, ident)
        check_pagerank(acc, A, ident, _fs(n, True))
        check_eigenvector(acc, A, ident)
        for _ in range(50):
            B = G.random_dir(rng, n, rng.uniform(.25, .8), weights=None if rng.rand() < .5 else [.5, 1., 2., 3.])
            if G.is_strongly_connected(B):
                break
        else:
            continue
        ident = ('rnd-dir', seed, c)
        check_findwalks(acc, B, ident)
        check_mfpt(acc, B, ident)
        check_pagerank(acc, B, ident, _fs(n, True))
    return acc


def chunks(lst, k):
    k = max(1, k)
    return [lst[i::k] for i in range(k) if lst[i::k]]


def run_bounded(run, tier, seed):
    thorough = tier == 'thorough'
    nU = 6 if thorough else 5
    nD = 4
    run.bounded_part('undirected-exhaustive',
                     bounds={'graphs': 'all labelled simple undirected graphs n = 2..%d: findwalks and subgraph_centrality on all of them; the connected ones, binary (float; int for n <= 4) and with '
                                       'position-dependent weights from %r and %r, for mean_first_passage_time, diffusion_efficiency, pagerank_centrality, eigenvector_centrality_und '
                                       '(and again subgraph_centrality / findwalks)' % (nU, list(PALETTES[0]), list(PALETTES[1])),
                             'd': [.5, .85], 'falff': 'None, (1..n), (1,0,..,0)', 'tolerance': TOL},
                     rule='one case = (measure, network, parameters); non-trivial: n >= 3 (walk measures), repeated eigenvalue (subgraph centrality), non-regular graph (eigenvector centrality), '
                          'non-regular graph or non-uniform falff (PageRank), n >= 3 with an edge (findwalks); distinct by (measure, class, n, edge bits, dtype, weighting, d, falff)',
                     exhaustive=True)
    tasks = []
    for n in range(2, nU + 1):
        allb = list(range(G.n_und(n)))
        for ch in chunks(allb, 64 if n >= 6 else (16 if n == 5 else 2)):
            tasks.append((n, ch, float))
        if n <= 4:
            tasks.append((n, allb, int))
    merge_all(run, 'undirected-exhaustive', pmap(worker_und, tasks))
    run.bounded_part('directed-exhaustive',
                     bounds={'graphs': 'all labelled simple digraphs n = 2..%d: findwalks on all; the strongly connected ones, binary (float; int for n <= 3) and weighted by position, '
                                       'for mean_first_passage_time, diffusion_efficiency, pagerank_centrality' % nD, 'd': [.5, .85], 'falff': 'None, (1..n), (1,0,..,0)'},
                     rule='as above', exhaustive=True)
    tasks = []
    for n in range(2, nD + 1):
        allb = list(range(G.n_dir(n)))
        for ch in chunks(allb, 32 if n == 4 else 2):
            tasks.append((n, ch, float))
        if n <= 3:
            tasks.append((n, allb, int))
    merge_all(run, 'directed-exhaustive', pmap(worker_dir, tasks))
    conn, disj = named_inputs()
    run.bounded_part('named-symmetric-graphs',
                     bounds={'connected': sorted(conn), 'disjoint_unions': sorted(disj),
                             'variants': 'as listed, under a fixed random renumbering, and (connected ones) with position-dependent weights',
                             'measures': 'connected: all six; disjoint unions: findwalks, subgraph_centrality, pagerank_centrality (falff None and (1..n))'},
                     rule='as above (these are the graphs with repeated eigenvalues / periodic walks)', exhaustive=True)
    merge_all(run, 'named-symmetric-graphs', pmap(worker_named, [0]))
    per, nt = (30, 32) if thorough else (10, 16)
    run.bounded_part('random-n6-10', bounds={'n': '6..10', 'networks': '%d connected undirected and %d strongly connected directed, binary or weighted from {.5,1,2,3}' % (per * nt, per * nt)},
                     rule='seeded (VERIF_SEED) random networks; as above', exhaustive=False)
    merge_all(run, 'random-n6-10', pmap(worker_random, [(seed * 15485863 + 101 * t + 3, per) for t in range(nt)]))
