"""Bounded stand-in harness shared by C01, C06 and C11: the rewiring contracts executed on the real functions.

The loop invariants of contracts/reference.py (edge list <-> matrix correspondence, degrees, weight multiset, diagonal,
symmetry, lattice cost, mask, connectivity) are woven in at the head of the rewiring loop of the *real* function
(engine/weave.py: AST of the file in /repo, nothing removed) and the postconditions are evaluated on the returned values.
Random draws come from a scripted generator, so 'all seeds' becomes 'all choice scripts up to a depth'.
"""
import numpy as np
import bct
import bct.algorithms.reference as ref
from engine import weave as W
from engine.graphs import is_connected_und, is_strongly_connected

ROUTINES = {
    # name: (kind, loop header where the invariant is checked, matrix var, edge-list vars, k var, lattice?, connected?)
    'randmio_und': dict(kind='und', loop='while att <= max_attempts', mat='R', k='k'),
    'randmio_dir': dict(kind='dir', loop='while att <= max_attempts', mat='R', k='k'),
    'randmio_und_connected': dict(kind='und', loop='while att <= max_attempts', mat='R', k='k', conn=True),
    'randmio_dir_connected': dict(kind='dir', loop='while att <= max_attempts', mat='R', k='k', conn=True),
    'latmio_und': dict(kind='und', loop='while att <= max_attempts', mat='R', k='k', latt=True),
    'latmio_dir': dict(kind='dir', loop='while att <= max_attempts', mat='R', k='k', latt=True),
    'latmio_und_connected': dict(kind='und', loop='while att <= max_attempts', mat='R', k='k', latt=True, conn=True),
    'latmio_dir_connected': dict(kind='dir', loop='while att <= max_attempts', mat='R', k='k', latt=True, conn=True),
    'randomize_graph_partial_und': dict(kind='und', loop='while nswap < maxswap', mat='A', k='m', mask=True),
}

_STATE = {}
_WOVEN = {}


class Mon:
    def __init__(self, spec, D=None, B=None, check_conn=False):
        self.spec, self.D, self.B, self.check_conn = spec, D, B, check_conn
        self.first = None
        self.fail = []          # (clause, detail)
        self.steps = 0
        self.changes = 0
        self.prev = None
        self.cost0 = None

    def bad(self, clause, detail):
        if not any(c == clause for c, _ in self.fail):
            self.fail.append((clause, detail))

    def __call__(self, R, i, j, k, D=None):
        und = self.spec['kind'] == 'und'
        self.steps += 1
        if self.first is None:
            self.first = R.copy()
            self.prev = R.copy()
            self.deg_out0 = (R != 0).sum(1)
            self.deg_in0 = (R != 0).sum(0)
            self.ws0 = np.sort(R[R != 0])
            if D is not None:
                self.cost0 = float(np.sum(D * R))
                self.costprev = self.cost0
        k = int(k)
        ii, jj = np.asarray(i[:k]), np.asarray(j[:k])
        # I1: the edge list names present connections
        if not np.all(R[ii, jj] != 0):
            self.bad('I1-edge-list-names-present-edges', 'edge list entry points at an empty cell')
        # I2/I3: 1-1 correspondence
        if und:
            prs = set((min(a, b), max(a, b)) for a, b in zip(ii.tolist(), jj.tolist()))
            if len(prs) != k or int(np.count_nonzero(R)) != 2 * k:
                self.bad('I2I3-edge-list-bijective', 'edge list is not in 1-1 correspondence with the connections')
            if not np.array_equal(R, R.T):
                self.bad('SYM-symmetric', 'matrix not symmetric at loop head')
        else:
            prs = set(zip(ii.tolist(), jj.tolist()))
            if len(prs) != k or int(np.count_nonzero(R)) != k:
                self.bad('I2I3-edge-list-bijective', 'edge list is not in 1-1 correspondence with the connections')
        if np.any(np.diag(R) != 0):
            self.bad('I4-no-self-connection', 'self-connection present at loop head')
        if not (np.array_equal((R != 0).sum(1), self.deg_out0) and np.array_equal((R != 0).sum(0), self.deg_in0)):
            self.bad('D-degrees', 'degree sequence changed during rewiring')
        if not np.array_equal(np.sort(R[R != 0]), self.ws0):
            self.bad('W-weight-multiset', 'multiset of weights changed during rewiring')
        if not und and not np.allclose(R.sum(1), self.first.sum(1)):
            self.bad('W-out-strength', 'out-strength changed during rewiring')
        changed = not np.array_equal(R, self.prev)
        if changed:
            self.changes += 1
        # C11 clauses
        if D is not None:
            cost = float(np.sum(D * R))
            if cost > self.costprev + 1e-9:
                self.bad('LATT-cost-nonincreasing', 'sum(D*R) rose from %r to %r in one swap' % (self.costprev, cost))
            self.costprev = cost
        if self.B is not None:
            if np.any((R != 0) & (self.first == 0) & (self.B != 0)):
                self.bad('MASK-no-connection-in-masked-cell', 'a connection was created where the mask is nonzero')
        if self.check_conn and changed:
            okc = is_connected_und(R) if und else is_strongly_connected(R)
            if not okc:
                self.bad('CONN-connected-after-swap', 'network is not (strongly) connected after an accepted swap')
        if changed:
            self.prev = R.copy()


def _mon(*a, **kw):
    m = _STATE.get('mon')
    if m is not None:
        m(*a, **kw)


def woven(name):
    if name not in _WOVEN:
        spec = ROUTINES[name]
        f = W.unwrap(getattr(ref, name))
        code = '__mon(%s, i, j, %s%s)' % (spec['mat'], spec['k'], ', D' if spec.get('latt') else '')
        _WOVEN[name] = W.weave(ref, name, inserts=[{'where': 'loop_head', 'key': spec['loop'], 'code': code},
                                                   {'where': 'after', 'key': spec['loop'], 'code': code}],
                               hooks={'__mon': _mon})
    return _WOVEN[name]


def call(name, R, budget, rng, D=None, B=None, check_conn=False):
    """Runs the woven real routine; returns (result or exception, Mon)."""
    spec = ROUTINES[name]
    mon = Mon(spec, D=D, B=B, check_conn=check_conn)
    _STATE['mon'] = mon
    f = woven(name)
    try:
        if spec.get('mask'):
            res = f(R, B, budget, seed=rng)
        elif spec.get('latt'):
            res = f(R, budget, D=D, seed=rng)
        else:
            res = f(R, budget, seed=rng)
    finally:
        _STATE['mon'] = None
    return res, mon


def post_c01(name, Rin, res, budget, mon):
    """Postconditions of C01 taken from the property statement; returns list of (clause, detail)."""
    spec = ROUTINES[name]
    und = spec['kind'] == 'und'
    out = []
    eff = None
    if spec.get('mask'):
        Rout = res
    elif spec.get('latt'):
        Rout, Rrp, ind_rp, eff = res
    else:
        Rout, eff = res
    Rout = np.asarray(Rout)
    if Rout.shape != Rin.shape:
        return [('SHAPE', 'output shape %r' % (Rout.shape,))]
    if not np.array_equal((Rout != 0).sum(1), (Rin != 0).sum(1)):
        out.append(('POST-out-degree', 'out-degree of some node differs under the caller\'s numbering'))
    if not np.array_equal((Rout != 0).sum(0), (Rin != 0).sum(0)):
        out.append(('POST-in-degree', 'in-degree of some node differs under the caller\'s numbering'))
    if not np.array_equal(np.sort(Rout[Rout != 0]), np.sort(Rin[Rin != 0])):
        out.append(('POST-weight-multiset', 'multiset of connection weights differs'))
    if np.any((np.diag(Rout) != 0) & (np.diag(Rin) == 0)):
        out.append(('POST-no-new-self-connection', 'new self-connection'))
    if und and not np.array_equal(Rout, Rout.T):
        out.append(('POST-symmetric', 'output of an undirected routine is not symmetric'))
    if not und and not np.allclose(Rout.sum(1), Rin.sum(1)):
        out.append(('POST-out-strength', 'out-strength of some node differs'))
    zero = (budget == 0) or (eff is not None and eff == 0) or (spec.get('mask') and budget <= 0)
    if zero and not np.array_equal(Rout, Rin):
        out.append(('POST-zero-rewirings-identity', 'zero rewirings requested/reported but output differs from input'))
    if eff is not None and eff != mon.changes and not spec.get('latt'):
        pass
    if spec.get('latt'):
        ind = np.asarray(ind_rp)
        if sorted(ind.tolist()) != list(range(len(Rin))):
            out.append(('POST-ordering-is-permutation', 'returned node ordering is not a permutation'))
        elif not np.array_equal(np.asarray(Rrp), Rout[np.ix_(ind, ind)]):
            out.append(('POST-latt-reindex', 'Rrp is not Rlatt re-indexed by the returned node ordering'))
    return out


def has_two_disjoint_edges(R, und):
    n = len(R)
    es = [(a, b) for a in range(n) for b in range(n) if R[a, b] != 0 and (not und or a > b)]
    for x, (a, b) in enumerate(es):
        for (c, d) in es[x + 1:]:
            if len({a, b, c, d}) == 4:
                return True
    return False
