"""C16 bounded stand-in: get_components / number_of_components against an independent union-find oracle, and the
grouping against the finite entries of distance_bin, breadthdist and reachdist, over exhaustively enumerated small graphs."""
import numpy as np
import bct
from engine import graphs as G
from engine.par import pmap, Acc, merge_all

FN = 'get_components'


# ---- oracle (independent of bct) --------------------------------------------------------------------------------------
def oracle_components(A):
    """Union-find over the off-diagonal non-zero cells; returns root id per node (diagonal entries join nothing)."""
    n = len(A)
    parent = list(range(n))

    def find(a):
        while parent[a] != a:
            parent[a] = parent[parent[a]]
            a = parent[a]
        return a
    for i in range(n):
        for j in range(n):
            if i != j and (A[i, j] != 0 or A[j, i] != 0):
                ri, rj = find(i), find(j)
                if ri != rj:
                    parent[max(ri, rj)] = min(ri, rj)
    return np.array([find(i) for i in range(n)])


def same_matrix(lab):
    lab = np.asarray(lab)
    return lab[:, None] == lab[None, :]


def _wit(A, **kw):
    d = {'function': FN, 'A': np.asarray(A).tolist()}
    d.update(kw)
    return d


def check_graph(acc, A, cls, key):
    """All clauses of C16 for one symmetric matrix A."""
    n = len(A)
    Ain = A.copy()
    root = oracle_components(A)
    S = same_matrix(root)
    m_true = len(set(root.tolist()))
    sizes_true = {r: int(np.sum(root == r)) for r in set(root.tolist())}
    nontrivial = max(sizes_true.values()) >= 3
    acc.case(key=key, nontrivial=nontrivial, sample={'function': FN, 'A': Ain.tolist(), 'class': cls, 'components': m_true})
    try:
        comps, sizes = bct.get_components(A)
    except Exception as e:
        # symmetric input is in domain: BCTParamError here is a rejection of an input the property says must be accepted
        acc.violate('%s/RAISES-%s/%s' % (FN, type(e).__name__, cls), 'symmetric input raised %r' % (e,), _wit(Ain, cls=cls))
        return
    comps = np.asarray(comps)
    sizes = np.asarray(sizes)
    w = _wit(Ain, cls=cls, comps=comps.tolist(), comp_sizes=sizes.tolist(), oracle_roots=root.tolist())
    if comps.shape != (n,):
        acc.violate('%s/POST-one-label-per-node/%s' % (FN, cls), 'comps has shape %s for %d nodes' % (comps.shape, n), w)
        return
    C = same_matrix(comps)
    if not np.array_equal(C, S):
        i, j = map(int, np.argwhere(C != S)[0])
        acc.violate('%s/POST-same-label-iff-path/%s' % (FN, cls),
                    'nodes %d and %d: same label = %s but joined by a path = %s' % (i, j, bool(C[i, j]), bool(S[i, j])), w)
    labs = sorted(set(comps.tolist()))
    if labs != list(range(1, len(labs) + 1)) or any(int(x) != x for x in labs):
        acc.violate('%s/POST-labels-1..m/%s' % (FN, cls), 'labels used are %s' % (labs,), w)
    if len(sizes) != len(labs):
        acc.violate('%s/POST-one-size-per-label/%s' % (FN, cls), 'len(comp_sizes) = %d but %d labels' % (len(sizes), len(labs)), w)
    else:
        for l in range(1, len(sizes) + 1):
            if int(np.sum(comps == l)) != sizes[l - 1]:
                acc.violate('%s/POST-size-counts-label/%s' % (FN, cls),
                            'comp_sizes[%d] = %s but %d nodes carry label %d' % (l - 1, sizes[l - 1], int(np.sum(comps == l)), l), w)
                break
    # isolated nodes: components of size one
    off = (Ain != 0) & ~np.eye(n, dtype=bool)
    for v in np.where(~off.any(0) & ~off.any(1))[0]:
        l = comps[v]
        ok = int(np.sum(comps == l)) == 1 and 1 <= l <= len(sizes) and sizes[int(l) - 1] == 1
        if not ok:
            acc.violate('%s/POST-isolated-node-size-one/%s' % (FN, cls), 'isolated node %d is not a component of size one' % int(v), w)
            break
    if not np.array_equal(A, Ain):
        acc.violate('%s/FRAME-argument-unchanged/%s' % (FN, cls), 'the caller\'s matrix was modified', w)
    # number_of_components
    try:
        nc = bct.number_of_components(A)
        if nc != len(labs) or nc != m_true:
            acc.violate('number_of_components/POST-equals-number-of-labels/%s' % cls,
                        'number_of_components = %s, labels = %d, classes of mutually reachable nodes = %d' % (nc, len(labs), m_true), w)
    except Exception as e:
        acc.violate('number_of_components/RAISES-%s/%s' % (type(e).__name__, cls), 'symmetric input raised %r' % (e,), w)
    # grouping vs finite distances on the same network (binary pattern: the documented domain of the three distance routines)
    Bn = (Ain != 0).astype(float)
    offd = ~np.eye(n, dtype=bool)
    for name, call in (('distance_bin', lambda: bct.distance_bin(Bn)),
                       ('breadthdist', lambda: bct.breadthdist(Bn)[1]),
                       ('reachdist', lambda: bct.reachdist(Bn)[1])):
        try:
            D = np.asarray(call(), dtype=float)
        except Exception as e:
            acc.violate('%s/RAISES-%s/%s' % (name, type(e).__name__, cls), 'binary symmetric input raised %r' % (e,), w)
            continue
        F = np.isfinite(D)
        if D.shape != (n, n) or not np.array_equal(F[offd], C[offd]):
            bad = np.argwhere((F != C) & offd) if D.shape == (n, n) else []
            i, j = (map(int, bad[0]) if len(bad) else (-1, -1))
            ww = dict(w)
            ww['D'] = D.tolist()
            acc.violate('%s/POST-grouping-agrees-with-%s/%s' % (FN, name, cls),
                        'nodes %d,%d: same get_components label = %s, %s distance finite = %s'
                        % (i, j, bool(C[i, j]) if i >= 0 else None, name, bool(F[i, j]) if i >= 0 else None), ww)


# ---- input classes ---------------------------------------------------------------------------------------------------
def _hash(bits, salt):
    return ((bits + 1) * 2654435761 + salt * 40503) >> 3


def make_variant(n, bits, variant, dmask=None):
    A = G.und_from_bits(n, bits)
    if variant == 'binary':
        return A
    if variant == 'diag':          # binary with the given pattern of non-zero diagonal entries
        for i in range(n):
            if dmask >> i & 1:
                A[i, i] = 1.0
        return A
    if variant == 'weighted':      # weights by position, diagonal pattern derived from the graph, diagonal values weighted too
        W = G.weight_by_position(A, palette=(0.5, 2.0, 3.0, 7.25))
        h = _hash(bits, n)
        for i in range(n):
            if h >> i & 1:
                W[i, i] = (1.0, 0.25, 4.0)[i % 3]
        return W
    if variant == 'signed':        # as 'weighted', but half of the palette is negative: a negative weight is a connection too (binarize maps every non-zero to 1)
        W = G.weight_by_position(A, palette=(0.5, -2.0, 3.0, -7.25))
        h = _hash(bits, n)
        for i in range(n):
            if h >> i & 1:
                W[i, i] = (1.0, -0.25, 4.0)[i % 3]
        return W
    raise AssertionError(variant)


def worker(task):
    n, bitlist, variant, dmasks = task
    acc = Acc()
    for bits in bitlist:
        if variant == 'diag':
            for dm in (dmasks if dmasks is not None else [_hash(bits, 7) % (1 << n) or 1]):
                check_graph(acc, make_variant(n, bits, 'diag', dm), 'binary-nonzero-diagonal', (n, bits, 'diag', dm))
        else:
            check_graph(acc, make_variant(n, bits, variant), variant, (n, bits, variant))
    return acc


def worker_asym(task):
    """Asymmetric input must be rejected with BCTParamError."""
    n, bitlist, weighted = task
    acc = Acc()
    for bits in bitlist:
        A = G.dir_from_bits(n, bits)
        if weighted:
            # symmetric pattern allowed, asymmetry may sit in the weights only
            A = A * (1.0 + np.arange(n)[:, None] * 0.5)
        if np.array_equal(A, A.T):
            continue
        Ain = A.copy()
        cls = 'asymmetric-weights' if weighted else 'asymmetric-binary'
        acc.case(key=(n, bits, cls), nontrivial=True, sample={'function': FN, 'A': Ain.tolist(), 'class': cls})
        try:
            res = bct.get_components(A)
        except bct.BCTParamError:
            continue
        except Exception as e:
            acc.violate('%s/PRE-asymmetric-rejected/%s' % (FN, cls), 'asymmetric input raised %r instead of BCTParamError' % (e,), _wit(Ain, cls=cls))
            continue
        acc.violate('%s/PRE-asymmetric-rejected/%s' % (FN, cls), 'asymmetric input was accepted, returned %r' % (res,), _wit(Ain, cls=cls))
    return acc


# ---- random larger graphs --------------------------------------------------------------------------------------------
def _random_graph(rng, n, kind):
    A = np.zeros((n, n))
    if kind == 'sparse':
        A = G.random_und(rng, n, p=rng.uniform(0.3, 1.6) / n)
    elif kind == 'medium':
        A = G.random_und(rng, n, p=rng.uniform(0.1, 0.5))
    elif kind == 'forest':
        # random forest: each node (in random order) attaches to an earlier one with probability q
        order = rng.permutation(n)
        q = rng.uniform(0.4, 0.95)
        for t in range(1, n):
            if rng.random_sample() < q:
                u, v = order[t], order[rng.randint(t)]
                A[u, v] = A[v, u] = 1
    elif kind == 'paths':
        # one to three disjoint long paths with shuffled node numbering (each edge joins partial sets built far apart) + isolated nodes
        order = rng.permutation(n)
        iso = rng.randint(0, 3)
        nodes = order[:n - iso] if n - iso >= 2 else order
        cuts = sorted(rng.choice(np.arange(1, len(nodes)), size=min(len(nodes) - 1, rng.randint(0, 3)), replace=False).tolist()) if len(nodes) > 2 else []
        for t in range(len(nodes) - 1):
            if (t + 1) in cuts:
                continue
            u, v = nodes[t], nodes[t + 1]
            A[u, v] = A[v, u] = 1
    elif kind == 'stars':
        # matching first, hubs joined late: pairs (2i, 2i+1) then a few edges between pairs in shuffled numbering
        order = rng.permutation(n)
        for t in range(0, n - 1, 2):
            A[order[t], order[t + 1]] = A[order[t + 1], order[t]] = 1
        for _ in range(rng.randint(0, n // 2 + 1)):
            u, v = rng.choice(n, 2, replace=False)
            A[u, v] = A[v, u] = 1
    style = rng.randint(4)
    if style >= 1:      # non-zero diagonal on some nodes
        for i in range(n):
            if rng.random_sample() < 0.4:
                A[i, i] = 1.0
    if style == 2:      # weights (symmetric)
        Wt = rng.choice([0.5, 1.0, 2.0, 3.5, 10.0], size=(n, n))
        Wt = np.triu(Wt) + np.triu(Wt, 1).T
        A = A * Wt
    if style == 3:      # signed weights (symmetric): negative weights are connections as well
        Wt = rng.choice([0.5, -1.0, 2.0, -3.5, -10.0], size=(n, n))
        Wt = np.triu(Wt) + np.triu(Wt, 1).T
        A = A * Wt
    return A, ('binary', 'binary-nonzero-diagonal', 'weighted', 'signed-weighted')[style]


def worker_random(task):
    seed, count, nlo, nhi = task
    rng = np.random.RandomState(seed)
    acc = Acc()
    kinds = ('sparse', 'medium', 'forest', 'paths', 'stars')
    for c in range(count):
        n = int(rng.randint(nlo, nhi + 1))
        kind = kinds[c % len(kinds)]
        A, style = _random_graph(rng, n, kind)
        check_graph(acc, A, 'random-%s-%s' % (kind, style), (seed, c))
    return acc


def chunks(lst, k):
    k = max(1, k)
    return [lst[i::k] for i in range(k) if lst[i::k]]


def run_bounded(run, tier, seed):
    thorough = tier == 'thorough'
    nmax = 6 if thorough else 5
    part = 'components-all-small-graphs'
    run.bounded_part(
        part,
        bounds={'graphs': 'ALL labelled undirected graphs with n = 1..%d nodes (2^(n(n-1)/2) each; %d at n = %d), which includes all forests and all graphs with isolated nodes, '
                          'and every order in which get_components can meet the edges of a graph on <= %d nodes' % (6, G.n_und(6), 6, 6),
                'variants': 'binary with empty diagonal (n <= 6); binary with non-zero diagonal (n <= 4: all 2^n - 1 non-empty diagonal patterns, n = 5..%d: one pattern per graph derived from the graph); '
                            'weighted by position from {0.5, 2, 3, 7.25} with weighted diagonal entries on a derived node subset (n <= %d); signed weights by position from {0.5, -2, 3, -7.25} '
                            'with signed diagonal entries (n <= %d)' % (nmax, nmax, nmax),
                'distance routines': 'distance_bin, breadthdist, reachdist called on the binary pattern (A != 0) of the same matrix; off-diagonal cells compared'},
        rule='one case = one matrix; clauses: same label iff joined by a path (own union-find), labels exactly 1..m, comp_sizes[l-1] = #nodes labelled l, isolated nodes have size one, '
             'number_of_components = #labels, off-diagonal finite distance iff same label; non-trivial = some component has >= 3 nodes (partial sets had to be merged); distinct by (n, graph, variant, diagonal pattern)',
        exhaustive=True)
    tasks = []
    for n in range(1, 7):
        allb = list(range(G.n_und(n)))
        nch = 1 if n <= 3 else (4 if n == 4 else (16 if n == 5 else 64))
        for ch in chunks(allb, nch):
            tasks.append((n, ch, 'binary', None))
            if n <= nmax:
                tasks.append((n, ch, 'weighted', None))
                tasks.append((n, ch, 'signed', None))
                tasks.append((n, ch, 'diag', list(range(1, 1 << n)) if n <= 4 else None))
    merge_all(run, part, pmap(worker, tasks))

    part = 'asymmetric-input-rejected'
    na = 4 if thorough else 3
    run.bounded_part(part, bounds={'graphs': 'ALL labelled directed 0/1 graphs with n = 2..%d nodes that are not symmetric, and the same patterns with row-dependent weights (pattern may be symmetric, weights not)' % na},
                     rule='one case = one asymmetric matrix; get_components must raise BCTParamError; distinct by (n, digraph, class)', exhaustive=True)
    tasks = []
    for n in range(2, na + 1):
        for ch in chunks(list(range(G.n_dir(n))), 1 if n <= 3 else 16):
            tasks.append((n, ch, False))
            tasks.append((n, ch, True))
    merge_all(run, part, pmap(worker_asym, tasks))

    if thorough:
        part = 'components-n7-sampled'
        ns = 160000
        run.bounded_part(part, bounds={'graphs': '%d of the 2097152 labelled undirected graphs with n = 7 nodes (seeded sample without replacement), binary, empty diagonal' % ns},
                         rule='same clauses as the exhaustive part; non-trivial = some component has >= 3 nodes; distinct by graph', exhaustive=False)
        rs = np.random.RandomState(seed + 77)
        bits7 = sorted(set(int(b) for b in rs.randint(0, G.n_und(7), size=ns + ns // 8)))[:ns]
        merge_all(run, part, pmap(worker, [(7, ch, 'binary', None) for ch in chunks(bits7, 128)]))

    part = 'components-random-larger'
    cnt = 400 if thorough else 120
    run.bounded_part(part, bounds={'n': '7..12', 'cases': 16 * cnt,
                                   'kinds': 'sparse G(n,p) with p*n in [0.3,1.6]; G(n,p) p in [0.1,0.5]; random forests; 1-3 disjoint long paths with shuffled node numbering plus isolated nodes; '
                                            'perfect matching joined late by random edges; each binary / with non-zero diagonal / weighted / signed-weighted'},
                     rule='seeded random matrices (VERIF_SEED); same clauses as the exhaustive part; non-trivial = some component has >= 3 nodes', exhaustive=False)
    merge_all(run, part, pmap(worker_random, [(seed * 7919 + 100 + t, cnt, 7, 12) for t in range(16)]))
