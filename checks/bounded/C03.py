"""C03 bounded stand-in: the distance routines against an independent min-plus closure / BFS oracle (paths_oracle.py).

Contract evaluated on the real functions (bounded, never counted as proved):
  distance_bin, distance_wei, distance_wei_floyd (None / 'inv' / 'log'), breadthdist, reachdist
      D[s, t] = minimum total length over all paths for s != t, inf exactly when t is unreachable from s,
      flag R[s, t] <=> D[s, t] finite (s != t), 0 on the diagonal of distance_*,
      hop outputs (B of distance_wei, hops of distance_wei_floyd) = number of edges of SOME minimum-length path,
      pairwise agreement of the routines on inputs that are in the domain of both;
  charpath, efficiency_bin, efficiency_wei (global), rout_efficiency
      = mean and mean inverse of these distances over ordered pairs of distinct nodes.
breadthdist / reachdist put the length of the shortest cycle through a node on the diagonal: only off-diagonal entries are
compared for them (the property speaks about ordered pairs of distinct nodes).
"""
import numpy as np
import bct
from engine import graphs as G
from engine.par import pmap, Acc, merge_all
from checks.bounded import paths_oracle as O

PALETTES = ((1.0, 2.0, 3.0), (2.0, 1.0, 1.0), (3.0, 1.0, 2.0))     # lengths by position: exact ties 1+1=2, 1+2=3, ...
W01_PALETTE = (1.0, 0.5, 0.25)                                     # weights in (0,1]: 'inv' lengths 1,2,4 ; 'log' 0, ln2, 2 ln2


def _try(acc, name, wit, f, *a, **k):
    try:
        return True, f(*a, **k)
    except bct.BCTParamError:
        return False, None
    except Exception as e:      # in-domain input must be accepted
        acc.violate('%s/RAISES-%s' % (name, type(e).__name__), 'in-domain input raised %r' % (e,), dict(wit, function=name))
        return False, None


def _offd(n):
    return ~np.eye(n, dtype=bool)


def _means(D):
    """(mean, mean inverse) of D over ordered pairs of distinct nodes."""
    v = np.asarray(D, dtype=float)[_offd(len(D))]
    with np.errstate(divide='ignore'):
        return float(np.mean(v)), float(np.mean(1.0 / v))


def _dist_clauses(acc, name, Dout, Dtrue, wit, offdiag_only=False, diag_zero=True, suffix=''):
    Dout = np.asarray(Dout, dtype=float)
    if Dout.shape != Dtrue.shape:
        acc.violate('%s/POST-shape%s' % (name, suffix), 'distance output has shape %r' % (Dout.shape,), dict(wit, function=name))
        return False
    pat, val = O.same_matrix(Dout, Dtrue, offdiag_only=True)
    if not pat:
        acc.violate('%s/POST-inf-iff-unreachable%s' % (name, suffix), 'an off-diagonal entry is infinite for a reachable pair or finite/nan for an unreachable pair',
                    dict(wit, function=name, returned=Dout.tolist(), expected=Dtrue.tolist()))
    if not val:
        acc.violate('%s/POST-min-length%s' % (name, suffix), 'an off-diagonal entry is not the minimum total path length',
                    dict(wit, function=name, returned=Dout.tolist(), expected=Dtrue.tolist()))
    if diag_zero and not offdiag_only and not np.all(np.diag(Dout) == 0):
        acc.violate('%s/POST-diagonal-zero%s' % (name, suffix), 'diagonal of the distance matrix is not 0', dict(wit, function=name, returned=Dout.tolist()))
    return pat and val


def _flag_clause(acc, name, R, Dout, Dtrue, wit):
    n = len(Dtrue)
    m = _offd(n)
    R = np.asarray(R)
    if R.shape != Dtrue.shape:
        acc.violate('%s/POST-shape' % name, 'reachability output has shape %r' % (R.shape,), dict(wit, function=name))
        return
    if not np.array_equal((R != 0)[m], np.isfinite(np.asarray(Dout, dtype=float))[m]):
        acc.violate('%s/POST-flag-iff-finite' % name, 'reachability flag differs from finiteness of the returned distance for some s != t',
                    dict(wit, function=name, R=R.tolist(), D=np.asarray(Dout, dtype=float).tolist()))
    if not np.array_equal((R != 0)[m], np.isfinite(Dtrue)[m]):
        acc.violate('%s/POST-flag-iff-reachable' % name, 'reachability flag differs from true reachability for some s != t',
                    dict(wit, function=name, R=R.tolist(), expected_D=Dtrue.tolist()))


def _hops_clause(acc, name, hops, Dtrue, H, wit, suffix=''):
    n = len(Dtrue)
    hops = np.asarray(hops, dtype=float)
    for s in range(n):
        for t in range(n):
            if s == t or not np.isfinite(Dtrue[s, t]):
                continue
            h = hops[s, t]
            ok = np.isfinite(h) and h == int(h) and 0 <= int(h) < n and bool(H[int(h), s, t])
            if not ok:
                acc.violate('%s/POST-hops-of-some-min-path%s' % (name, suffix),
                            'edge count %r reported for (%d,%d) but no minimum-length path has that many edges (possible: %r)'
                            % (h, s, t, [k for k in range(n) if H[k, s, t]]), dict(wit, function=name, hops=hops.tolist(), s=s, t=t))
                return


def _agree(acc, outs, wit):
    """outs: list of (label, function name, D) computed by bct on inputs denoting the same length matrix."""
    for a in range(len(outs)):
        for b in range(a + 1, len(outs)):
            la, fa, Da = outs[a]
            lb, fb, Db = outs[b]
            if Da.shape != Db.shape or not all(O.same_matrix(Da, Db, offdiag_only=True)):
                acc.violate('%s/AGREE-%s' % (fa, lb), '%s and %s differ on an input in the domain of both (off-diagonal entries)' % (la, lb),
                            dict(wit, function=fa, other=lb, D_a=np.asarray(Da).tolist(), D_b=np.asarray(Db).tolist()))


def _scalar_eq(a, b):
    try:
        a = float(a)
        b = float(b)
    except Exception:
        return False
    return bool(O.close(a, b))


def _charpath(acc, Dtrue, wit):
    n = len(Dtrue)
    lam, eff = _means(Dtrue)
    ok, r = _try(acc, 'charpath', wit, bct.charpath, Dtrue.copy())
    if ok:
        if not _scalar_eq(r[0], lam):
            acc.violate('charpath/POST-lambda-is-mean-distance', 'lambda = %r, mean distance over ordered pairs of distinct nodes = %r' % (r[0], lam),
                        dict(wit, function='charpath', D=Dtrue.tolist()))
        if not _scalar_eq(r[1], eff):
            acc.violate('charpath/POST-efficiency-is-mean-inverse-distance', 'efficiency = %r, mean inverse distance = %r' % (r[1], eff),
                        dict(wit, function='charpath', D=Dtrue.tolist()))
    fin = Dtrue[_offd(n) & np.isfinite(Dtrue)]
    if fin.size and fin.size < n * n - n:      # documented option: mean over reachable pairs only
        ok, r = _try(acc, 'charpath', wit, bct.charpath, Dtrue.copy(), include_infinite=False)
        if ok:
            with np.errstate(divide='ignore'):
                e2 = float(np.mean(1.0 / fin))
            if not _scalar_eq(r[0], float(np.mean(fin))) or not _scalar_eq(r[1], e2):
                acc.violate('charpath/POST-mean-over-reachable-pairs', 'include_infinite=False: (lambda, efficiency) = %r, expected %r' % ((r[0], r[1]), (float(np.mean(fin)), e2)),
                            dict(wit, function='charpath', D=Dtrue.tolist(), include_infinite=False))


def _rout(acc, W, transform, Dtrue, wit, suffix):
    n = len(W)
    ok, r = _try(acc, 'rout_efficiency', wit, bct.rout_efficiency, W.copy(), transform=transform)
    if not ok:
        return
    if np.any(Dtrue[_offd(n)] == 0):
        # weight 1 under 'log' is a zero-length connection: the inverse of a zero distance is undefined, so the
        # mean-inverse clause has no antecedent here (bct returns -inf because -log(1.0) is -0.0; reported, not judged)
        return
    _, eff = _means(Dtrue)
    if not _scalar_eq(r[0], eff):
        acc.violate('rout_efficiency/POST-mean-inverse-distance' + suffix, 'GErout = %r, mean inverse distance = %r' % (r[0], eff),
                    dict(wit, function='rout_efficiency', transform=transform))
    with np.errstate(divide='ignore'):
        inv = 1.0 / Dtrue
    E = np.asarray(r[1], dtype=float)
    if E.shape != inv.shape or not all(O.same_matrix(E, inv, offdiag_only=True)):
        acc.violate('rout_efficiency/POST-pairwise-inverse-distance' + suffix, 'Erout is not 1/distance off the diagonal',
                    dict(wit, function='rout_efficiency', transform=transform, Erout=E.tolist(), expected=inv.tolist()))


def _floyd(acc, W, transform, wit, outs, label, rout=True):
    suffix = '/transform-%s' % transform
    L = O.lengths_from(W, transform)
    Dtrue = O.closure(L)
    ok, r = _try(acc, 'distance_wei_floyd', dict(wit, transform=transform), bct.distance_wei_floyd, W.copy(), transform)
    if ok:
        w2 = dict(wit, transform=transform)
        _dist_clauses(acc, 'distance_wei_floyd', r[0], Dtrue, w2, suffix=suffix)
        H = O.hop_sets(L, Dtrue)
        # 'log' lengths are irrational: minimum-length walks that tie over the reals are told apart by rounding noise only;
        # hop-count violations on such inputs carry the input class in their key (see paths_oracle.rounding_tie_class)
        hs = suffix + ('/rounding-tie' if transform == 'log' and O.rounding_tie_class(L, Dtrue, H) else '')
        _hops_clause(acc, 'distance_wei_floyd', r[1], Dtrue, H, w2, suffix=hs)
        outs.append((label, 'distance_wei_floyd', np.asarray(r[0], dtype=float)))
    if rout:
        _rout(acc, W, transform, Dtrue, wit, suffix)
    return L, Dtrue


def _stats(Dtrue, H):
    n = len(Dtrue)
    m = _offd(n)
    unreachable = bool(np.any(np.isinf(Dtrue[m])))
    multi = bool(np.any((H.sum(axis=0) > 1)[m]))
    interior = bool(np.any(H[2:][:, m])) if n > 2 else False
    return unreachable, multi, interior


# ---- one binary graph -----------------------------------------------------------------------------------------------------
def check_binary(acc, A, cls, part):
    n = len(A)
    wit = {'A': A.tolist(), 'class': cls}
    Dtrue = O.bfs_hops(A)
    L = O.lengths_from(A)
    H = O.hop_sets(L, Dtrue)
    outs = []
    ok, D = _try(acc, 'distance_bin', wit, bct.distance_bin, A.copy())
    if ok:
        _dist_clauses(acc, 'distance_bin', D, Dtrue, wit)
        outs.append(('distance_bin', 'distance_bin', np.asarray(D, dtype=float)))
    for name in ('breadthdist', 'reachdist'):
        ok, r = _try(acc, name, wit, getattr(bct, name), A.copy())
        if ok:
            _dist_clauses(acc, name, r[1], Dtrue, wit, offdiag_only=True)
            _flag_clause(acc, name, r[0], r[1], Dtrue, wit)
            outs.append((name, name, np.asarray(r[1], dtype=float)))
    ok, r = _try(acc, 'distance_wei', wit, bct.distance_wei, A.copy())
    if ok:
        _dist_clauses(acc, 'distance_wei', r[0], Dtrue, wit)
        _hops_clause(acc, 'distance_wei', r[1], Dtrue, H, wit)
        outs.append(('distance_wei', 'distance_wei', np.asarray(r[0], dtype=float)))
    _floyd(acc, A, None, wit, outs, 'distance_wei_floyd-None')
    _floyd(acc, A, 'inv', wit, outs, 'distance_wei_floyd-inv')       # 1/1 = 1: same length matrix
    _agree(acc, outs, wit)
    _, eff = _means(Dtrue)
    ok, e = _try(acc, 'efficiency_bin', wit, bct.efficiency_bin, A.copy())
    if ok and not _scalar_eq(e, eff):
        acc.violate('efficiency_bin/POST-mean-inverse-distance' + ('/directed' if cls == 'dir' else ''),
                    'efficiency_bin = %r, mean inverse hop distance = %r' % (e, eff), dict(wit, function='efficiency_bin'))
    ok, e = _try(acc, 'efficiency_wei', wit, bct.efficiency_wei, A.copy())            # weights 1 are in (0,1]
    if ok and not _scalar_eq(e, eff):
        acc.violate('efficiency_wei/POST-mean-inverse-distance' + ('/directed' if cls == 'dir' else ''),
                    'efficiency_wei = %r on 0/1 weights, mean inverse distance = %r' % (e, eff), dict(wit, function='efficiency_wei'))
    _charpath(acc, Dtrue, wit)
    unreachable, multi, interior = _stats(Dtrue, H)
    acc.case(key=(part, cls, n, A.tobytes()), nontrivial=interior or unreachable,
             sample={'kind': 'binary ' + cls, 'A': A.tolist(), 'unreachable_pair': unreachable, 'pair_at_2+_hops': interior})


# ---- one connection-length matrix (positive lengths, 0 = no connection) -----------------------------------------------------
def check_lengths(acc, Lw, cls, part, transforms=True, rout=True):
    n = len(Lw)
    wit = {'L': Lw.tolist(), 'class': cls}
    outs = []
    L, Dtrue = _floyd(acc, Lw, None, wit, outs, 'distance_wei_floyd-None', rout=rout)
    H = O.hop_sets(L, Dtrue)
    ok, r = _try(acc, 'distance_wei', wit, bct.distance_wei, Lw.copy())
    if ok:
        _dist_clauses(acc, 'distance_wei', r[0], Dtrue, wit)
        _hops_clause(acc, 'distance_wei', r[1], Dtrue, H, wit)
        outs.append(('distance_wei', 'distance_wei', np.asarray(r[0], dtype=float)))
    if transforms and np.all(Lw[Lw != 0] >= 1):
        nz = Lw != 0
        Winv = np.zeros_like(Lw)
        Winv[nz] = 1.0 / Lw[nz]                      # weights in (0,1] whose inverse is the length
        _, Dinv = _floyd(acc, Winv, 'inv', dict(wit, W=Winv.tolist()), outs, 'distance_wei_floyd-inv-of-reciprocal')
        Wlog = np.zeros_like(Lw)
        Wlog[nz] = np.exp(-Lw[nz])                   # weights in (0,1) whose -log is the length up to rounding
        _floyd(acc, Wlog, 'log', dict(wit, W=Wlog.tolist()), outs, 'distance_wei_floyd-log-of-exp-minus-L')
        _, eff = _means(Dinv)
        ok, e = _try(acc, 'efficiency_wei', dict(wit, W=Winv.tolist()), bct.efficiency_wei, Winv.copy())
        if ok and not _scalar_eq(e, eff):
            acc.violate('efficiency_wei/POST-mean-inverse-distance' + ('/directed' if cls == 'dir' else ''),
                        'efficiency_wei = %r, mean inverse distance over lengths 1/w = %r' % (e, eff), dict(wit, function='efficiency_wei', W=Winv.tolist()))
    _agree(acc, outs, wit)
    if rout:
        _charpath(acc, Dtrue, wit)
    unreachable, multi, interior = _stats(Dtrue, H)
    acc.case(key=(part, cls, n, Lw.tobytes()), nontrivial=interior or unreachable,
             sample={'kind': 'lengths ' + cls, 'L': Lw.tolist(), 'unreachable_pair': unreachable,
                     'min_paths_with_different_edge_counts': multi, 'pair_at_2+_hops': interior})


# ---- one weight matrix with weights in (0,1] (1 allowed: zero 'log' length) --------------------------------------------------
def check_weights01(acc, W, cls, part):
    n = len(W)
    wit = {'W': W.tolist(), 'class': cls}
    outs = []
    L, Dinv = _floyd(acc, W, 'inv', wit, outs, 'distance_wei_floyd-inv')
    H = O.hop_sets(L, Dinv)
    _floyd(acc, W, 'log', wit, [], 'distance_wei_floyd-log')
    _, eff = _means(Dinv)
    ok, e = _try(acc, 'efficiency_wei', wit, bct.efficiency_wei, W.copy())
    if ok and not _scalar_eq(e, eff):
        acc.violate('efficiency_wei/POST-mean-inverse-distance' + ('/directed' if cls == 'dir' else ''),
                    'efficiency_wei = %r, mean inverse distance over lengths 1/w = %r' % (e, eff), dict(wit, function='efficiency_wei'))
    unreachable, multi, interior = _stats(Dinv, H)
    acc.case(key=(part, cls, n, W.tobytes()), nontrivial=interior or unreachable,
             sample={'kind': 'weights(0,1] ' + cls, 'W': W.tolist(), 'unreachable_pair': unreachable, 'pair_at_2+_hops': interior})


# ---- workers ---------------------------------------------------------------------------------------------------------------
def _graph(cls, n, bits):
    return G.und_from_bits(n, bits) if cls == 'und' else G.dir_from_bits(n, bits)


weighted_from_index = O.weighted_from_index


def worker(task):
    kind = task[0]
    acc = Acc()
    if kind == 'bin':
        _, cls, n, bitlist = task
        for bits in bitlist:
            check_binary(acc, _graph(cls, n, bits), cls, 'bin')
    elif kind == 'pal':
        _, cls, n, bitlist = task
        for bits in bitlist:
            A = _graph(cls, n, bits)
            if not A.any():
                continue
            for pal in PALETTES:
                check_lengths(acc, G.weight_by_position(A, pal, symmetric=(cls == 'und')), cls, 'pal')
            check_weights01(acc, G.weight_by_position(A, W01_PALETTE, symmetric=(cls == 'und')), cls, 'pal')
    elif kind == 'exh':
        _, cls, n, values, idxs, transforms, rout = task
        for idx in idxs:
            check_lengths(acc, weighted_from_index(cls, n, values, idx), cls, 'exh', transforms=transforms, rout=rout)
    elif kind == 'rand':
        _, seed, count, nmax = task
        rng = np.random.RandomState(seed)
        for _ in range(count):
            n = int(rng.randint(5, nmax + 1))
            cls = 'und' if rng.rand() < .5 else 'dir'
            gen = G.random_und if cls == 'und' else G.random_dir
            p = rng.uniform(.15, .7)
            A = gen(rng, n, p=p)
            check_binary(acc, A, cls, 'rand')
            check_lengths(acc, gen(rng, n, p=p, weights=[1., 2., 3.]), cls, 'rand')
            check_lengths(acc, gen(rng, n, p=p, weights=[1., 1., 2., 4., 5.]), cls, 'rand')
            W = gen(rng, n, p=p)
            W = W * rng.uniform(0.05, 1.0, size=(n, n))
            if cls == 'und':
                W = np.triu(W, 1)
                W = W + W.T
            check_weights01(acc, W, cls, 'rand')
            check_weights01(acc, gen(rng, n, p=p, weights=list(W01_PALETTE)), cls, 'rand')
    return acc


def run_bounded(run, tier, seed):
    thorough = tier == 'thorough'
    rs = np.random.RandomState(seed)
    ch = O.chunks
    # oracle validation (dynamic programs vs explicit path enumeration); a failure is a checker error, not a violation
    mats = [O.lengths_from(W) for n in (2, 3) for W in G.all_weighted_dir(n, (0, 1, 2))]
    mats += [O.lengths_from(G.random_und(rs, 5, .6, weights=[1., 2., 3.])) for _ in range(20)]
    mats += [O.lengths_from(G.random_dir(rs, 5, .5, weights=list(W01_PALETTE)), 'log') for _ in range(20)]
    bad = O.selftest(mats)
    if bad:
        run.error('paths_oracle self-test failed: %r' % (bad[:2],))
        return

    nd, nu = (4, 6) if thorough else (4, 5)
    tasks = []
    for n in range(2, nd + 1):
        for c in ch(list(range(G.n_dir(n))), 32):
            tasks.append(('bin', 'dir', n, c))
    for n in range(2, nu + 1):
        for c in ch(list(range(G.n_und(n))), 64):
            tasks.append(('bin', 'und', n, c))
    run.bounded_part('distances-binary-exhaustive',
                     bounds={'directed': 'all labelled digraphs n = 2..%d' % nd, 'undirected': 'all labelled graphs n = 2..%d' % nu,
                             'functions': 'distance_bin, breadthdist, reachdist, distance_wei, distance_wei_floyd(None,inv), efficiency_bin, efficiency_wei, rout_efficiency, charpath; pairwise agreement'},
                     rule='one case = one 0/1 float matrix with every routine evaluated on it; non-trivial = some ordered pair is unreachable or at >= 2 hops; distinct by (class, n, matrix bytes)',
                     exhaustive=True)
    merge_all(run, 'distances-binary-exhaustive', pmap(worker, tasks))

    tasks = []
    pd, pu = (4, 6) if thorough else (3, 5)
    for n in range(2, pd + 1):
        for c in ch(list(range(G.n_dir(n))), 32):
            tasks.append(('pal', 'dir', n, c))
    for n in range(2, pu + 1):
        for c in ch(list(range(G.n_und(n))), 64):
            tasks.append(('pal', 'und', n, c))
    if thorough:
        exh = [('dir', 3, (0., 1., 2., 3.)), ('dir', 4, (0., 1., 2.)), ('und', 4, (0., 1., 2., 3.)), ('und', 5, (0., 1., 2.))]
    else:
        exh = [('dir', 3, (0., 1., 2., 3.)), ('und', 4, (0., 1., 2., 3.))]
    for cls, n, values in exh:
        npairs = n * (n - 1) // (2 if cls == 'und' else 1)
        total = len(values) ** npairs
        for c in ch(list(range(total)), 64 if total < 100000 else 256):
            tasks.append(('exh', cls, n, values, c, thorough and total < 100000, total < 100000))
    run.bounded_part('distances-lengths-with-ties',
                     bounds={'by-position palettes': 'every labelled digraph n <= %d and graph n <= %d, lengths assigned by position from %r; weights from %r for inv/log (1 -> zero log-length)' % (pd, pu, PALETTES, W01_PALETTE),
                             'all length assignments': '; '.join('%s n=%d lengths %r (0 = no connection)' % e for e in exh),
                             'transforms': "by-position palettes: None on L, 'inv' on 1/L, 'log' on exp(-L), inv and log on the (0,1] palette; all length assignments: "
                                           + ("None, 'inv' on 1/L, 'log' on exp(-L) (dir n=4: None only, distance_wei and distance_wei_floyd only)" if thorough else 'None only (distance_wei, distance_wei_floyd, rout_efficiency, charpath)'),
                             'functions': 'distance_wei (D and B), distance_wei_floyd (SPL and hops), efficiency_wei, rout_efficiency, charpath; agreement'},
                     rule='one case = one length/weight matrix; non-trivial = some ordered pair unreachable or at >= 2 hops on a minimum-length path; distinct by (class, n, matrix bytes)',
                     exhaustive=True)
    merge_all(run, 'distances-lengths-with-ties', pmap(worker, tasks))

    nmax = 9
    per, k = (40, 16) if thorough else (8, 16)
    run.bounded_part('distances-random', bounds={'n': '5..%d' % nmax, 'graphs': per * k * 5, 'lengths': '{1,2,3}, {1,2,4,5}; weights uniform (0.05,1] and {1,.5,.25}'},
                     rule='seeded random directed/undirected graphs (VERIF_SEED); one case = one matrix; non-trivial as above', exhaustive=False)
    merge_all(run, 'distances-random', pmap(worker, [('rand', seed * 7919 + 13 * x + 1, per, nmax) for x in range(k)]))
