"""Deterministic small networks and call plumbing shared by the C05 and C13 bounded cross-checks.

Nothing here calls a bct function; the builders depend only on their parameters (private RandomState(seed) instances, the
global generator is never touched)."""
import contextlib, io, signal
import numpy as np


def ring(n, directed=False):
    R = np.roll(np.eye(n), 1, 1)
    return R if directed else R + R.T


def und(n, p=.5, seed=0, weighted=False, signed=False, diag=False, dtype=float, backbone=True, frac=False):
    """symmetric matrix; backbone=True adds a ring so the graph is connected; diag=True puts non-zero self-weights on the
    diagonal (C13: the diagonal of the caller's array must survive the call)."""
    r = np.random.RandomState(seed)
    A = np.triu((r.random_sample((n, n)) < p).astype(float), 1)
    if backbone:
        A = np.maximum(A, np.triu(ring(n), 1))
    if weighted:
        A = A * r.randint(1, 6, (n, n))
    if frac:
        A = A * r.randint(1, 10, (n, n)) / 10.
    if signed:
        A = A * r.choice([-1., 1.], size=(n, n))
    A = A + A.T
    if diag:
        d = r.randint(1, 4, n).astype(float)
        if frac:
            d = d / 4.
        if signed:
            d = d * r.choice([-1., 1.], size=n)
        A[np.arange(n), np.arange(n)] = d
    return A.astype(dtype)


def dir_(n, p=.4, seed=0, weighted=False, signed=False, diag=False, dtype=float, backbone=True, frac=False):
    r = np.random.RandomState(seed)
    A = (r.random_sample((n, n)) < p).astype(float)
    np.fill_diagonal(A, 0)
    if backbone:
        A = np.maximum(A, ring(n, True))
    if weighted:
        A = A * r.randint(1, 6, (n, n))
    if frac:
        A = A * r.randint(1, 10, (n, n)) / 10.
    if signed:
        A = A * r.choice([-1., 1.], size=(n, n))
    if diag:
        d = r.randint(1, 4, n).astype(float)
        if frac:
            d = d / 4.
        if signed:
            d = d * r.choice([-1., 1.], size=n)
        A[np.arange(n), np.arange(n)] = d
    return A.astype(dtype)


def dist(n, seed=0):
    """symmetric 'Euclidean' distance matrix of n random points (zero diagonal, positive elsewhere)."""
    r = np.random.RandomState(seed)
    x = r.random_sample((n, 3)) * 10
    return np.sqrt(((x[:, None, :] - x[None, :, :]) ** 2).sum(2))


def coords(n, seed=0):
    return np.random.RandomState(seed).random_sample((n, 3)) * 10


def labels(n, seed=0, k=3):
    """arbitrary community labels: non-contiguous, zero-based, unsorted (e.g. 0, 7, 12)."""
    r = np.random.RandomState(seed)
    pal = np.array([7, 0, 12, 3, 25])[:k]
    ci = pal[r.randint(0, k, n)]
    ci[:k] = pal          # every label used
    return ci


class CallTimeout(Exception):
    pass


def _alarm(signum, frame):
    raise CallTimeout()


def timed_call(fn, args, kwargs, seconds):
    """fn(*args, **kwargs) with stdout swallowed and a wall-clock cap (CallTimeout): termination is not part of C05/C13, a
    call that does not come back is skipped and counted."""
    old = signal.signal(signal.SIGALRM, _alarm)
    signal.setitimer(signal.ITIMER_REAL, seconds)
    try:
        with contextlib.redirect_stdout(io.StringIO()):
            return fn(*args, **kwargs)
    finally:
        signal.setitimer(signal.ITIMER_REAL, 0)
        signal.signal(signal.SIGALRM, old)


# ---- deep comparison of results ----------------------------------------------------------------------------------
def canon(x):
    """Hashable/comparable canonical form of a result: nested tuples/lists/dicts, arrays (dtype, shape, bytes with every NaN
    mapped to one NaN and -0.0 kept), numpy scalars, RandomState (by state), sparse matrices."""
    if isinstance(x, np.random.RandomState):
        st = x.get_state()
        return ('RandomState', st[0], st[1].tobytes(), int(st[2]), int(st[3]), repr(float(st[4])))
    if isinstance(x, np.ndarray):
        a = x
        if a.dtype.kind in 'fc':
            a = a.copy()
            a[np.isnan(a)] = np.nan
        if a.dtype.kind == 'O':
            return ('ndO', a.shape, tuple(canon(v) for v in a.ravel().tolist()))
        return ('nd', a.dtype.str, a.shape, np.ascontiguousarray(a).tobytes())
    if isinstance(x, (tuple, list)):
        return (type(x).__name__,) + tuple(canon(v) for v in x)
    if isinstance(x, dict):
        return ('dict',) + tuple(sorted((repr(k), canon(v)) for k, v in x.items()))
    if isinstance(x, (np.generic,)):
        return canon(np.asarray(x))
    if isinstance(x, float):
        return ('float', 'nan' if x != x else repr(x))
    if hasattr(x, 'toarray') and hasattr(x, 'nnz'):
        return ('sparse', canon(x.toarray()))
    if isinstance(x, (int, str, bool, bytes, complex)) or x is None:
        return (type(x).__name__, x)
    return ('repr', repr(x))


def _plain(x):
    if isinstance(x, np.ndarray):
        return x.tolist()
    if isinstance(x, np.generic):
        return x.item()
    if isinstance(x, (tuple, list)):
        return [_plain(v) for v in x]
    if isinstance(x, dict):
        return {k: _plain(v) for k, v in x.items()}
    return x


def brief(x, limit=400):
    try:
        s = repr(_plain(x))
    except Exception:
        s = '<unprintable>'
    return s if len(s) <= limit else s[:limit] + '...'
