"""C12 bounded stand-in: every path the library returns is a real path with the reported length.

Part 1 (retrieve_shortest_path on the output of distance_wei_floyd, each transform), for every ordered pair s != t:
  * the returned sequence is empty exactly when t is unreachable from s (reachability from an independent closure);
  * otherwise it starts at s, ends at t, moves only along existing connections, has exactly hops[s,t] edges and its
    transformed connection lengths sum to SPL[s,t];
  * the predicate FloydConsistent assumed by the deductive part is evaluated as a postcondition of the producer:
    for all i != j with hops[i,j] > 0 and p = Pmat[i,j]:  W[i,p] != 0,  hops[p,j] = hops[i,j] - 1,
    SPL[i,j] = len(W[i,p]) + SPL[p,j];  and hops[i,j] > 0 exactly when j is reachable from i.
  Violation keys end in '/transform-<t>' and, for 'log' inputs on which minimum-length paths with different edge counts tie
  over the reals (decided by rounding noise in floating point), in '/transform-log/rounding-tie'.
Part 2 (navigation_wu(L, D, max_hops) -> sr, PL_bin, PL_wei, PL_dis, paths):
  * paths[(i,j)] exists for every i != j, starts at i and walks along existing connections of L (failed navigations return
    the partial walk);
  * the navigation succeeded iff the walk ends at j; then PL_bin / PL_wei / PL_dis are its edge count, summed connection
    length and summed nodal distance; a failed navigation is inf in all three;
  * sr = (number of ordered pairs i != j that succeeded) / (n (n - 1)).
  The greedy walk of navigation_wu need not terminate on directed graphs with max_hops=None (it can circulate on a directed
  cycle of >= 3 nodes); termination is not part of the property, so the real function is run through engine.weave with a
  step counter at the head of its while loop and such cases are skipped and counted in the evidence notes.
"""
import numpy as np
import bct
import bct.algorithms.distance as bdist
from engine import graphs as G
from engine import weave as WV
from engine.par import pmap, Acc, merge_all
from checks.bounded import paths_oracle as O


class NavLoop(Exception):
    pass


_NAV = {}


def _tick():
    _NAV['steps'] += 1
    if _NAV['steps'] > _NAV['cap']:
        raise NavLoop()


def _navigation():
    if 'f' not in _NAV:
        _NAV['f'] = WV.weave(bdist, 'navigation_wu', inserts=[{'where': 'loop_head', 'key': 'while curr_node != target', 'code': '__c12_tick()'}],
                             hooks={'__c12_tick': _tick})
    return _NAV['f']


def _try(acc, name, wit, f, *a, **k):
    try:
        return True, f(*a, **k)
    except bct.BCTParamError:
        return False, None
    except NavLoop:
        raise
    except Exception as e:
        acc.violate('%s/RAISES-%s' % (name, type(e).__name__), 'in-domain input raised %r' % (e,), dict(wit, function=name))
        return False, None


# ---- part 1 ---------------------------------------------------------------------------------------------------------------
def check_floyd_paths(acc, W, transform, cls, part):
    n = len(W)
    wit = {'W': W.tolist(), 'transform': transform, 'class': cls}
    L = O.lengths_from(W, transform)                    # own transform; inf = no connection
    Dtrue = O.closure(L)
    reachable = np.isfinite(Dtrue)
    ok, r = _try(acc, 'distance_wei_floyd', wit, bct.distance_wei_floyd, W.copy(), transform)
    if not ok:
        acc.case()
        return
    SPL, hops, Pmat = (np.asarray(x) for x in r)
    sfx = '/transform-%s' % transform
    # input class 'rounding-tie': log-lengths are irrational, so minimum-length paths that tie over the reals (here: with
    # different edge counts) differ by rounding noise in floating point and which one "wins" a strict comparison is decided
    # by the order of summation.  Violations on such inputs carry the class in their key so that they can be triaged apart.
    if transform == 'log' and O.rounding_tie_class(L, Dtrue):
        sfx += '/rounding-tie'
    fc_done = False
    longest = 0
    for i in range(n):
        for j in range(n):
            if i == j:
                continue
            # FloydConsistent on the producer's output
            if not fc_done:
                h = hops[i, j]
                if (h > 0) != bool(reachable[i, j]):
                    acc.violate('distance_wei_floyd/POST-FloydConsistent-hops-positive-iff-reachable' + sfx,
                                'hops[%d,%d] = %r but reachable = %r' % (i, j, h, bool(reachable[i, j])), dict(wit, function='distance_wei_floyd', i=i, j=j, hops=hops.tolist()))
                    fc_done = True
                elif h > 0:
                    p = Pmat[i, j]
                    okp = (p == int(p)) and 0 <= int(p) < n
                    if okp:
                        p = int(p)
                        okp = p != i and W[i, p] != 0 and hops[p, j] == h - 1 and bool(O.close(float(SPL[i, j]), float(L[i, p] + SPL[p, j])))
                    if not okp:
                        acc.violate('distance_wei_floyd/POST-FloydConsistent-next-hop' + sfx,
                                    'p = Pmat[%d,%d] = %r: needs W[i,p] != 0, hops[p,j] = hops[i,j]-1, SPL[i,j] = len(i,p) + SPL[p,j]' % (i, j, Pmat[i, j]),
                                    dict(wit, function='distance_wei_floyd', i=i, j=j, SPL=SPL.tolist(), hops=hops.tolist(), Pmat=Pmat.tolist()))
                        fc_done = True
            # the retrieved path, edge by edge
            w2 = dict(wit, function='retrieve_shortest_path', s=i, t=j, hops=hops.tolist(), Pmat=Pmat.tolist(), SPL=SPL.tolist())
            ok, path = _try(acc, 'retrieve_shortest_path', w2, bct.retrieve_shortest_path, i, j, hops, Pmat)
            if not ok:
                continue
            try:
                seq = [int(x) for x in np.asarray(path).ravel().tolist()]
                if len(seq) and not np.array_equal(np.asarray(path).ravel(), np.asarray(seq)):
                    raise ValueError
            except Exception:
                acc.violate('retrieve_shortest_path/POST-node-sequence' + sfx, 'result is not a sequence of node indices: %r' % (path,), w2)
                continue
            w2['path'] = seq
            if (len(seq) == 0) != (not reachable[i, j]):
                acc.violate('retrieve_shortest_path/POST-empty-iff-unreachable' + sfx,
                            'path %r but target reachable = %r' % (seq, bool(reachable[i, j])), w2)
                continue
            if not seq:
                continue
            if seq[0] != i or seq[-1] != j:
                acc.violate('retrieve_shortest_path/POST-starts-at-s-ends-at-t' + sfx, 'path %r for (s,t) = (%d,%d)' % (seq, i, j), w2)
                continue
            if any(not (0 <= a < n and 0 <= b < n) or a == b or W[a, b] == 0 for a, b in zip(seq[:-1], seq[1:])):
                acc.violate('retrieve_shortest_path/POST-moves-along-existing-connections' + sfx, 'path %r uses a pair of nodes that is not connected' % (seq,), w2)
                continue
            if len(seq) - 1 != hops[i, j]:
                acc.violate('retrieve_shortest_path/POST-has-reported-hops' + sfx, 'path %r has %d edges, hops = %r' % (seq, len(seq) - 1, hops[i, j]), w2)
            tot = 0.0
            for a, b in zip(seq[:-1], seq[1:]):
                tot = tot + L[a, b]
            if not bool(O.close(tot, float(SPL[i, j]))):
                acc.violate('retrieve_shortest_path/POST-has-reported-length' + sfx, 'path %r has length %r, SPL = %r' % (seq, tot, float(SPL[i, j])), w2)
            longest = max(longest, len(seq) - 1)
    acc.case(key=(part, cls, transform, n, W.tobytes()), nontrivial=longest >= 2,
             sample={'kind': 'floyd+retrieve ' + cls, 'W': W.tolist(), 'transform': transform, 'longest_path_edges': longest,
                     'unreachable_pair': bool(np.any(~reachable))})


def floyd_all_transforms(acc, Lw, cls, part, variants=('none', 'inv', 'log0', 'log')):
    """Lw: lengths (0 = no connection, positive integers otherwise)."""
    nz = Lw != 0
    if 'none' in variants:
        check_floyd_paths(acc, Lw, None, cls, part)
    if 'inv' in variants:
        Winv = np.zeros_like(Lw)
        Winv[nz] = 1.0 / Lw[nz]
        check_floyd_paths(acc, Winv, 'inv', cls, part)
    if 'log0' in variants:
        Wlog = np.zeros_like(Lw)
        Wlog[nz] = 2.0 ** (1.0 - Lw[nz])               # lengths 1,2,3 -> weights 1, .5, .25 -> log-lengths 0, ln2, 2 ln2 (exact ties, zero length)
        check_floyd_paths(acc, Wlog, 'log', cls, part)
    if 'log' in variants:
        Wlog2 = np.zeros_like(Lw)
        Wlog2[nz] = 2.0 ** (-Lw[nz])                   # weights .5, .25, .125 -> positive log-lengths that tie over the reals
        check_floyd_paths(acc, Wlog2, 'log', cls, part)


# ---- part 2 ---------------------------------------------------------------------------------------------------------------
def check_navigation(acc, L, D, max_hops, cls, part, stats):
    n = len(L)
    wit = {'function': 'navigation_wu', 'L': L.tolist(), 'D': D.tolist(), 'max_hops': max_hops, 'class': cls}
    f = _navigation()
    _NAV['steps'] = 0
    _NAV['cap'] = (n * n + 2) * (4 * n + 10)
    try:
        ok, r = _try(acc, 'navigation_wu', wit, f, L.copy(), D.copy(), max_hops=max_hops)
    except NavLoop:
        stats['nonterminating'] += 1
        if stats.get('first_loop') is None:
            stats['first_loop'] = wit
        acc.case()
        return
    if not ok:
        acc.case()
        return
    try:
        sr, PLb, PLw, PLd, paths = r
        PLb, PLw, PLd = (np.asarray(x, dtype=float) for x in (PLb, PLw, PLd))
    except Exception:
        acc.violate('navigation_wu/POST-returns-sr-PLbin-PLwei-PLdis-paths', 'unexpected result structure', wit)
        acc.case()
        return
    nsucc = 0
    longest = 0
    nfail = 0
    for i in range(n):
        for j in range(n):
            if i == j:
                continue
            w2 = dict(wit, i=i, j=j)
            if (i, j) not in paths:
                acc.violate('navigation_wu/POST-path-for-every-pair', 'no path entry for (%d,%d)' % (i, j), w2)
                continue
            seq = [int(x) for x in paths[(i, j)]]
            w2['path'] = seq
            vals = (PLb[i, j], PLw[i, j], PLd[i, j])
            w2['reported'] = [float(v) for v in vals]
            if not seq or seq[0] != i:
                acc.violate('navigation_wu/POST-path-starts-at-source', 'path %r for (%d,%d)' % (seq, i, j), w2)
                continue
            if any(not (0 <= b < n) or L[a, b] == 0 for a, b in zip(seq[:-1], seq[1:])):
                acc.violate('navigation_wu/POST-walk-along-existing-connections', 'path %r uses a pair of nodes that is not connected in L' % (seq,), w2)
                continue
            if seq[-1] == j:
                nsucc += 1
                longest = max(longest, len(seq) - 1)
                tw = 0.0
                td = 0.0
                for a, b in zip(seq[:-1], seq[1:]):
                    tw = tw + L[a, b]
                    td = td + D[a, b]
                if not np.all(np.isfinite(vals)):
                    acc.violate('navigation_wu/POST-success-is-finite', 'path %r reaches the target but reported lengths are %r' % (seq, w2['reported']), w2)
                    continue
                if vals[0] != len(seq) - 1:
                    acc.violate('navigation_wu/POST-pl_bin-is-hop-count', 'path %r has %d edges, PL_bin = %r' % (seq, len(seq) - 1, vals[0]), w2)
                if not bool(O.close(tw, vals[1])):
                    acc.violate('navigation_wu/POST-pl_wei-is-summed-connection-length', 'path %r sums to %r, PL_wei = %r' % (seq, tw, vals[1]), w2)
                if not bool(O.close(td, vals[2])):
                    acc.violate('navigation_wu/POST-pl_dis-is-summed-nodal-distance', 'path %r sums to %r, PL_dis = %r' % (seq, td, vals[2]), w2)
            else:
                nfail += 1
                if not all(v == np.inf for v in vals):
                    acc.violate('navigation_wu/POST-failure-is-inf-in-all-three', 'path %r does not reach the target but reported lengths are %r' % (seq, w2['reported']), w2)
    expect = nsucc / float(n * n - n)
    try:
        sr_ok = bool(O.close(float(sr), expect))
    except Exception:
        sr_ok = False
    if not sr_ok:
        acc.violate('navigation_wu/POST-sr-is-fraction-of-successful-pairs', 'sr = %r, %d of %d ordered pairs succeeded' % (sr, nsucc, n * n - n), wit)
    acc.case(key=(part, cls, n, L.tobytes(), D.tobytes(), max_hops), nontrivial=longest >= 2,
             sample={'kind': 'navigation ' + cls, 'L': L.tolist(), 'D': D.tolist(), 'max_hops': max_hops, 'succeeded': nsucc, 'failed': nfail,
                     'longest_path_edges': longest})


def _nodal_distances(rng, n):
    """A few symmetric nodal distance matrices: random real, tie-rich {1,2}, all equal, points on a line."""
    out = []
    X = rng.uniform(0.1, 3.0, size=(n, n))
    X = np.triu(X, 1)
    out.append(X + X.T)
    T = np.triu(rng.randint(1, 3, size=(n, n)).astype(float), 1)
    out.append(T + T.T)
    out.append(np.ones((n, n)) - np.eye(n))
    pos = rng.permutation(n).astype(float)
    out.append(np.abs(pos[:, None] - pos[None, :]))
    return out


def _graph(cls, n, bits):
    return G.und_from_bits(n, bits) if cls == 'und' else G.dir_from_bits(n, bits)


def worker(task):
    kind = task[0]
    acc = Acc()
    stats = {'nonterminating': 0, 'first_loop': None}
    if kind == 'exh':
        _, cls, n, values, idxs, variants = task
        for idx in idxs:
            Lw = O.weighted_from_index(cls, n, values, idx)
            floyd_all_transforms(acc, Lw, cls, 'exh', variants)
    elif kind == 'pal':
        _, cls, n, bitlist, seed = task
        rng = np.random.RandomState(seed)
        for bits in bitlist:
            A = _graph(cls, n, bits)
            if not A.any():
                continue
            floyd_all_transforms(acc, G.weight_by_position(A, (1., 2., 3.), symmetric=(cls == 'und')), cls, 'pal')
            R = A * rng.randint(1, 4, size=(n, n))
            if cls == 'und':
                R = np.triu(R, 1)
                R = R + R.T
            floyd_all_transforms(acc, R.astype(float), cls, 'pal')
    elif kind == 'rand':
        _, seed, count, nmax = task
        rng = np.random.RandomState(seed)
        for _ in range(count):
            n = int(rng.randint(5, nmax + 1))
            cls = 'und' if rng.rand() < .5 else 'dir'
            gen = G.random_und if cls == 'und' else G.random_dir
            p = rng.uniform(.15, .6)
            floyd_all_transforms(acc, gen(rng, n, p=p, weights=[1., 2., 3.]), cls, 'rand')
            check_floyd_paths(acc, gen(rng, n, p=p), None, cls, 'rand')
            W = gen(rng, n, p=p) * rng.uniform(0.05, 1.0, size=(n, n))
            if cls == 'und':
                W = np.triu(W, 1)
                W = W + W.T
            check_floyd_paths(acc, W, 'log', cls, 'rand')
            check_floyd_paths(acc, W, 'inv', cls, 'rand')
    elif kind == 'nav':
        _, cls, n, values, idxs, seed, nD = task
        rng = np.random.RandomState(seed)
        for idx in idxs:
            L = O.weighted_from_index(cls, n, values, idx)
            for D in _nodal_distances(rng, n)[:nD]:
                for mh in (None, 1, 2):
                    check_navigation(acc, L, D, mh, cls, 'nav', stats)
    elif kind == 'navrand':
        _, seed, count, nmax = task
        rng = np.random.RandomState(seed)
        for _ in range(count):
            n = int(rng.randint(5, nmax + 1))
            cls = 'und' if rng.rand() < .75 else 'dir'
            gen = G.random_und if cls == 'und' else G.random_dir
            L = gen(rng, n, p=rng.uniform(.2, .7), weights=[1., 2., 3.])
            for D in _nodal_distances(rng, n):
                for mh in (None, 1, 2, 3):
                    check_navigation(acc, L, D, mh, cls, 'navrand', stats)
    acc.c12_stats = stats
    return acc


def run_bounded(run, tier, seed):
    thorough = tier == 'thorough'
    ch = O.chunks
    # ---- part 1
    if thorough:
        exh = [('dir', 2, (0., 1., 2.)), ('dir', 3, (0., 1., 2.)), ('dir', 4, (0., 1., 2.)), ('und', 3, (0., 1., 2.)), ('und', 4, (0., 1., 2.)), ('und', 5, (0., 1., 2.))]
        pal = [('dir', 3), ('dir', 4), ('und', 4), ('und', 5)]
    else:
        exh = [('dir', 2, (0., 1., 2.)), ('dir', 3, (0., 1., 2.)), ('und', 3, (0., 1., 2.)), ('und', 4, (0., 1., 2.))]
        pal = [('dir', 3), ('und', 4)]
    tasks = []
    for cls, n, values in exh:
        npairs = n * (n - 1) // (2 if cls == 'und' else 1)
        total = len(values) ** npairs
        for c in ch(list(range(total)), 32 if total < 100000 else 256):
            tasks.append(('exh', cls, n, values, c, ('none', 'inv', 'log0', 'log') if total < 100000 else ('none', 'log0')))
    for cls, n in pal:
        nb = G.n_und(n) if cls == 'und' else G.n_dir(n)
        for x, c in enumerate(ch(list(range(nb)), 32)):
            tasks.append(('pal', cls, n, c, seed * 1009 + x))
    run.bounded_part('floyd-retrieve-small-scope',
                     bounds={'all length assignments': '; '.join('%s n=%d lengths %r (0 = no connection)' % e for e in exh),
                             'lengths {1,2,3} (sampled)': '; '.join('all labelled %s graphs n=%d x (by-position palette (1,2,3) + one random assignment)' % e for e in pal),
                             'transforms': "None on L; 'inv' on 1/L; 'log' on 2^(1-L) (weights 1,.5,.25: zero-length connections, exact ties) and on 2^-L"
                                           + (" (dir n=4 all assignments: None and 'log' on 2^(1-L) only)" if thorough else ''),
                             'pairs': 'every ordered pair s != t'},
                     rule='one case = (matrix, transform) with distance_wei_floyd + FloydConsistent + retrieve_shortest_path for all (s,t); non-trivial = some retrieved path has >= 2 edges; distinct by (class, transform, n, matrix bytes)',
                     exhaustive=True)
    merge_all(run, 'floyd-retrieve-small-scope', pmap(worker, tasks))

    per, k = (30, 16) if thorough else (8, 16)
    run.bounded_part('floyd-retrieve-random', bounds={'n': '5..9', 'graphs': per * k, 'matrices per graph': '4 transforms on lengths {1,2,3}, binary, uniform weights (0.05,1] with log and inv'},
                     rule='seeded random directed/undirected graphs (VERIF_SEED); non-trivial as above', exhaustive=False)
    merge_all(run, 'floyd-retrieve-random', pmap(worker, [('rand', seed * 7919 + 19 * x + 5, per, 9) for x in range(k)]))

    # ---- part 2
    if thorough:
        nav = [('und', 3, (0., 1., 2.)), ('und', 4, (0., 1., 2.)), ('und', 5, (0., 1., 2.)), ('dir', 3, (0., 1., 2.)), ('dir', 4, (0., 1.))]
    else:
        nav = [('und', 3, (0., 1., 2.)), ('und', 4, (0., 1., 2.)), ('dir', 3, (0., 1., 2.))]
    tasks = []
    for cls, n, values in nav:
        npairs = n * (n - 1) // (2 if cls == 'und' else 1)
        total = len(values) ** npairs
        for x, c in enumerate(ch(list(range(total)), 32 if total < 20000 else 128)):
            tasks.append(('nav', cls, n, values, c, seed * 2003 + x + 7 * n, 4 if total < 20000 else 2))
    run.bounded_part('navigation-small-scope',
                     bounds={'L': '; '.join('%s n=%d lengths %r (0 = no connection)' % e for e in nav),
                             'D': '4 symmetric nodal distance matrices per L: random real, random {1,2} (ties), all equal, |position difference| of a random line layout'
                                  + (' (und n=5: the first two)' if thorough else ''),
                             'max_hops': [None, 1, 2]},
                     rule='one case = (L, D, max_hops); all ordered pairs checked; non-trivial = some successful navigation path has >= 2 edges; runs that exceed the step cap (non-termination on directed input) are skipped and counted in notes',
                     exhaustive=False)
    accs = pmap(worker, tasks)
    merge_all(run, 'navigation-small-scope', accs)
    per2, k2 = (25, 16) if thorough else (6, 16)
    run.bounded_part('navigation-random', bounds={'n': '5..8', 'graphs': per2 * k2, 'D': 'as above', 'max_hops': [None, 1, 2, 3], 'lengths': '{1,2,3}; 3/4 undirected'},
                     rule='seeded random graphs (VERIF_SEED); non-trivial as above', exhaustive=False)
    accs2 = pmap(worker, [('navrand', seed * 7919 + 23 * x + 11, per2, 8) for x in range(k2)])
    merge_all(run, 'navigation-random', accs2)
    nloop = sum(a.c12_stats['nonterminating'] for a in accs + accs2)
    first = next((a.c12_stats['first_loop'] for a in accs + accs2 if a.c12_stats['first_loop'] is not None), None)
    if nloop:
        run.notes.append('navigation_wu did not terminate within the step cap on %d (L, D, max_hops) cases (directed L with a cycle of >= 3 nodes, max_hops=None); '
                         'termination is outside C12, cases skipped; first: %r' % (nloop, first))
