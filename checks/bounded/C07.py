"""C07 bounded stand-in: the deterministic-gain optimisers never return a partition worse than their start.

For every enumerated case the real routine is executed as a woven in-memory copy (engine.weave; nothing removed): just before the
label assignment (`ci[u] = mb + 1` / `m[u] = mb + 1` / `m[i] = j + 1` / `Mb[u] = mb + 1`) a monitor receives the label vector, the node,
the target module and the routine's max_dq, and compares  "claimed gain" (2*max_dq/s for the plain routines and for
community_louvain's modularity/potts objective, 2*max_dq for the signed ones - DESIGN Appendix A, gain lemma) with the exact change of the
reference quality (checks/bounded/modq.py, written from the definition) between the labels before and after the move.  On the first
hierarchy level the working matrix is the input matrix and the labels are the routine's own vector; on deeper levels (input class
'/level>=2') the monitor composes the super-node labels with the routine's composed label vector of the previous level (handed over at the
head of the level loop) and evaluates the reference on the *input* network, which is exact by the aggregation lemma (Q of the aggregated
network with super-node labels = Q of the input network with composed labels).  End to end: Qref(returned partition) >= Qref(start) - 1e-10,
returned q >= Qref(start) - 1e-10, hierarchical q strictly increasing (returned list and recomputed values), and the output fed back as
the start (real un-woven routine, seeded order) is not lowered.

A run that ends in BCTParamError ("infinite loop" guard) or exceeds the draw cap returns nothing: the end-to-end clauses do not apply and
the case is skipped and counted, but a move the real code made before giving up whose claimed gain is not the exact change of Q (or that
lowers Q) is still reported (witness field run_ended_with).  An accepted move may leave Q unchanged within 1e-11 (the property's
tolerance): accepting zero-gain moves is property-preserving.

Violation keys:  <function>/<clause>[/hierarchy | /level>=2][/directed-W  (after a first class: +directed-W)]
  clauses  MOVE-claimed-gain-equals-exact-dQ[/level>=2], MOVE-accepted-move-does-not-lower-Q[/level>=2], POST-Q-not-below-start, POST-returned-q-not-below-start,
           POST-feedback-not-lower, POST-hierarchy-q-strictly-increasing, POST-hierarchy-Q-strictly-increasing,
           POST-hierarchy-first-level-not-below-singletons, RAISES-<Exception>
"""
from checks.bounded import modq as Q

RULE = ('one case = (routine, objective/type, network, gamma, start partition with its label values, hierarchy flag, choice script); '
        'non-trivial = at least one accepted move was observed by the woven monitor (hierarchy: and at least two levels returned); '
        'distinct by hash of that tuple')


def plan(tier):
    thorough = tier == 'thorough'
    full = dict(depth=2, permdiv=1, gamma='all', relabel='all', qrot=False)
    S5 = (-2, -1, 0, 1, 2)
    if not thorough:
        und = [dict(family='und', n=2, values=(0, 1, 2), graphs='all', cfg=full, per_task=3, weight=1),
               dict(family='und', n=3, values=(0, 1, 2), graphs='all', cfg=dict(full, gamma='rot'), per_task=1, weight=12),
               dict(family='und', n=4, values=(0, 1, 2), graphs='all', per_task=6, weight=2,
                    cfg=dict(depth=1, permdiv=3, gamma='rot', relabel='rot'))]
        dr = [dict(family='dir', n=2, values=(0, 1, 2), graphs='all', cfg=full, per_task=9, weight=.2),
              dict(family='dir', n=3, values=(0, 1, 2), graphs='all', per_task=8, weight=1.5,
                   cfg=dict(depth=1, permdiv=1, gamma='all', relabel='rot'))]
        sg = [dict(family='sign', n=2, values=S5, graphs='all', cfg=full, per_task=5, weight=1),
              dict(family='sign', n=3, values=S5, graphs='all', per_task=4, weight=3,
                   cfg=dict(depth=1, permdiv=1, gamma='all', relabel='rot', qrot=True)),
              dict(family='sign', n=4, values=S5, graphs=120, per_task=2, weight=5,
                   cfg=dict(depth=1, permdiv=2, gamma='rot', relabel='rot', qrot=True)),
              dict(family='dsign', n=3, values=S5, graphs=200, per_task=10, weight=1,
                   cfg=dict(depth=1, permdiv=1, gamma='all', relabel='rot'))]
        rnd = [dict(family=f, count=15, tasks=4, nmin=5, nmax=10, selfloop_every=4) for f in ('und', 'dir', 'sign', 'dsign')]
    else:
        und = [dict(family='und', n=2, values=(0, 1, 2), graphs='all', cfg=dict(full, depth=3), per_task=3, weight=1),
               dict(family='und', n=3, values=(0, 1, 2), graphs='all', cfg=dict(full, depth=3), per_task=1, weight=80),
               dict(family='und', n=4, values=(0, 1, 2), graphs='all', per_task=2, weight=8,
                    cfg=dict(depth=1, permdiv=1, gamma='all', relabel='rot')),
               dict(family='und', n=5, values=(0, 1), graphs='all', per_task=4, weight=6,
                    cfg=dict(depth=1, permdiv=1, gamma='rot', relabel='rot')),
               dict(family='und', n=5, values=(0, 1, 2), graphs=300, per_task=4, weight=6,
                    cfg=dict(depth=1, permdiv=1, gamma='rot', relabel='rot'))]
        dr = [dict(family='dir', n=2, values=(0, 1, 2), graphs='all', cfg=dict(full, depth=3), per_task=9, weight=.2),
              dict(family='dir', n=3, values=(0, 1, 2), graphs='all', per_task=3, weight=8,
                   cfg=dict(depth=2, permdiv=1, gamma='rot', relabel='all')),
              dict(family='dir', n=4, values=(0, 1), graphs=500, per_task=3, weight=6,
                   cfg=dict(depth=1, permdiv=1, gamma='rot', relabel='rot')),
              dict(family='dir', n=4, values=(0, 1, 2), graphs=500, per_task=3, weight=6,
                   cfg=dict(depth=1, permdiv=1, gamma='rot', relabel='rot'))]
        sg = [dict(family='sign', n=2, values=S5, graphs='all', cfg=dict(full, depth=3), per_task=5, weight=1),
              dict(family='sign', n=3, values=S5, graphs='all', per_task=1, weight=20,
                   cfg=dict(depth=1, permdiv=1, gamma='all', relabel='all', qrot=False)),
              dict(family='sign', n=4, values=S5, graphs=800, per_task=2, weight=8,
                   cfg=dict(depth=1, permdiv=1, gamma='rot', relabel='rot', qrot=True)),
              dict(family='dsign', n=3, values=S5, graphs=1000, per_task=10, weight=2,
                   cfg=dict(depth=2, permdiv=1, gamma='all', relabel='rot'))]
        rnd = [dict(family=f, count=40, tasks=12, nmin=5, nmax=10, selfloop_every=4) for f in ('und', 'dir', 'sign', 'dsign')]
    return [dict(name='undirected-small-scope', entries=und), dict(name='directed-small-scope', entries=dr),
            dict(name='signed-small-scope', entries=sg), dict(name='random-to-n=10', random=rnd)]


def run_bounded(run, tier, seed):
    Q.run_plan(run, 'C07', seed, plan(tier), RULE)
