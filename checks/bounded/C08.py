"""C08 bounded stand-in: node and edge betweenness against brute-force shortest-path counting (paths_oracle.py).

Contract evaluated on the real functions (bounded, never counted as proved):
  betweenness_bin(A), betweenness_wei(L):            BC[v]    = sum over ordered pairs s != t with t reachable from s, v not in {s,t},
                                                              of sigma(s,t|v) / sigma(s,t)
  edge_betweenness_bin(A), edge_betweenness_wei(L):  EBC[u,v] = the same sum with sigma(s,t|u->v) (0 where there is no connection),
                                                     and the node vector they return equals the node routine's result;
  binary graphs: sum(BC) = sum over reachable ordered pairs of (d - 1), sum(EBC) = sum of d.
The *_wei routines take connection-LENGTH matrices (docstrings); lengths are small integers so that ties are exact.
"""
import numpy as np
import bct
from engine import graphs as G
from engine.par import pmap, Acc, merge_all
from checks.bounded import paths_oracle as O

PALETTES = ((1.0, 2.0, 3.0), (2.0, 1.0, 1.0), (3.0, 1.0, 2.0), (1.0, 1.0, 2.0))


def _try(acc, name, wit, f, *a):
    try:
        return True, f(*a)
    except bct.BCTParamError:
        return False, None
    except Exception as e:
        acc.violate('%s/RAISES-%s' % (name, type(e).__name__), 'in-domain input raised %r' % (e,), dict(wit, function=name))
        return False, None


def _vec_eq(a, b):
    a = np.asarray(a, dtype=float)
    b = np.asarray(b, dtype=float)
    return a.shape == b.shape and bool(np.all(np.isfinite(a))) and bool(np.allclose(a, b, rtol=1e-9, atol=1e-12))


def check_one(acc, M, cls, binary, part):
    """M: 0/1 matrix (binary=True: *_bin and *_wei both apply, lengths 1) or a length matrix (binary=False: *_wei only)."""
    n = len(M)
    wit = {'matrix': M.tolist(), 'class': cls, 'binary': binary}
    L = O.lengths_from(M)
    BC0, EBC0, D, S = O.betweenness(L)
    m = ~np.eye(n, dtype=bool) & np.isfinite(D)
    node = {}
    names = (('betweenness_bin', 'edge_betweenness_bin') if binary else ()) + ('betweenness_wei', 'edge_betweenness_wei')
    for name in names:
        ok, r = _try(acc, name, wit, getattr(bct, name), M.copy())
        if not ok:
            continue
        if name.startswith('edge_'):
            try:
                EBC, BC = r
            except Exception:
                acc.violate(name + '/POST-returns-EBC-and-BC', 'result is not a pair (EBC, BC)', dict(wit, function=name))
                continue
            if not _vec_eq(EBC, EBC0):
                acc.violate(name + '/POST-EBC-counts-shortest-paths', 'EBC differs from sum of sigma(s,t|u->v)/sigma(s,t) over reachable ordered pairs',
                            dict(wit, function=name, returned=np.asarray(EBC, dtype=float).tolist(), expected=EBC0.tolist()))
            if binary and _vec_eq(EBC, EBC) and not bool(O.close(float(np.sum(EBC)), float(np.sum(D[m])))):
                acc.violate(name + '/POST-sum-EBC-equals-sum-of-distances', 'sum(EBC) = %r, sum of distances over reachable ordered pairs = %r' % (float(np.sum(EBC)), float(np.sum(D[m]))),
                            dict(wit, function=name))
        else:
            BC = r
        node[name] = BC
        if not _vec_eq(BC, BC0):
            acc.violate(name + '/POST-BC-counts-shortest-paths', 'BC differs from sum of sigma(s,t|v)/sigma(s,t) over reachable ordered pairs',
                        dict(wit, function=name, returned=np.asarray(BC, dtype=float).tolist(), expected=BC0.tolist()))
        if binary and _vec_eq(BC, BC) and not bool(O.close(float(np.sum(BC)), float(np.sum(D[m] - 1)))):
            acc.violate(name + '/POST-sum-BC-equals-sum-of-distance-minus-1', 'sum(BC) = %r, sum of (d-1) over reachable ordered pairs = %r' % (float(np.sum(BC)), float(np.sum(D[m] - 1))),
                        dict(wit, function=name))
    for e, b in (('edge_betweenness_bin', 'betweenness_bin'), ('edge_betweenness_wei', 'betweenness_wei')):
        if e in node and b in node and not _vec_eq(node[e], node[b]):
            acc.violate(e + '/AGREE-node-vector-' + b, 'node vector returned by the edge routine differs from the node routine',
                        dict(wit, function=e, edge_routine_BC=np.asarray(node[e], dtype=float).tolist(), node_routine_BC=np.asarray(node[b], dtype=float).tolist()))
    if binary and 'betweenness_bin' in node and 'betweenness_wei' in node and not _vec_eq(node['betweenness_bin'], node['betweenness_wei']):
        acc.violate('betweenness_bin/AGREE-betweenness_wei', 'binary and weighted routine differ on a 0/1 matrix (all lengths 1)', dict(wit, function='betweenness_bin'))
    tie = bool(np.any(S[m] > 1))
    unreachable = bool(np.any(np.isinf(D)))
    acc.case(key=(part, cls, binary, n, M.tobytes()), nontrivial=bool(np.any(BC0 > 0)),
             sample={'kind': ('binary ' if binary else 'lengths ') + cls, 'matrix': M.tolist(), 'pair_with_several_shortest_paths': tie,
                     'unreachable_pair': unreachable, 'expected_BC': BC0.tolist()})


def _graph(cls, n, bits):
    return G.und_from_bits(n, bits) if cls == 'und' else G.dir_from_bits(n, bits)


def worker(task):
    weighted_from_index = O.weighted_from_index
    kind = task[0]
    acc = Acc()
    if kind == 'bin':
        _, cls, n, bitlist = task
        for bits in bitlist:
            check_one(acc, _graph(cls, n, bits), cls, True, 'bin')
    elif kind == 'pal':
        _, cls, n, bitlist = task
        for bits in bitlist:
            A = _graph(cls, n, bits)
            if not A.any():
                continue
            for pal in PALETTES:
                check_one(acc, G.weight_by_position(A, pal, symmetric=(cls == 'und')), cls, False, 'pal')
    elif kind == 'exh':
        _, cls, n, values, idxs = task
        for idx in idxs:
            check_one(acc, weighted_from_index(cls, n, values, idx), cls, False, 'exh')
    elif kind == 'rand':
        _, seed, count, nmax = task
        rng = np.random.RandomState(seed)
        for _ in range(count):
            n = int(rng.randint(5, nmax + 1))
            cls = 'und' if rng.rand() < .5 else 'dir'
            gen = G.random_und if cls == 'und' else G.random_dir
            p = rng.uniform(.15, .6)
            check_one(acc, gen(rng, n, p=p), cls, True, 'rand')
            check_one(acc, gen(rng, n, p=p, weights=[1., 2., 3.]), cls, False, 'rand')
            check_one(acc, gen(rng, n, p=p, weights=[1., 1., 2., 4.]), cls, False, 'rand')
    return acc


def run_bounded(run, tier, seed):
    thorough = tier == 'thorough'
    rs = np.random.RandomState(seed)
    ch = O.chunks
    mats = [O.lengths_from(W) for n in (2, 3) for W in G.all_weighted_dir(n, (0, 1, 2))]
    mats += [O.lengths_from(G.random_und(rs, 5, .6, weights=[1., 2., 3.])) for _ in range(30)]
    mats += [O.lengths_from(G.random_dir(rs, 5, .5, weights=[1., 1., 2.])) for _ in range(30)]
    bad = O.selftest(mats)
    if bad:
        run.error('paths_oracle self-test failed: %r' % (bad[:2],))
        return

    nd, nu = (4, 6) if thorough else (4, 5)
    tasks = []
    for n in range(2, nd + 1):
        for c in ch(list(range(G.n_dir(n))), 32):
            tasks.append(('bin', 'dir', n, c))
    for n in range(2, nu + 1):
        for c in ch(list(range(G.n_und(n))), 64):
            tasks.append(('bin', 'und', n, c))
    run.bounded_part('betweenness-binary-exhaustive',
                     bounds={'directed': 'all labelled digraphs n = 2..%d' % nd, 'undirected': 'all labelled graphs n = 2..%d' % nu,
                             'functions': 'betweenness_bin, edge_betweenness_bin, betweenness_wei, edge_betweenness_wei (lengths 1)'},
                     rule='one case = one 0/1 float matrix with the four routines evaluated; non-trivial = some node has positive betweenness (a shortest path with an interior node exists); distinct by (class, n, matrix bytes)',
                     exhaustive=True)
    merge_all(run, 'betweenness-binary-exhaustive', pmap(worker, tasks))

    tasks = []
    pd, pu = (4, 6) if thorough else (4, 5)
    for n in range(3, pd + 1):
        for c in ch(list(range(G.n_dir(n))), 32):
            tasks.append(('pal', 'dir', n, c))
    for n in range(3, pu + 1):
        for c in ch(list(range(G.n_und(n))), 64):
            tasks.append(('pal', 'und', n, c))
    if thorough:
        exh = [('dir', 3, (0., 1., 2., 3.)), ('dir', 4, (0., 1., 2.)), ('und', 4, (0., 1., 2., 3.)), ('und', 5, (0., 1., 2.))]
    else:
        exh = [('dir', 3, (0., 1., 2., 3.)), ('und', 4, (0., 1., 2., 3.))]
    for cls, n, values in exh:
        npairs = n * (n - 1) // (2 if cls == 'und' else 1)
        total = len(values) ** npairs
        for c in ch(list(range(total)), 64 if total < 100000 else 256):
            tasks.append(('exh', cls, n, values, c))
    run.bounded_part('betweenness-lengths-with-ties',
                     bounds={'by-position palettes': 'every labelled digraph n <= %d and graph n <= %d, lengths assigned by position from %r' % (pd, pu, PALETTES),
                             'all length assignments': '; '.join('%s n=%d lengths %r (0 = no connection)' % e for e in exh),
                             'functions': 'betweenness_wei, edge_betweenness_wei'},
                     rule='one case = one connection-length matrix; non-trivial = some node has positive betweenness; distinct by (class, n, matrix bytes)',
                     exhaustive=True)
    merge_all(run, 'betweenness-lengths-with-ties', pmap(worker, tasks))

    nmax = 9
    per, k = (40, 16) if thorough else (10, 16)
    run.bounded_part('betweenness-random', bounds={'n': '5..%d' % nmax, 'matrices': per * k * 3, 'lengths': '1 (binary), {1,2,3}, {1,2,4}'},
                     rule='seeded random directed/undirected graphs (VERIF_SEED); non-trivial as above', exhaustive=False)
    merge_all(run, 'betweenness-random', pmap(worker, [('rand', seed * 7919 + 17 * x + 3, per, nmax) for x in range(k)]))
