"""C10 bounded stand-in: pairs of public routines evaluated on the SAME matrix must agree.

  REDUCES-binary     on a 0/1 matrix the weighted routine returns what its binary counterpart returns
  REDUCES-symmetric  on a symmetric matrix the directed routine returns what its undirected counterpart returns
  IGNORES-weights    a routine documented (docstring) or coded (explicit binarize() of its argument) to discard weights returns the
                     same for a positive-weighted matrix and for its binarisation

The oracle is the property itself (two library routines compared with each other); nothing else is computed here except the
small structural facts used to skip undefined cases (transitivity of a graph without a connected triple is 0/0) and to decide
whether a case is non-trivial.

Conventions read from the code under test (checked, not assumed, by the comparisons below):
  * distance_bin and distance_wei both give inf for unreachable pairs and 0 on the diagonal; on 0/1 input the length matrix equals
    the adjacency matrix, so distance_wei(A)[0] must equal distance_bin(A) including the inf pattern, and the edge-count matrix B of
    distance_wei must equal the distance where it is finite (every shortest path of length d has d edges) and be 0 elsewhere.
  * efficiency_wei has three local modes; local=True / 'local' (Wang et al. 2016) is the one documented as "a true generalization of
    the binary variant" and is the counterpart of efficiency_bin(local=True). 'original' is documented NOT to generalise and is not
    compared.  Both efficiency routines document UNDIRECTED input: they are compared on symmetric 0/1 matrices only.
  * strengths_dir returns one vector (in-strength + out-strength) although its docstring lists three; degrees_dir returns
    (in, out, in+out).  Compared: strengths_dir(A) == degrees_dir(A)[2] (and component-wise should strengths_dir ever return three).
  * assortativity_wei with flag != 0 unpacks two values from strengths_dir and raises for every input: outside this property
    (DESIGN section 8); only flag 0 on undirected matrices is compared.
  * assortativity is 0/0 (nan) on regular graphs in both variants: nan == nan counts as agreement, such cases are trivial.
"""
import numpy as np
import bct
from engine import graphs as G
from engine.par import pmap, Acc, merge_all

RTOL, ATOL = 1e-9, 1e-12


# ---------------------------------------------------------------------------------------------------------------------
# plumbing
# ---------------------------------------------------------------------------------------------------------------------
class _Raised(Exception):
    pass


def _run(fname, args, kw=None):
    """-> ('ok', value) | ('param', None) | ('exc', exception)"""
    try:
        with np.errstate(all='ignore'):
            return 'ok', getattr(bct, fname)(*[a.copy() if isinstance(a, np.ndarray) else a for a in args], **(kw or {}))
    except bct.BCTParamError:
        return 'param', None
    except Exception as e:      # noqa
        return 'exc', e


def _flat(x):
    """Result -> list of float arrays (tuples/lists of arrays are flattened one level, None dropped)."""
    if isinstance(x, (tuple, list)):
        out = []
        for y in x:
            if y is None:
                continue
            if isinstance(y, (tuple, list)) and len(y) and isinstance(y[0], np.ndarray):
                out += [np.asarray(z, dtype=float) for z in y]
            else:
                out.append(np.asarray(y, dtype=float))
        return out
    return [np.asarray(x, dtype=float)]


def _same(x, y):
    a, b = _flat(x), _flat(y)
    if len(a) != len(b):
        return False
    for u, v in zip(a, b):
        if u.shape != v.shape:
            return False
        if not np.allclose(u, v, rtol=RTOL, atol=ATOL, equal_nan=True):
            return False
    return True


def _js(x):
    return [u.tolist() for u in _flat(x)]


def _pair(acc, key, what, fa, aa, fb, ab, W, tag, nontrivial, pick_a=None, pick_b=None, kwa=None, kwb=None):
    """Compare bct.fa(*aa) with bct.fb(*ab).  Exceptions on in-domain input are RAISES violations of the raising function."""
    sa, ra = _run(fa, aa, kwa)
    sb, rb = _run(fb, ab, kwb)
    wit = {'matrix': W.tolist(), 'left': fa, 'left_kwargs': kwa or {}, 'right': fb, 'right_kwargs': kwb or {}}
    bad = False
    for f, s, r in ((fa, sa, ra), (fb, sb, rb)):
        if s == 'exc':
            acc.violate('%s/RAISES-%s' % (f, type(r).__name__), 'in-domain input raised %r' % (r,), dict(wit, function=f))
            bad = True
    if bad or sa == 'param' or sb == 'param':
        return None
    if pick_a:
        ra = pick_a(ra)
    if pick_b:
        rb = pick_b(rb)
    if not _same(ra, rb):
        acc.violate(key, what, dict(wit, left_result=_js(ra), right_result=_js(rb)))
    nt = nontrivial(ra, rb) if callable(nontrivial) else nontrivial
    acc.case(key=(key, tag), nontrivial=bool(nt), sample={'pair': key, 'matrix': W.tolist()})
    return ra, rb


# structural facts (independent of bct) ---------------------------------------------------------------------------------
def _has_triple_und(A):
    return bool(np.any(np.count_nonzero(A, axis=1) >= 2))


def _triple_den_dir(A):
    n = len(A)
    a = (A != 0)
    tot = 0
    for i in range(n):
        kt = sum(int(a[i, j]) + int(a[j, i]) for j in range(n) if j != i)
        kb = sum(1 for j in range(n) if j != i and a[i, j] and a[j, i])
        tot += kt * (kt - 1) - 2 * kb
    return tot


def _has_triangle(A):
    s = ((A != 0) | (A.T != 0))
    n = len(A)
    for i in range(n):
        for j in range(i + 1, n):
            if s[i, j]:
                for h in range(j + 1, n):
                    if s[i, h] and s[j, h]:
                        return True
    return False


def _any_nonzero(ra, rb):
    return any(np.any(np.nan_to_num(u) != 0) for u in _flat(ra))


def _finite_nonzero(ra, rb):
    return all(np.all(np.isfinite(u)) for u in _flat(ra)) and all(np.all(np.isfinite(u)) for u in _flat(rb))


# ---------------------------------------------------------------------------------------------------------------------
# REDUCES-binary (and REDUCES-symmetric for the binary pairs)
# ---------------------------------------------------------------------------------------------------------------------
def check_binary(acc, A, tag):
    """A: 0/1 float matrix with empty diagonal."""
    n = len(A)
    sym = bool(np.array_equal(A, A.T))
    tri = _has_triangle(A)
    edges = bool(A.any())
    RB = 'REDUCES-binary'
    msgb = 'weighted routine on a 0/1 matrix differs from its binary counterpart on the same matrix'
    # directed-capable pairs (every 0/1 matrix)
    _pair(acc, 'clustering_coef_wd~clustering_coef_bd/' + RB, msgb, 'clustering_coef_wd', (A,), 'clustering_coef_bd', (A,), A, tag, tri)
    if _triple_den_dir(A) > 0:
        _pair(acc, 'transitivity_wd~transitivity_bd/' + RB, msgb, 'transitivity_wd', (A,), 'transitivity_bd', (A,), A, tag, tri)
    far = lambda ra, rb: bool(np.any(_flat(rb)[0] >= 2))      # some pair at distance >= 2 or unreachable (inf)
    _pair(acc, 'distance_wei~distance_bin/' + RB, msgb + ' (distance matrix, inf pattern included)',
          'distance_wei', (A,), 'distance_bin', (A,), A, tag, far, pick_a=lambda r: r[0])
    _pair(acc, 'distance_wei~distance_bin/' + RB + '/edge-count',
          'number-of-edges matrix B of distance_wei on a 0/1 matrix is not the binary distance where finite and 0 elsewhere',
          'distance_wei', (A,), 'distance_bin', (A,), A, tag, far, pick_a=lambda r: r[1],
          pick_b=lambda D: np.where(np.isfinite(D), D, 0.0))
    _pair(acc, 'betweenness_wei~betweenness_bin/' + RB, msgb, 'betweenness_wei', (A,), 'betweenness_bin', (A,), A, tag, _any_nonzero)
    _pair(acc, 'edge_betweenness_wei~edge_betweenness_bin/' + RB, msgb + ' (EBC matrix and BC vector)',
          'edge_betweenness_wei', (A,), 'edge_betweenness_bin', (A,), A, tag, lambda ra, rb: bool(np.any(ra[1] != 0)))

    def pick_deg(r):
        return r[2]

    def pick_str(r):
        return r[2] if isinstance(r, tuple) and len(r) == 3 else r
    _pair(acc, 'strengths_dir~degrees_dir/' + RB, 'strengths_dir (in+out strength) on a 0/1 matrix differs from degrees_dir in+out degree',
          'strengths_dir', (A,), 'degrees_dir', (A,), A, tag, edges, pick_a=pick_str, pick_b=pick_deg)
    s, r = _run('strengths_dir', (A,))
    if s == 'ok' and isinstance(r, tuple) and len(r) == 3:      # should the documented triple ever be returned
        _pair(acc, 'strengths_dir~degrees_dir/' + RB + '/in-out', 'in-/out-strength differ from in-/out-degree on a 0/1 matrix',
              'strengths_dir', (A,), 'degrees_dir', (A,), A, tag, edges)
    if not sym:
        return
    # undirected pairs
    RS = 'REDUCES-symmetric'
    msgs = 'directed routine on a symmetric matrix differs from its undirected counterpart on the same matrix'
    _pair(acc, 'clustering_coef_wu~clustering_coef_bu/' + RB, msgb, 'clustering_coef_wu', (A,), 'clustering_coef_bu', (A,), A, tag, tri)
    _pair(acc, 'clustering_coef_bd~clustering_coef_bu/' + RS, msgs, 'clustering_coef_bd', (A,), 'clustering_coef_bu', (A,), A, tag, tri)
    if _has_triple_und(A):
        _pair(acc, 'transitivity_wu~transitivity_bu/' + RB, msgb, 'transitivity_wu', (A,), 'transitivity_bu', (A,), A, tag, tri)
        _pair(acc, 'transitivity_bd~transitivity_bu/' + RS, msgs, 'transitivity_bd', (A,), 'transitivity_bu', (A,), A, tag, tri)
    if n >= 2:
        _pair(acc, 'efficiency_wei~efficiency_bin/' + RB + '/global', msgb, 'efficiency_wei', (A,), 'efficiency_bin', (A,), A, tag,
              lambda ra, rb: 0 < float(rb) < 1)
        _pair(acc, 'efficiency_wei~efficiency_bin/' + RB + '/local', msgb + " (local=True, the Wang et al. 2016 generalisation)",
              'efficiency_wei', (A,), 'efficiency_bin', (A,), A, tag, _any_nonzero, kwa={'local': True}, kwb={'local': True})
    _pair(acc, 'strengths_und~degrees_und/' + RB, msgb, 'strengths_und', (A,), 'degrees_und', (A,), A, tag, edges)
    _pair(acc, 'assortativity_wei~assortativity_bin/' + RB, msgb + ' (flag 0)', 'assortativity_wei', (A, 0), 'assortativity_bin', (A, 0),
          A, tag, _finite_nonzero)
    _pair(acc, 'degrees_dir~degrees_und/' + RS, 'in-degree, out-degree of a symmetric matrix are not both equal to degrees_und',
          'degrees_dir', (A,), 'degrees_und', (A,), A, tag, edges, pick_a=lambda r: (r[0], r[1]), pick_b=lambda d: (d, d))


def check_symmetric_weighted(acc, W, tag):
    """W: symmetric, weights in (0,1], empty diagonal."""
    RS = 'REDUCES-symmetric'
    msgs = 'directed routine on a symmetric matrix differs from its undirected counterpart on the same matrix'
    tri = _has_triangle(W)
    _pair(acc, 'clustering_coef_wd~clustering_coef_wu/' + RS, msgs, 'clustering_coef_wd', (W,), 'clustering_coef_wu', (W,), W, tag, tri)
    if _has_triple_und(W):
        _pair(acc, 'transitivity_wd~transitivity_wu/' + RS, msgs, 'transitivity_wd', (W,), 'transitivity_wu', (W,), W, tag, tri)
    _pair(acc, 'degrees_dir~degrees_und/' + RS, 'in-degree, out-degree of a symmetric matrix are not both equal to degrees_und',
          'degrees_dir', (W,), 'degrees_und', (W,), W, tag, bool(W.any()), pick_a=lambda r: (r[0], r[1]), pick_b=lambda d: (d, d))


# ---------------------------------------------------------------------------------------------------------------------
# IGNORES-weights
# ---------------------------------------------------------------------------------------------------------------------
# (function, extra positional args, kwargs, input preparation, why it is in the list)
IGN_DIR = [   # accept directed (hence also symmetric) matrices
    ('degrees_dir', (), {}, None, 'docstring: "Weight information is discarded."'),
    ('jdegree', (), {}, 'int', 'docstring: "Weights are discarded." (called with integer dtype: it indexes with the degrees)'),
    ('density_dir', (), {}, None, 'docstring: "Weight information is discarded."'),
    ('distance_bin', (), {}, None, 'code: G = binarize(G, copy=True)'),
    ('findwalks', (), {}, None, 'docstring: "Weights are discarded."'),
    ('reachdist', (), {}, None, 'code: ensure_binary=True (default) -> binarize(CIJ)'),
    ('edge_nei_overlap_bd', (), {}, None, 'docstring: "If CIJ is weighted, the weights are ignored."'),
    ('assortativity_bin', (1,), {}, None, 'docstring: "all connection weights are ignored" (flag 1)'),
    ('assortativity_bin', (2,), {}, None, 'flag 2'),
    ('assortativity_bin', (3,), {}, None, 'flag 3'),
    ('assortativity_bin', (4,), {}, None, 'flag 4'),
]
IGN_UND = [   # documented for undirected matrices
    ('degrees_und', (), {}, None, 'docstring: "Weight information is discarded."'),
    ('density_und', (), {}, None, 'docstring: "Weight information is discarded."'),
    ('assortativity_bin', (0,), {}, None, 'docstring: "all connection weights are ignored" (flag 0)'),
    ('efficiency_bin', (), {}, None, 'code: G = binarize(G) (copy)'),
    ('efficiency_bin', (), {'local': True}, None, 'code: G = binarize(G) (copy)'),
    ('edge_nei_overlap_bu', (), {}, None, 'docstring: "If CIJ is weighted, the weights are ignored."'),
    ('get_components', (), {}, None, 'code: A = binarize(A, copy=True)'),
    ('gtom', (2,), {}, None, 'code: bm = binarize(adj, copy=True), adj not used afterwards'),
    ('dice_pairwise_und', ('rolled',), {}, None, 'docstring: "Treats the matrices as binary and undirected."'),
]
IGN_EXCLUDED = ('not tested (neither docstring nor an explicit binarize() says weights are discarded): kcore_bu/bd (return the weighted core matrix), '
                'rich_club_bu/bd (Ek sums the entries), clustering_coef_bu, betweenness_bin, breadthdist/breadth and edge_betweenness_bin (read '
                'only the non-zero pattern but do not say so); findpaths (documented, but raises TypeError/IndexError for every input: nothing to compare)')


def check_ignores(acc, W, tag):
    """W: positive weights, empty diagonal; compared with B = (W != 0)."""
    sym = bool(np.array_equal(W, W.T))
    B = (W != 0).astype(float)
    differs = not np.array_equal(W, B)
    for fname, extra, kw, prep, _why in IGN_DIR + (IGN_UND if sym else []):
        Wa, Ba = W, B
        if prep == 'int':
            Wa, Ba = np.ceil(W * 10).astype(int), B.astype(int)      # positive weights -> integers >= 1, same pattern
        ex_w = tuple(np.roll(np.roll(Wa, 1, 0), 1, 1) if e == 'rolled' else e for e in extra)
        ex_b = tuple(np.roll(np.roll(Ba, 1, 0), 1, 1) if e == 'rolled' else e for e in extra)
        sw, rw = _run(fname, (Wa,) + ex_w, kw)
        sb, rb = _run(fname, (Ba,) + ex_b, kw)
        label = fname + (repr(tuple(e for e in extra if not isinstance(e, str))) if any(not isinstance(e, str) for e in extra) else '') + \
            ('[local]' if kw.get('local') else '')
        key = '%s/IGNORES-weights' % fname
        wit = {'function': fname, 'args': [e for e in extra if not isinstance(e, str)], 'kwargs': kw, 'W': Wa.tolist(), 'binarised': Ba.tolist()}
        if sw == 'param' or sb == 'param':
            continue
        if sw == 'exc' and sb == 'exc':
            if type(rw) is type(rb):
                continue      # the routine fails alike on both (e.g. ZeroDivisionError of edge_nei_overlap_* on pendant edges): nothing to compare
            acc.violate(key, 'weighted input raised %r, its binarisation raised %r' % (rw, rb), wit)
        elif sw == 'exc' or sb == 'exc':
            acc.violate(key, 'raised on one of (weighted, binarised) only: weighted -> %r, binarised -> %r' %
                        (rw if sw == 'exc' else 'ok', rb if sb == 'exc' else 'ok'), wit)
        elif not _same(rw, rb):
            acc.violate(key, 'result for the weighted matrix differs from the result for its binarisation',
                        dict(wit, weighted_result=_js(rw), binarised_result=_js(rb)))
        acc.case(key=(label, tag), nontrivial=differs, sample={'function': label, 'W': Wa.tolist()})


# ---------------------------------------------------------------------------------------------------------------------
# workers
# ---------------------------------------------------------------------------------------------------------------------
PALETTES = ((0.2, 0.5, 1.0), (1.0, 2.0, 3.0))      # (0,1] for the clustering pairs; > 1 too for the weight-ignoring routines
PAL01 = ((0.2, 0.5, 1.0), (1.0, 0.3, 0.7, 0.05))


def _w(A, pal, symmetric, shift=0):
    p = tuple(pal[(k + shift) % len(pal)] for k in range(len(pal)))
    return G.weight_by_position(A, palette=p, symmetric=symmetric)


def worker_und(task):
    n, lo, hi, weighted_too, both = task
    acc = Acc()
    for bits in range(lo, hi):
        A = G.und_from_bits(n, bits)
        check_binary(acc, A, ('u', n, bits))
        if bits and weighted_too:
            for pi, pal in enumerate(PAL01):
                check_symmetric_weighted(acc, _w(A, pal, True, bits % 3), ('u', n, bits, 's', pi))
            for pi, pal in enumerate(PALETTES):
                if both or pi == bits % 2:
                    check_ignores(acc, _w(A, pal, True, bits % 3), ('u', n, bits, 'i', pi))
    return acc


def worker_dir(task):
    n, lo, hi, both = task
    acc = Acc()
    for bits in range(lo, hi):
        A = G.dir_from_bits(n, bits)
        check_binary(acc, A, ('d', n, bits))
        if bits:
            for pi, pal in enumerate(PALETTES):
                if both or pi == bits % 2:
                    check_ignores(acc, _w(A, pal, False, bits % 3), ('d', n, bits, 'i', pi))
    return acc


def worker_allsym(task):
    n, values, lo, hi = task
    acc = Acc()
    pr = G.und_pairs(n)
    for idx in range(lo, hi):
        W = np.zeros((n, n))
        k = idx
        for (i, j) in pr:
            W[i, j] = W[j, i] = values[k % len(values)]
            k //= len(values)
        check_symmetric_weighted(acc, W, ('s', n, values, idx))
    return acc


def worker_random(task):
    seed, count, nmin, nmax = task
    rng = np.random.RandomState(seed)
    acc = Acc()
    for c in range(count):
        n = int(rng.randint(nmin, nmax + 1))
        p = float(rng.choice([.15, .3, .5, .7, .9]))
        fam = c % 5
        if fam == 0:
            A = G.random_und(rng, n, p)
        elif fam == 1:
            A = G.random_dir(rng, n, p)
        else:
            A = None
        if A is not None:
            if rng.random_sample() < .3:
                v = int(rng.randint(n))
                A[v, :] = 0
                A[:, v] = 0
            check_binary(acc, A, ('r', seed, c))
            continue
        if fam == 2:      # symmetric, continuous weights in (0,1]
            S = G.random_und(rng, n, p)
            U = np.triu(1.0 - rng.random_sample((n, n)), 1)
            W = S * (U + U.T)
            check_symmetric_weighted(acc, W, ('r', seed, c, 's'))
            check_ignores(acc, W, ('r', seed, c, 'i'))
        elif fam == 3:    # symmetric, weights above and below 1
            S = G.random_und(rng, n, p)
            U = np.triu(rng.uniform(.1, 4, (n, n)), 1)
            check_ignores(acc, S * (U + U.T), ('r', seed, c, 'i'))
        else:             # directed, weights above and below 1
            check_ignores(acc, G.random_dir(rng, n, p) * rng.uniform(.1, 4, (n, n)), ('r', seed, c, 'i'))
    return acc


def _dispatch(task):
    kind = task[0]
    return {'u': worker_und, 'd': worker_dir, 's': worker_allsym, 'r': worker_random}[kind](task[1:])


def _chunks(total, size):
    return [(lo, min(total, lo + size)) for lo in range(0, total, size)]


def run_bounded(run, tier, seed):
    thorough = tier == 'thorough'
    n_und = 6 if thorough else 5
    n_dir = 4 if thorough else 3
    rule = ('one case = one pair of routines (or one routine on a weighted matrix and on its binarisation) evaluated on one matrix and compared '
            'with allclose(rtol 1e-9, atol 1e-12), inf and nan patterns must coincide; non-trivial = the compared quantity is not degenerate on '
            'that matrix (a triangle exists for clustering/transitivity, a pair at distance >= 2 or unreachable for distance, a non-zero '
            'betweenness, an edge for degrees/strengths, a finite assortativity, 0 < E < 1 for efficiency, a weight != 1 for IGNORES-weights); '
            'keyed by (pair or routine, matrix id)')
    pairs_bin = ['clustering_coef_wu~clustering_coef_bu (und)', 'clustering_coef_wd~clustering_coef_bd', 'transitivity_wu~transitivity_bu (und)',
                 'transitivity_wd~transitivity_bd', 'distance_wei[0]~distance_bin (+ edge-count matrix B)', 'betweenness_wei~betweenness_bin',
                 'edge_betweenness_wei~edge_betweenness_bin (EBC and BC)', 'efficiency_wei~efficiency_bin global and local=True (und, n >= 2)',
                 'strengths_und~degrees_und (und)', 'strengths_dir~degrees_dir[2]', 'assortativity_wei~assortativity_bin flag 0 (und)']
    pairs_sym = ['clustering_coef_bd~clustering_coef_bu', 'transitivity_bd~transitivity_bu', 'clustering_coef_wd~clustering_coef_wu',
                 'transitivity_wd~transitivity_wu', 'degrees_dir (in, out)~degrees_und']
    ign = ['%s%s %s -- %s' % (f, ex if ex else '', kw if kw else '', why) for f, ex, kw, _p, why in IGN_DIR + IGN_UND]

    part = 'exhaustive-small-matrices'
    run.bounded_part(part, bounds={
        '0/1 undirected': 'all labelled symmetric 0/1 matrices with empty diagonal, 1 <= n <= %d' % n_und,
        '0/1 directed': 'all labelled 0/1 matrices with empty diagonal, 1 <= n <= %d' % n_dir,
        'symmetric weighted': 'every non-empty undirected graph with n <= 5 weighted by position with palettes %r (REDUCES-symmetric) and %r '
                              '(IGNORES-weights%s); all symmetric matrices n = 4 with entries from (0, .2, .5, 1) (REDUCES-symmetric)'
                              % (PAL01, PALETTES, '' if thorough else '; quick tier: one of the two palettes per graph, alternating with the graph index'),
        'directed weighted': 'every non-empty digraph n <= %d weighted asymmetrically by position with palettes %r (IGNORES-weights, directed routines%s)'
                             % (n_dir, PALETTES, '' if thorough else '; quick tier: one palette per graph, alternating'),
        'REDUCES-binary pairs': pairs_bin, 'REDUCES-symmetric pairs': pairs_sym, 'IGNORES-weights routines': ign, 'IGNORES-weights excluded': IGN_EXCLUDED,
        'skipped': 'transitivity pairs on graphs with no connected triple (0/0); efficiency on directed input (both routines document undirected '
                   'input); assortativity_wei flag != 0 (raises for every input, outside C10); IGNORES-weights cases where the routine raises the '
                   'same exception type on both inputs'},
        rule=rule, exhaustive=True)
    tasks = []
    for n in range(1, n_und + 1):
        tasks += [('u', n, lo, hi, n <= 5, thorough) for lo, hi in _chunks(G.n_und(n), 32)]
    for n in range(1, n_dir + 1):
        tasks += [('d', n, lo, hi, thorough) for lo, hi in _chunks(G.n_dir(n), 32)]
    vals = (0.0, 0.2, 0.5, 1.0)
    tasks += [('s', 4, vals, lo, hi) for lo, hi in _chunks(len(vals) ** 6, 512)]
    merge_all(run, part, pmap(_dispatch, tasks))

    part = 'random'
    nrand = 480 if thorough else 64
    per = 40 if thorough else 25
    run.bounded_part(part, bounds={
        'random': '%d seeds x %d matrices, 6 <= n <= 9, five families in rotation: 0/1 undirected, 0/1 directed (30%% with an isolated node; all '
                  'REDUCES-binary / -symmetric pairs), symmetric with continuous weights in (0,1] (REDUCES-symmetric and IGNORES-weights), symmetric '
                  'and directed with weights in [0.1,4) (IGNORES-weights); density from {.15,.3,.5,.7,.9}; seed base = VERIF_SEED' % (nrand, per)},
        rule=rule, exhaustive=False)
    tasks = [('r', seed * 100003 + 31 * s + 7, per, 6, 9) for s in range(nrand)]
    merge_all(run, part, pmap(_dispatch, tasks))
