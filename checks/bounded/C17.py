"""C17 bounded stand-in: thresholding and weight conversion keep exactly the documented entries.

Oracles are the property statement written out cell by cell (exact rational arithmetic for the number of connections to keep).

How "possible connections" is counted (read from threshold_proportional): n^2 - n ordered off-diagonal cells; a matrix that is
symmetric after its diagonal has been cleared is thresholded on its upper triangle with (n^2 - n)/2 possible undirected
connections and mirrored, so it keeps 2 * round(p (n^2 - n) / 2) cells.

Float representation of p: the number to keep is round-half-away-from-zero(x) with x = p * count.  x is evaluated exactly
(fractions.Fraction of the float p).  If x is exactly a half-integer, or farther than 1e-9 from every half-integer, the rounding
is unambiguous and enforced.  If p is a float such as 0.5/6 whose exact product lies within 1e-9 of a half-integer without
being one, both neighbouring integers are accepted (float64-as-reals assumption; the code's own float product lands on .5).
"""
from fractions import Fraction
import itertools, math
import numpy as np
import bct
from bct.utils.miscellaneous_utilities import teachers_round
from engine.par import pmap, Acc, merge_all

# teachers_round(-0.49999999999999994) returns -1 (x % 1 rounds to exactly 0.5 in float64); the one-ulp neighbours of +-0.5
# are left out of the grid unless this is set (then reported under .../one-ulp-from-half).
ULP_NEIGHBOURS = False
BOTH_FLAGS_EVERYWHERE = True      # set by run_bounded: quick tier runs copy=False on every second 3 x 3 matrix only


# ---------------------------------------------------------------------------------------------- oracles
def round_half_away(x):
    """x: Fraction -> int"""
    if x >= 0:
        return math.floor(x + Fraction(1, 2))
    return -math.floor(-x + Fraction(1, 2))


_AC = {}


def allowed_counts(p, count):
    key = (float(p), count)
    if key not in _AC:
        _AC[key] = _allowed_counts(p, count)
    return _AC[key]


def _allowed_counts(p, count):
    x = Fraction(float(p)) * count
    exact = round_half_away(x)
    twice = 2 * x
    near_half = abs(twice - round(twice)) < Fraction(2, 10 ** 9) and round(twice) % 2 == 1
    if twice.denominator == 1 or not near_half:
        return {exact}
    return {math.floor(x), math.ceil(x)}


def p_grid(n):
    ps = {0.0, 1.0, 0.1, 0.3, 0.77}
    for c in {n * n - n, (n * n - n) // 2}:
        if c <= 0:
            continue
        for m in range(c):
            ps.add((m + .5) / c)
        for m in range(c + 1):
            ps.add(m / c)
    return sorted(x for x in ps if 0 <= x <= 1)


def _call(acc, fname, W, args, copy, wit, kw=None):
    """Calls bct.<fname>(arg, *args, copy=copy) on a private copy; checks the copy contract.  Returns (result, ok)."""
    f = getattr(bct, fname)
    arg = W.copy()
    try:
        R = f(arg, *args, copy=copy)
    except bct.BCTParamError:
        return None
    except Exception as e:
        acc.violate('%s/RAISES-%s' % (fname, type(e).__name__), 'in-domain input raised %r' % (e,), wit)
        return None
    if not isinstance(R, np.ndarray) or R.shape != W.shape:
        acc.violate('%s/POST-returns-matrix-of-same-shape' % fname, 'returned %r' % (type(R),), wit)
        return None
    if copy:
        if not np.array_equal(arg, W):
            acc.violate('%s/FRAME-copy-true-argument-untouched' % fname, 'copy=True but the argument was modified', wit)
        if R is arg or np.shares_memory(R, arg):
            acc.violate('%s/POST-copy-true-returns-new-object' % fname, 'copy=True but the result is (a view of) the argument', wit)
    else:
        if R is not arg:
            acc.violate('%s/POST-copy-false-returns-the-argument' % fname, 'copy=False but the returned object is not the argument itself'
                        + ('' if np.array_equal(arg, R) else ' (and the argument does not hold the result)'), wit)
    return R


def check_threshold_proportional(acc, W, p, copy, ident):
    fname = 'threshold_proportional'
    n = len(W)
    wit = {'function': fname, 'W': W.tolist(), 'dtype': str(W.dtype), 'p': repr(float(p)), 'copy': copy}
    R = _call(acc, fname, W, (p,), copy, wit)
    if R is None:
        acc.case()
        return
    off = ~np.eye(n, dtype=bool)
    W0 = np.where(off, W, 0)
    sym = np.array_equal(W0, W0.T)
    links = (W0 != 0)
    kept = (R != 0)
    if np.any(np.diag(R) != 0):
        acc.violate(fname + '/POST-diagonal-cleared', 'nonzero diagonal in the result', wit)
    if np.any((R != W0) & (R != 0)) or np.any(kept & ~links):
        acc.violate(fname + '/POST-kept-entries-keep-their-weight', 'a cell of the result is neither 0 nor the input weight', wit)
    if sym:
        pairs = int(np.triu(links, 1).sum())
        allowed = {2 * min(e, pairs) for e in allowed_counts(p, (n * n - n) // 2)}      # n^2 - n is even
        if not np.array_equal(R, R.T):
            acc.violate(fname + '/POST-symmetric-input-gives-symmetric-output', 'input symmetric, output not', wit)
    else:
        allowed = {min(e, int(links.sum())) for e in allowed_counts(p, n * n - n)}
    got = int((kept & off).sum())
    if got not in allowed:
        acc.violate(fname + '/POST-keeps-round-p-times-possible-connections',
                    '%d off-diagonal cells kept, expected %s (%s input, %d links present, p*count = %s)'
                    % (got, sorted(allowed), 'symmetric' if sym else 'asymmetric', int(links.sum()), float(Fraction(float(p)) * (n * n - n) / (2 if sym else 1))), wit)
    dropped = links & ~kept & off
    kk = kept & off & links
    if kk.any() and dropped.any() and W0[kk].min() < W0[dropped].max():
        acc.violate(fname + '/POST-kept-are-the-strongest', 'kept weight %r < dropped weight %r' % (float(W0[kk].min()), float(W0[dropped].max())), wit)
    tie = bool(kk.any() and dropped.any() and W0[kk].min() == W0[dropped].max())
    acc.case(key=ident + (repr(float(p)), copy), nontrivial=bool(kk.any() and dropped.any()),
             sample={'function': fname, 'W': W.tolist(), 'p': float(p), 'copy': copy, 'kept_cells': got, 'tie_at_cut': tie})


def check_elementwise(acc, W, ident, thrs, float_ok, copies=(True, False)):
    """threshold_absolute, binarize, normalize, invert, weight_conversion on one matrix, both copy flags."""
    n = len(W)
    off = ~np.eye(n, dtype=bool)
    for copy in copies:
        for thr in thrs:
            fname = 'threshold_absolute'
            wit = {'function': fname, 'W': W.tolist(), 'dtype': str(W.dtype), 'thr': thr, 'copy': copy}
            R = _call(acc, fname, W, (thr,), copy, wit)
            if R is not None:
                exp = np.where(off & (W >= thr), W, 0)
                if not np.array_equal(R, exp):
                    acc.violate(fname + '/POST-keeps-exactly-offdiagonal-entries-not-below-thr', 'result %r, expected %r' % (R.tolist(), exp.tolist()), wit)
                acc.case(key=ident + (fname, thr, copy), nontrivial=bool((exp != 0).any() and ((W != 0) & (exp == 0) & off).any()),
                         sample={'function': fname, 'W': W.tolist(), 'thr': thr, 'copy': copy})
        # binarize (directly and through weight_conversion)
        for fname, args in (('binarize', ()), ('weight_conversion', ('binarize',))):
            wit = {'function': fname, 'args': list(args), 'W': W.tolist(), 'dtype': str(W.dtype), 'copy': copy}
            R = _call(acc, fname, W, args, copy, wit)
            if R is not None:
                if not np.array_equal(R, (W != 0).astype(W.dtype)):
                    acc.violate('%s/POST-%s' % (fname, 'nonzero-becomes-1' if not args else 'dispatch-binarize'), 'result %r' % (R.tolist(),), wit)
                acc.case(key=ident + (fname, args, copy), nontrivial=bool(((W != 0) & (W != 1)).any()), sample={'function': fname, 'W': W.tolist(), 'copy': copy})
        if not float_ok:
            continue
        # normalize: domain = some nonzero entry
        if np.any(W != 0):
            for fname, args in (('normalize', ()), ('weight_conversion', ('normalize',))):
                wit = {'function': fname, 'args': list(args), 'W': W.tolist(), 'dtype': str(W.dtype), 'copy': copy}
                R = _call(acc, fname, W, args, copy, wit)
                if R is not None:
                    exp = W / np.abs(W).max()
                    cl = 'largest-magnitude-is-1-by-uniform-scaling' if not args else 'dispatch-normalize'
                    if not np.allclose(R, exp, rtol=1e-9, atol=1e-12) or not np.isclose(np.abs(R).max(), 1.0, rtol=1e-9, atol=1e-12):
                        acc.violate('%s/POST-%s' % (fname, cl), 'result %r, expected %r' % (R.tolist(), exp.tolist()), wit)
                    acc.case(key=ident + (fname, args, copy), nontrivial=bool(np.abs(W).max() != 1), sample={'function': fname, 'W': W.tolist(), 'copy': copy})
        # invert
        for fname, args in (('invert', ()), ('weight_conversion', ('lengths',))):
            wit = {'function': fname, 'args': list(args), 'W': W.tolist(), 'dtype': str(W.dtype), 'copy': copy}
            R = _call(acc, fname, W, args, copy, wit)
            if R is not None:
                exp = np.zeros_like(W, dtype=float)
                nz = W != 0
                exp[nz] = 1.0 / W[nz]
                cl = 'nonzero-w-becomes-1-over-w' if not args else 'dispatch-lengths-is-invert'
                if not np.allclose(R, exp, rtol=1e-9, atol=1e-12) or np.any((R != 0) != nz):
                    acc.violate('%s/POST-%s' % (fname, cl), 'result %r, expected %r' % (R.tolist(), exp.tolist()), wit)
                else:
                    R2 = _call(acc, fname, R, args, copy, dict(wit, W=R.tolist(), note='second application'))
                    if R2 is not None and (not np.allclose(R2, W, rtol=1e-9, atol=1e-12) or np.any((R2 != 0) != nz)):
                        acc.violate('%s/POST-invert-undoes-itself' % fname, 'invert(invert(W)) = %r differs from W' % (R2.tolist(),), wit)
                acc.case(key=ident + (fname, args, copy), nontrivial=bool((nz & (np.abs(W) != 1)).any()), sample={'function': fname, 'W': W.tolist(), 'copy': copy})


# ---------------------------------------------------------------------------------------------- workers
def _full_matrix(n, values, idx, dtype):
    nv = len(values)
    W = np.zeros((n, n), dtype=dtype)
    x = idx
    for i in range(n):
        for j in range(n):
            W[i, j] = values[x % nv]
            x //= nv
    return W


def worker_prop(task):
    n, idxlist, dtype, copies = task
    acc = Acc()
    ps = p_grid(n)
    for idx in idxlist:
        W = _full_matrix(n, (0, 1, 2), idx, dtype)
        for p in ps:
            for copy in copies:
                if copy is False and n == 3 and idx % 2 and not BOTH_FLAGS_EVERYWHERE:
                    continue
                check_threshold_proportional(acc, W, p, copy, (n, idx, str(np.dtype(dtype))))
    return acc


DIAGS = {3: [(0, 0, 0), (1, -2, 2)]}
VALS5 = (-2, -1, 0, 1, 2)
THRS = (-2.5, -2, -1, -0.5, 0, 0.5, 1, 1.5, 2, 2.5)


def _elem_matrix(n, idx, diag, dtype):
    W = np.zeros((n, n), dtype=dtype)
    x = idx
    for i in range(n):
        for j in range(n):
            if i != j:
                W[i, j] = VALS5[x % 5]
                x //= 5
    for i in range(n):
        W[i, i] = diag[i]
    return W


def worker_elem(task):
    n, idxlist, dtype, diags = task
    acc = Acc()
    float_ok = np.dtype(dtype).kind == 'f'
    for idx in idxlist:
        if n <= 2:
            W = _full_matrix(n, VALS5, idx, dtype)
            check_elementwise(acc, W, (n, idx, str(np.dtype(dtype))), THRS, float_ok)
        else:
            for d in diags:
                diag = DIAGS[n][d]
                W = _elem_matrix(n, idx, diag, dtype)
                check_elementwise(acc, W, (n, idx, d, str(np.dtype(dtype))), THRS, float_ok,
                                  copies=(True, False) if (BOTH_FLAGS_EVERYWHERE or idx % 2 == 0) else (True,))
    return acc


def worker_random(task):
    seed, count = task
    rng = np.random.RandomState(seed)
    acc = Acc()
    for c in range(count):
        n = int(rng.randint(4, 7))
        dens = rng.uniform(.2, 1.0)
        style = rng.randint(3)
        if style == 0:
            V = rng.choice([.5, 1., 2., 3.], size=(n, n))          # many ties
        elif style == 1:
            V = np.round(rng.uniform(.1, 5, (n, n)), 1)            # some ties
        else:
            V = rng.uniform(.01, 1, (n, n))
        V = V * (rng.random_sample((n, n)) < dens)
        symm = rng.rand() < .5
        if symm:
            V = np.triu(V, 1)
            V = V + V.T
        if rng.rand() < .5:
            V[np.diag_indices(n)] = rng.choice([0., 1., 7.], size=n)
        W0 = V.copy()
        np.fill_diagonal(W0, 0)
        if np.allclose(W0, W0.T) != np.array_equal(W0, W0.T):
            continue                                               # nearly symmetric: which branch applies is not documented
        ps = p_grid(n) + [float(x) for x in rng.uniform(0, 1, 6)]
        for p in ps:
            check_threshold_proportional(acc, V, p, bool(rng.rand() < .5), ('rnd', seed, c))
        if style == 0:
            Vi = V.astype(int)
            if np.array_equal(Vi, V):
                check_threshold_proportional(acc, Vi, ps[int(rng.randint(len(ps)))], True, ('rnd-int', seed, c))
        S = V * rng.choice([-1., 1.], size=(n, n))                 # signed for the elementwise utilities
        if symm:
            S = np.triu(S, 1) + np.triu(S, 1).T + np.diag(np.diag(V))
        ent = np.unique(S)
        thrs = sorted(set(float(x) for x in rng.choice(ent, size=min(4, len(ent)), replace=False)) | {0.0, float(ent.max()) + 1, float(ent.min()) - 1,
                                                                                                         float((ent[0] + ent[-1]) / 2)})
        check_elementwise(acc, S, ('rnd', seed, c), thrs, True)
    return acc


def worker_round(task):
    xs = task
    acc = Acc()
    for x in xs:
        for val in (float(x), np.float64(x)) + ((int(x),) if float(x) == int(x) else ()):
            wit = {'function': 'teachers_round', 'x': repr(val), 'type': type(val).__name__}
            exp = round_half_away(Fraction(float(val)))
            try:
                got = teachers_round(val)
            except Exception as e:
                acc.violate('teachers_round/RAISES-%s' % type(e).__name__, 'raised %r' % (e,), wit)
                continue
            half = abs(Fraction(float(val)) * 2) % 2 == 1
            ulp = any(float(val) in (np.nextafter(h, 0), np.nextafter(h, 2 * h)) for h in (.5, -.5))
            if got != exp or not isinstance(got, (int, np.integer)):
                acc.violate('teachers_round/POST-round-half-away-from-zero' + ('/one-ulp-from-half' if ulp else ''),
                            'teachers_round(%r) = %r, expected %r' % (val, got, exp), wit)
            acc.case(key=('teachers_round', repr(val), type(val).__name__), nontrivial=bool(half), sample={'x': float(val), 'result': int(exp)})
    return acc


def chunks(lst, k):
    k = max(1, k)
    return [lst[i::k] for i in range(k) if lst[i::k]]


def run_bounded(run, tier, seed):
    global BOTH_FLAGS_EVERYWHERE
    thorough = tier == 'thorough'
    BOTH_FLAGS_EVERYWHERE = thorough          # read by the forked workers
    # ---- threshold_proportional, exhaustive small -------------------------------------------------------------------
    run.bounded_part('threshold_proportional-all-matrices-n<=3',
                     bounds={'matrices': 'every n x n matrix (diagonal included) with entries in {0,1,2}, n = 1..3 (3 + 81 + 19683), float64; int64 with copy=True%s' % ('' if thorough else ' (n = 3: every 5th matrix)'),
                             'p': 'for each n: 0, 1, .1, .3, .77, every m/c and every (m+.5)/c for c = n^2-n and c = (n^2-n)/2 (all values where p x count lands on .5; '
                                  'exact in float for p = .25, .5, .75; for the others both neighbouring integers are accepted, see module docstring)',
                             'copy': 'True and False' + ('' if thorough else ' (n = 3: copy=False on every second matrix)')},
                     rule='one case = (matrix, p, copy); non-trivial = at least one connection kept and one dropped; distinct by (n, matrix index, dtype, p, copy)',
                     exhaustive=thorough)
    tasks = []
    for n in (1, 2, 3):
        cnt = 3 ** (n * n)
        for ch in chunks(list(range(cnt)), 48 if n == 3 else 1):
            tasks.append((n, ch, float, (True, False)))
        ints = list(range(cnt)) if (thorough or n < 3) else list(range(0, cnt, 5))
        for ch in chunks(ints, 16 if n == 3 else 1):
            tasks.append((n, ch, int, (True,)))
    merge_all(run, 'threshold_proportional-all-matrices-n<=3', pmap(worker_prop, tasks))
    # ---- elementwise utilities --------------------------------------------------------------------------------------
    run.bounded_part('elementwise-utilities-small',
                     bounds={'matrices': 'every matrix with entries in {-2..2} for n = 1, 2 (5 + 625); n = 3, float64: all 5^6 = 15625 off-diagonal assignments with diagonal (0,0,0)%s' % (' and with diagonal (1,-2,2)' if thorough else '; every 3rd of them with diagonal (1,-2,2)'),
                             'thr': list(THRS), 'copy': 'True and False' + ('' if thorough else ' (n = 3: copy=False on every second assignment)'),
                             'dtype': 'float64 for all; int64 (n = 3: %s) for threshold_absolute and binarize only (normalize raises and invert truncates on integer arrays: not in the accepted domain)' % ('all assignments, both diagonals' if thorough else 'every 6th assignment, both diagonals'),
                             'functions': 'threshold_absolute, binarize, normalize (some nonzero entry), invert, invert twice, weight_conversion binarize/normalize/lengths'},
                     rule='one case = (function, matrix, parameter, copy); non-trivial = an entry is changed and an entry is kept (binarize: a weight other than 0/1; normalize: max |w| != 1; '
                          'invert: a weight other than 0, +-1)', exhaustive=thorough)
    tasks = []
    for n in (1, 2):
        tasks.append((n, list(range(5 ** (n * n))), float, (0,)))
        tasks.append((n, list(range(5 ** (n * n))), int, (0,)))
    for ch in chunks(list(range(5 ** 6)), 48):
        tasks.append((3, ch, float, (0, 1) if thorough else (0,)))
    if not thorough:
        for ch in chunks(list(range(0, 5 ** 6, 3)), 16):
            tasks.append((3, ch, float, (1,)))
    for ch in chunks(list(range(0, 5 ** 6, 1 if thorough else 6)), 16):
        tasks.append((3, ch, int, (0, 1)))
    merge_all(run, 'elementwise-utilities-small', pmap(worker_elem, tasks))
    # ---- random n = 4..6 --------------------------------------------------------------------------------------------
    per, nt = (60, 32) if thorough else (25, 16)
    run.bounded_part('thresholding-random-n4-6',
                     bounds={'n': '4..6', 'matrices': '%d seeded random matrices (tie-heavy palette, one-decimal and continuous weights; dense to sparse; symmetric and not; '
                                                      'zero and nonzero diagonals), signed copies for the elementwise utilities' % (per * nt),
                             'p': 'the full half-landing grid of n plus 6 random p', 'thr': 'existing entries, midpoint, beyond both ends', 'copy': 'both (random per call for proportional)'},
                     rule='as in the exhaustive parts; nearly-but-not-exactly symmetric matrices are not generated', exhaustive=False)
    merge_all(run, 'thresholding-random-n4-6', pmap(worker_random, [(seed * 104729 + 31 * t + 5, per) for t in range(nt)]))
    # ---- teachers_round ---------------------------------------------------------------------------------------------
    xs = [q / 8.0 for q in range(-96, 97)]
    xs += [m + .5 for m in (10 ** 3, 10 ** 6, 2 ** 40, 2 ** 51)] + [-(m + .5) for m in (10 ** 3, 10 ** 6, 2 ** 40, 2 ** 51)]
    for h in (.5, 1.5, 2.5, 3.5, 100.5):
        for e in (2.0 ** -30, 2.0 ** -45):
            xs += [h - e, h + e, -h - e, -h + e]
    xs += [1e-300, -1e-300, 1e-17, -1e-17, 0.0]
    if ULP_NEIGHBOURS:
        xs += [float(np.nextafter(h, 0)) for h in (.5, -.5)] + [float(np.nextafter(h, 2 * h)) for h in (.5, -.5)]
    run.bounded_part('teachers_round-grid',
                     bounds={'x': 'every multiple of 1/8 in [-12, 12]; +-(m + .5) for m = 10^3, 10^6, 2^40, 2^51; half-integers +- 2^-30 and 2^-45; tiny values; '
                                  'python float, numpy float64 and (integral values) int' + ('; one-ulp neighbours of +-0.5' if ULP_NEIGHBOURS else '')},
                     rule='one case = one x; non-trivial = x is a half-integer; oracle in exact rational arithmetic', exhaustive=True)
    merge_all(run, 'teachers_round-grid', pmap(worker_round, chunks(xs, 4)))
