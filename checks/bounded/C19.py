"""C19 bounded stand-in: nbs_bct against an oracle built from scipy.stats t tests and an own component finder; the null
distribution is recomputed for exactly the relabellings the function drew (engine.srng.Scripted logs every draw)."""
import contextlib, io, warnings
import numpy as np
import scipy.stats as st
import bct
from engine import graphs as G
from engine.par import pmap, Acc, merge_all
from engine.srng import Scripted, DrawLimit

FN = 'nbs_bct'
TIE = 1e-9          # |t - thresh| below this (relative to 1 + |thresh|): the case is not decided by the property in floating point, skipped
SWAP = {'left': 'right', 'right': 'left', 'both': 'both'}


class Acc19(Acc):
    def __init__(self):
        Acc.__init__(self)
        self.skipped = {}

    def skip(self, why):
        self.skipped[why] = self.skipped.get(why, 0) + 1


# ---- oracle ------------------------------------------------------------------------------------------------------------
def edge_values(x, pairs):
    """n x n x P stack -> (m, P) array of the upper-triangular cells."""
    return np.array([[x[i, j, s] for s in range(x.shape[2])] for (i, j) in pairs], dtype=float)


def oracle_stat(xv, yv, tail, paired):
    """t statistic per edge in the requested tail (larger = more extreme in the tested direction) and a mask of edges where
    it is defined (non-zero variance)."""
    with warnings.catch_warnings(), np.errstate(all='ignore'):
        warnings.simplefilter('ignore')
        if paired:
            d = xv - yv
            defined = np.ptp(d, axis=1) > 0
            t = np.asarray(st.ttest_rel(xv, yv, axis=1).statistic, dtype=float)     # sign of mean(x - y)
        else:
            defined = (np.ptp(xv, axis=1) > 0) | (np.ptp(yv, axis=1) > 0)
            t = np.asarray(st.ttest_ind(xv, yv, axis=1, equal_var=True).statistic, dtype=float)   # sign of mean(x) - mean(y)
    if tail == 'left':        # x < y
        t = -t
    elif tail == 'both':
        t = np.abs(t)
    return t, defined


def supra(t, defined, thresh):
    """(set of suprathreshold edge indices, ambiguous?)"""
    td = t[defined]
    amb = bool(np.any(np.abs(td - thresh) <= TIE * (1 + abs(thresh)))) or bool(np.any(~np.isfinite(td)))
    return [e for e in range(len(t)) if defined[e] and t[e] > thresh], amb


def edge_components(n, pairs, edges):
    """Connected components (as frozensets of edge indices) of the graph formed by the given edges; own BFS."""
    nb = {v: [] for v in range(n)}
    for e in edges:
        i, j = pairs[e]
        nb[i].append((j, e))
        nb[j].append((i, e))
    seen = set()
    out = []
    for s in range(n):
        if s in seen or not nb[s]:
            continue
        seen.add(s)
        queue = [s]
        es = set()
        while queue:
            u = queue.pop(0)
            for v, e in nb[u]:
                es.add(e)
                if v not in seen:
                    seen.add(v)
                    queue.append(v)
        out.append(frozenset(es))
    return out


def observed_components(x, y, pairs, thresh, tail, paired):
    n = x.shape[0]
    t, defined = oracle_stat(edge_values(x, pairs), edge_values(y, pairs), tail, paired)
    edges, amb = supra(t, defined, thresh)
    return edge_components(n, pairs, edges), amb, t, defined


def adj_partition(adj, pairs):
    """label -> frozenset(edge indices) from the function's adjacency output (upper triangle)."""
    d = {}
    for e, (i, j) in enumerate(pairs):
        if adj[i, j] != 0:
            d.setdefault(float(adj[i, j]), set()).add(e)
    return {k: frozenset(v) for k, v in d.items()}


# ---- inputs ------------------------------------------------------------------------------------------------------------
def make_case(spec):
    seed, n, paired, tail, thresh, k = spec
    rng = np.random.RandomState(seed)
    pairs = G.und_pairs(n)
    m = len(pairs)
    nx = int(rng.randint(3, 7))
    if paired:
        ny = nx
    else:
        ny = int(rng.randint(3, 7))
        if ny == nx and rng.random_sample() < 0.8:
            ny = 3 + (nx - 3 + 1 + int(rng.randint(0, 3))) % 4          # mostly unequal group sizes
    xv = rng.standard_normal((m, nx))
    if paired:
        yv = 0.6 * xv + 0.8 * rng.standard_normal((m, ny))
    else:
        yv = rng.standard_normal((m, ny))
    delta = float(rng.choice([0.0, 0.0, 1.0, 2.0, 3.5]))
    order = rng.permutation(n)
    s1 = int(rng.randint(2, n))                     # nodes of the block with x > y
    S1 = set(order[:s1].tolist())
    S2 = set(order[s1:].tolist())                   # block with x < y (needs >= 2 nodes to contain an edge)
    for e, (i, j) in enumerate(pairs):
        if i in S1 and j in S1 and rng.random_sample() < 0.8:
            xv[e] += delta
        elif i in S2 and j in S2 and rng.random_sample() < 0.8:
            xv[e] -= delta
    nconst = int(rng.randint(0, 4))
    const_edges = sorted(rng.choice(m, size=nconst, replace=False).tolist())
    for e in const_edges:                           # same constant in every subject of both groups: zero variance, zero difference
        c = float(rng.choice([0.0, 0.7, -2.0]))
        xv[e] = c
        yv[e] = c
    half = int(rng.randint(0, 3))
    if half and m > nconst:                         # an edge constant in one group only (t is defined there)
        e = int(rng.choice([e for e in range(m) if e not in const_edges]))
        xv[e] = 0.25
    x = np.zeros((n, n, nx))
    y = np.zeros((n, n, ny))
    for e, (i, j) in enumerate(pairs):
        x[i, j] = x[j, i] = xv[e]
        y[i, j] = y[j, i] = yv[e]
    if rng.random_sample() < 0.5:                   # the diagonal carries data too (ignored by the method)
        for i in range(n):
            x[i, i] = rng.standard_normal(nx)
            y[i, i] = rng.standard_normal(ny)
    # a constant whose floating-point mean / variance over nx or ny copies is not exact (0.7: mean of three copies is 0.7000000000000001)
    # is a separate input class: the property still requires 'not marked', but a violation there has its own key
    inexact = (not paired) and any(np.var(xv[e], ddof=1) != 0 or np.var(yv[e], ddof=1) != 0 or np.mean(xv[e]) != np.mean(yv[e]) for e in const_edges)
    return x, y, pairs, const_edges, {'delta': delta, 'nx': nx, 'ny': ny, 'inexact': bool(inexact)}


def call_nbs(x, y, thresh, k, tail, paired, rng):
    buf = io.StringIO()
    with contextlib.redirect_stdout(buf), warnings.catch_warnings(), np.errstate(all='ignore'):
        warnings.simplefilter('ignore')
        return bct.nbs_bct(x.copy(), y.copy(), thresh, k=k, tail=tail, paired=paired, verbose=False, seed=rng)


def relabellings_from_log(log, k, nx, ny, paired):
    """The subject relabellings the function drew, or None if the log does not have the shape of k relabellings."""
    if paired:
        vals = [v for kind, arg, v in log if kind == 'random']
        if len(vals) != k * nx or len(vals) != len(log):
            return None
        return [np.array(vals[u * nx:(u + 1) * nx]) for u in range(k)]
    perms = [v for kind, arg, v in log if kind == 'perm' and arg == nx + ny]
    if len(perms) != k or len(perms) != len(log):
        return None
    return [np.array(p, dtype=int) for p in perms]


def check_case(acc, spec):
    seed, n, paired, tail, thresh, k = spec
    x, y, pairs, const_edges, info = make_case(spec)
    nx, ny = info['nx'], info['ny']
    m = len(pairs)
    key = tuple(spec)
    wit = {'function': FN, 'x': x.tolist(), 'y': y.tolist(), 'thresh': thresh, 'k': k, 'tail': tail, 'paired': paired,
           'seed': 'engine.srng.Scripted((), fallback_seed=%d)' % (seed + 5), 'case_spec': list(spec)}
    comps, amb, t, defined = observed_components(x, y, pairs, thresh, tail, paired)
    if amb:
        acc.skip('t within 1e-9 of the threshold (observed)')
        acc.case()
        return
    cls = ('paired' if paired else 'unpaired') + '-' + tail + ('/zero-variance-inexact-mean' if info['inexact'] else '')
    rng = Scripted((), fallback_seed=seed + 5, max_log=100000, max_draws=200000)
    try:
        pvals, adj, null = call_nbs(x, y, thresh, k, tail, paired, rng)
    except bct.BCTParamError as e:
        acc.case()
        if comps:
            w = dict(wit)
            w['oracle_t'] = t.tolist()
            acc.violate('%s/POST-suprathreshold-set/%s' % (FN, cls),
                        'rejected (%s) although %d connections exceed the threshold in the requested tail' % (e, sum(map(len, comps))), w)
        return
    except DrawLimit:
        acc.skip('draw limit')
        acc.case()
        return
    except Exception as e:
        acc.case()
        acc.violate('%s/RAISES-%s/%s' % (FN, type(e).__name__, cls), 'in-domain input raised %r' % (e,), wit)
        return
    pvals = np.atleast_1d(np.asarray(pvals, dtype=float))
    adj = np.asarray(adj, dtype=float)
    null = np.atleast_1d(np.asarray(null, dtype=float))
    n_supra = sum(map(len, comps))
    w = dict(wit)
    w.update({'oracle_t': t.tolist(), 'oracle_components': [sorted(pairs[e] for e in c) for c in comps],
              'pvals': pvals.tolist(), 'adj': adj.tolist(), 'null': null.tolist()})
    nontrivial = len(comps) >= 1 and n_supra < m
    acc.case(key=key, nontrivial=nontrivial,
             sample={'function': FN, 'n': n, 'nx': nx, 'ny': ny, 'paired': paired, 'tail': tail, 'thresh': thresh, 'k': k, 'case_seed': seed,
                     'constant_edges': len(const_edges), 'inexact_constant': info['inexact'], 'observed_component_sizes': sorted(map(len, comps)), 'null': null.tolist()[:10]})
    # -- adjacency output ---------------------------------------------------------------------------------------------
    ok_shape = adj.shape == (n, n)
    if not ok_shape or not np.array_equal(adj, adj.T) or np.any(np.diag(adj) != 0):
        acc.violate('%s/POST-adj-symmetric-empty-diagonal/%s' % (FN, cls), 'adj is not a symmetric n x n matrix with empty diagonal', w)
    if not ok_shape:
        return
    part = adj_partition(adj, pairs)
    marked = frozenset().union(*part.values()) if part else frozenset()
    want = frozenset().union(*comps) if comps else frozenset()
    if marked != want:
        extra = sorted(pairs[e] for e in marked - want)
        missing = sorted(pairs[e] for e in want - marked)
        zc = [pairs[e] for e in marked - want if e in const_edges]
        acc.violate('%s/POST-adj-marks-exactly-suprathreshold/%s' % (FN, cls),
                    'marked but not suprathreshold: %s (of these with the same value in every subject of both groups: %s); suprathreshold but not marked: %s' % (extra, zc, missing), w)
    part_ok = set(part.values()) == set(comps) and len(part) == len(comps)
    if marked == want and not part_ok:
        acc.violate('%s/POST-adj-labelled-by-component/%s' % (FN, cls),
                    'cells with equal label do not coincide with the connected components of the suprathreshold connections: labels %s'
                    % ({k_: sorted(pairs[e] for e in v) for k_, v in part.items()},), w)
    labels = sorted(part.keys())
    if labels != [float(l) for l in range(1, len(comps) + 1)] and marked == want:
        acc.violate('%s/POST-labels-1..C/%s' % (FN, cls), 'adj uses labels %s for %d components' % (labels, len(comps)), w)
    # -- p-values -----------------------------------------------------------------------------------------------------
    if len(null) != k:
        acc.violate('%s/POST-null-length-k/%s' % (FN, cls), 'len(null) = %d, k = %d' % (len(null), k), w)
    if len(pvals) != len(comps):
        acc.violate('%s/POST-one-pvalue-per-component/%s' % (FN, cls), '%d p-values for %d components' % (len(pvals), len(comps)), w)
    elif part_ok and labels == [float(l) for l in range(1, len(comps) + 1)] and len(null) == k:
        for l in range(1, len(comps) + 1):
            size = len(part[float(l)])
            expect = float(np.sum(null >= size)) / k
            if not np.isclose(pvals[l - 1], expect, rtol=1e-9, atol=1e-12):
                tie = bool(np.any(null == size))
                acc.violate('%s/POST-pvalue-is-fraction-of-null-at-least-size/%s' % (FN, cls),
                            'component labelled %d has %d connections, %d of %d null values are >= that, p-value returned %r (null value equal to the size present: %s)'
                            % (l, size, int(np.sum(null >= size)), k, float(pvals[l - 1]), tie), w)
                break
    # -- null distribution, recomputed for the relabellings that were drawn ------------------------------------------------
    rel = relabellings_from_log(rng.log, k, nx, ny, paired)
    if rel is None or len(null) != k:
        acc.skip('draw log is not k relabellings (null not recomputed)')
    else:
        xv, yv = edge_values(x, pairs), edge_values(y, pairs)
        for u in range(k):
            if paired:
                r = rel[u]
                if np.any(r == 0.5):
                    acc.skip('coin exactly 0.5')
                    continue
                sw = r > 0.5                      # subject's two measurements exchanged
                g1 = np.where(sw[None, :], yv, xv)
                g2 = np.where(sw[None, :], xv, yv)
            else:
                pooled = np.hstack((xv, yv))[:, rel[u]]
                g1, g2 = pooled[:, :nx], pooled[:, nx:]
            tu, du = oracle_stat(g1, g2, tail, paired)
            eu, ambu = supra(tu, du, thresh)
            if ambu:
                acc.skip('t within 1e-9 of the threshold (relabelled)')
                continue
            cu = edge_components(n, pairs, eu)
            big = max(map(len, cu)) if cu else 0
            if null[u] != big:
                ww = dict(w)
                ww.update({'relabelling_index': u, 'relabelling': rel[u].tolist(), 'oracle_largest_component': big})
                acc.violate('%s/POST-null-is-largest-component-under-relabelling/%s' % (FN, cls),
                            'null[%d] = %r but the largest component for the relabelling drawn has %d connections' % (u, float(null[u]), big), ww)
                break
    # -- symmetries of the observed components -----------------------------------------------------------------------------
    base = set(part.values())

    def observed(xx, yy, tl, what, clause):
        try:
            _, a2, _ = call_nbs(xx, yy, thresh, 1, tl, paired, Scripted((), fallback_seed=1))
            p2 = set(adj_partition(np.asarray(a2, dtype=float), pairs).values())
        except bct.BCTParamError as e:
            p2 = 'rejected: %s' % e
        except Exception as e:
            acc.violate('%s/RAISES-%s/%s' % (FN, type(e).__name__, cls), 'in-domain input (%s) raised %r' % (what, e), w)
            return
        if p2 != base:
            ww = dict(w)
            ww['transformed_call'] = what
            ww['components_after'] = p2 if isinstance(p2, str) else [sorted(pairs[e] for e in c) for c in p2]
            acc.violate('%s/%s/%s' % (FN, clause, cls), 'observed components (as sets of connections, with their sizes) changed under: %s' % what, ww)

    observed(y, x, SWAP[tail], 'x and y exchanged, tail %s -> %s' % (tail, SWAP[tail]), 'SYM-group-swap-with-tail')
    prng = np.random.RandomState(seed + 11)
    px = prng.permutation(nx)
    py = px if paired else prng.permutation(ny)
    observed(x[:, :, px], y[:, :, py], tail, 'subjects reordered: x[:,:,%s], y[:,:,%s]' % (px.tolist(), py.tolist()), 'SYM-subject-order')


def worker(task):
    acc = Acc19()
    for spec in task:
        check_case(acc, spec)
    return acc


def chunks(lst, k):
    k = max(1, k)
    return [lst[i::k] for i in range(k) if lst[i::k]]


def run_bounded(run, tier, seed):
    thorough = tier == 'thorough'
    k = 50 if thorough else 10
    nseeds = 40 if thorough else 20
    threshs = [1.0, 1.5, 2.0, 3.0]
    specs = []
    c = 0
    for n in range(4, 8):
        for paired in (False, True):
            for tail in ('left', 'right', 'both'):
                for th in threshs:
                    for s in range(nseeds):
                        c += 1
                        specs.append((seed * 1000003 + c * 101 + s, n, paired, tail, th, k))
    part = 'nbs-random-stacks'
    run.bounded_part(
        part,
        bounds={'nodes': '4..7', 'group sizes': '3..6 each (unequal in most unpaired cases, equal when paired)', 'thresholds': threshs, 'tails': ['left', 'right', 'both'],
                'paired': [False, True], 'k': k, 'cases': len(specs),
                'data': 'standard normal connection values (paired: y = 0.6 x + 0.8 noise), a block of nodes with x raised by delta and the complementary block with x lowered by delta, '
                        'delta in {0, 0, 1, 2, 3.5}; 0..3 connections with the same constant value in every subject of both groups (zero variance, t undefined: must not be marked), '
                        'optionally one connection constant in one group only; random or empty diagonal. Input class zero-variance-inexact-mean (key suffix): unpaired cases in which '
                        'such a constant is 0.7, whose floating-point mean over 3 or 6 copies is not 0.7 (constants 0 and -2 are exact)',
                'excluded': 'zero-variance connections whose group means differ (t infinite) are not generated; cases in which an oracle t lies within 1e-9 of the threshold are skipped (none expected)',
                'generator': 'Scripted((), fallback_seed=case seed + 5): a seeded generator whose draws are logged; the null is recomputed for exactly those k relabellings'},
        rule='one case = (stack pair, threshold, tail, paired, k, generator seed); clauses: adj marks exactly the connections with t > thresh in the tail (scipy.stats.ttest_ind equal_var / ttest_rel), '
             'equal labels = connected components (own BFS), labels 1..C, one p-value per component = #(null >= connections of the component with that label)/k, len(null) = k, '
             'null[u] = largest component under the u-th drawn relabelling, observed components invariant under group swap + tail swap and under subject reordering; '
             'non-trivial = at least one component reported and at least one connection not marked; distinct by case seed and parameters',
        exhaustive=False)
    accs = pmap(worker, chunks(specs, 64))
    merge_all(run, part, accs)
    skipped = {}
    for a in accs:
        for kk, v in a.skipped.items():
            skipped[kk] = skipped.get(kk, 0) + v
    if skipped:
        run.notes.append('C19 bounded: clause evaluations skipped: %s' % skipped)
    return skipped
