"""Shared harness of the C02 and C07 bounded stand-ins (community detection / modularity optimisers).

Nothing in here calls a bct routine as an oracle.  The reference quality functions are written from the definitions:

* Newman / Leicht-Newman modularity   Q(W, c, g) = (1/s) * sum_{x,y : c[x]=c[y]} ( W[x,y] - g * kout[x]*kin[y]/s ),  s = sum W
  (for symmetric W this is the undirected modularity),
* signed modularity of Rubinov & Sporns 2011 with the type names of bctpy: with T+/T- the un-normalised sums of the
  positive / negative layer (W+ = max(W,0), W- = max(-W,0), each with its own strengths and total s+/s-),
      'smp' T+/s+ - T-/s-      'gja' (T+ - T-)/(s+ + s-)      'sta' T+/s+ - T-/(s+ + s-)      'pos' T+/s+      'neg' -T-/s-
  an absent layer (s+ = 0 or s- = 0) contributes 0,
* community_louvain objectives: 'modularity' = Q above (any non-negative W, directed or not);
  'negative_sym' = 'gja' and 'negative_asym' = 'sta' evaluated with directed strengths (documented in the routine's
  doc string only as "symmetric/asymmetric treatment of negative weights": the value is derived from the coded formula
  B0/(s0+s1) - B1/(s0+s1), resp. B0/s0 - B1/(s0+s1), and the clause name says so);
  'potts' = (1/s) * sum_{same module} ( W[x,y] - g*[W[x,y] = 0] ) (diagonal cells included), again derived from the coded
  formula B = W - gamma*(not W) and named accordingly.

The per-move monitor (C07) is woven into an in-memory copy of the real function just before the label assignment.
"""
import itertools
import numpy as np
import bct
import bct.algorithms.modularity as MOD
from engine import graphs as G
from engine import weave as WV
from engine.par import Acc
from engine.srng import Scripted, ScriptExhausted, DrawLimit, default_options

GAMMAS = (0.8, 1.0, 1.3)
QTYPES = ('sta', 'pos', 'smp', 'gja', 'neg')
QTYPES_NEED_S1 = ('smp', 'neg')
RTOL, ATOL = 1e-9, 1e-12          # returned q against the reference (guide rule 3)
MONO_TOL = 1e-10                  # "up to 1e-10-scale tolerance" (property C07)
GAIN_RTOL, GAIN_ATOL = 1e-9, 1e-11  # claimed gain against the exact difference of two O(1) reference values

# community_louvain with a signed objective divides by sum(W) in its first quality value; the property's quantifier is
# "positive total weight", so inputs with sum(W) <= 0 are out of domain and not generated.  Set to True to probe them
# (violation keys then carry the input class '/total-weight<=0').
PROBE_NONPOSITIVE_TOTAL = False


# ---------------------------------------------------------------------------------------------------------------------
# reference quality functions (definition, O(n^2) python loops)
# ---------------------------------------------------------------------------------------------------------------------
def _null_kernel(Wl, gamma):
    """K[x][y] = W[x][y] - gamma*kout[x]*kin[y]/s and s; for an empty layer (s = 0) the zero kernel and s = 0."""
    n = len(Wl)
    s = 0.0
    for r in Wl:
        for v in r:
            s += v
    if s == 0:
        return [[0.0] * n for _ in range(n)], 0.0
    ko = [sum(Wl[x]) for x in range(n)]
    ki = [sum(Wl[y][x] for y in range(n)) for x in range(n)]
    return [[Wl[x][y] - gamma * ko[x] * ki[y] / s for y in range(n)] for x in range(n)], s


def close(a, b, rtol, atol):
    """np.isclose for two python floats (nan / inf never close to a finite reference)."""
    return abs(a - b) <= atol + rtol * abs(b)


def _same_sum(K, lab):
    n = len(lab)
    t = 0.0
    for x in range(n):
        lx = lab[x]
        Kx = K[x]
        for y in range(n):
            if lab[y] == lx:
                t += Kx[y]
    return t


class Net:
    """One input network with cached reference kernels."""

    def __init__(self, W):
        self.W = np.array(W, dtype=float)
        self.n = len(self.W)
        self.Wl = self.W.tolist()
        self.Wp = [[v if v > 0 else 0.0 for v in r] for r in self.Wl]
        self.Wn = [[-v if v < 0 else 0.0 for v in r] for r in self.Wl]
        self.s = float(sum(sum(r) for r in self.Wl))
        self.s0 = float(sum(sum(r) for r in self.Wp))
        self.s1 = float(sum(sum(r) for r in self.Wn))
        self.symmetric = bool(np.array_equal(self.W, self.W.T))
        self.nonneg = self.s1 == 0
        self.binary = bool(np.all((self.W == 0) | (self.W == 1)))
        self._kern = {}

    def kern(self, layer, gamma):
        key = (layer, gamma)
        if key not in self._kern:
            if layer == 'potts':
                K = [[v - gamma * (1.0 if v == 0 else 0.0) for v in r] for r in self.Wl]
                self._kern[key] = (K, self.s)
            else:
                self._kern[key] = _null_kernel({'all': self.Wl, 'pos': self.Wp, 'neg': self.Wn}[layer], gamma)
        return self._kern[key]

    # -- the three families ------------------------------------------------------------------------------------------
    def q_mod(self, lab, gamma):
        K, s = self.kern('all', gamma)
        return _same_sum(K, lab) / s

    def q_sign(self, lab, gamma, qtype):
        K0, s0 = self.kern('pos', gamma)
        K1, s1 = self.kern('neg', gamma)
        T0 = _same_sum(K0, lab) if s0 else 0.0
        T1 = _same_sum(K1, lab) if s1 else 0.0
        if qtype == 'smp':
            return (T0 / s0 if s0 else 0.0) - (T1 / s1 if s1 else 0.0)
        if qtype == 'gja':
            return (T0 - T1) / (s0 + s1)
        if qtype == 'sta':
            return (T0 / s0 if s0 else 0.0) - (T1 / (s0 + s1) if s1 else 0.0)
        if qtype == 'pos':
            return T0 / s0 if s0 else 0.0
        if qtype == 'neg':
            return -(T1 / s1) if s1 else 0.0
        raise KeyError(qtype)

    def q_obj(self, lab, gamma, objective):
        if objective == 'modularity':
            return self.q_mod(lab, gamma)
        if objective == 'potts':
            K, s = self.kern('potts', gamma)
            return _same_sum(K, lab) / s
        if objective == 'negative_sym':
            return self.q_sign(lab, gamma, 'gja')
        if objective == 'negative_asym':
            return self.q_sign(lab, gamma, 'sta')
        raise KeyError(objective)


# ---------------------------------------------------------------------------------------------------------------------
# the routines: calling conventions, reference selection, gain scaling, weaving keys
# ---------------------------------------------------------------------------------------------------------------------
SIGN_FUNCS = ('modularity_finetune_und_sign', 'modularity_louvain_und_sign', 'modularity_probtune_und_sign', 'modularity_und_sign')
START_KW = {'community_louvain': 'ci', 'modularity_finetune_und': 'ci', 'modularity_finetune_dir': 'ci',
            'modularity_finetune_und_sign': 'ci', 'modularity_probtune_und_sign': 'ci'}
HIER_FUNCS = ('modularity_louvain_und', 'modularity_louvain_dir')
OPTIMISERS = ('modularity_finetune_und', 'modularity_finetune_dir', 'modularity_finetune_und_sign', 'modularity_louvain_und',
              'modularity_louvain_dir', 'modularity_louvain_und_sign', 'community_louvain')

WEAVE = {
    'community_louvain': dict(assign='Mb[u] = mb + 1', code='__mv(Mb, u, mb, max_dq)', level='while q - q0 > 1e-10',
                              comp='None if first_iteration else ci'),
    'modularity_finetune_und': dict(assign='ci[u] = mb + 1', code='__mv(ci, u, mb, max_dq)'),
    'modularity_finetune_dir': dict(assign='ci[u] = mb + 1', code='__mv(ci, u, mb, max_dq)'),
    'modularity_finetune_und_sign': dict(assign='ci[u] = mb + 1', code='__mv(ci, u, mb, max_dq)'),
    'modularity_louvain_und': dict(assign='m[i] = j + 1', code='__mv(m, i, j, max_dq)', level='while True', comp='ci[h]'),
    'modularity_louvain_dir': dict(assign='m[u] = mb + 1', code='__mv(m, u, mb, max_dq)', level='while True', comp='ci[h]'),
    'modularity_louvain_und_sign': dict(assign='m[u] = mb + 1', code='__mv(m, u, mb, max_dQ)', level='while q[h] - q[h - 1] > 1e-10', comp='ci[h]'),
}


def real(name):
    return getattr(bct, name)


def call_variant(fn, name, W, gamma, mode, start, rng, hierarchy=False):
    st = None if start is None else np.array(start, dtype=int)
    if name == 'community_louvain':
        return fn(W, gamma=gamma, ci=st, B=mode, seed=rng)
    if name in ('modularity_louvain_und', 'modularity_louvain_dir'):
        return fn(W, gamma=gamma, hierarchy=hierarchy, seed=rng)
    if name == 'modularity_louvain_und_sign':
        return fn(W, gamma=gamma, qtype=mode, seed=rng)
    if name in ('modularity_finetune_und', 'modularity_finetune_dir'):
        return fn(W, ci=st, gamma=gamma, seed=rng)
    if name == 'modularity_finetune_und_sign':
        return fn(W, qtype=mode, gamma=gamma, ci=st, seed=rng)
    if name == 'modularity_probtune_und_sign':
        return fn(W, qtype=mode, gamma=gamma, ci=st, p=.45, seed=rng)
    if name in ('modularity_und', 'modularity_dir'):
        return fn(W, gamma=gamma, kci=st)
    if name == 'modularity_und_sign':
        return fn(W, st, qtype=mode)
    raise KeyError(name)


def qref(net, name, mode, lab, gamma):
    if name == 'modularity_und_sign':
        return net.q_sign(lab, 1.0, mode)          # the routine has no resolution parameter
    if name in SIGN_FUNCS:
        return net.q_sign(lab, gamma, mode)
    if name == 'community_louvain':
        return net.q_obj(lab, gamma, mode)
    return net.q_mod(lab, gamma)


def q_clause(name, mode):
    if name == 'community_louvain' and mode != 'modularity':
        return 'POST-q-equals-objective-derived-from-coded-formula-' + mode
    return 'POST-q-equals-modularity'


def gain_scale(net, name, mode):
    """Factor that turns the routine's max_dq into the change of the reference quality (Lean gain lemma, DESIGN App. A)."""
    if name in SIGN_FUNCS or (name == 'community_louvain' and mode in ('negative_sym', 'negative_asym')):
        return 2.0
    return 2.0 / net.s


def in_domain(net, name, mode):
    """The property's quantifier: positive total weight, symmetric for _und, s+ > 0 (and s- > 0 where divided by) for signed."""
    if name in SIGN_FUNCS:
        return net.symmetric and net.s0 > 0 and (mode not in QTYPES_NEED_S1 or net.s1 > 0)
    if name == 'community_louvain':
        if mode in ('negative_sym', 'negative_asym'):
            return net.s0 > 0 and (net.s > 0 or PROBE_NONPOSITIVE_TOTAL)
        if mode == 'potts':
            return net.nonneg and net.binary and net.s > 0
        return net.nonneg and net.s > 0
    if name in ('modularity_finetune_und', 'modularity_louvain_und', 'modularity_und'):
        return net.symmetric and net.nonneg and net.s > 0
    return net.nonneg and net.s > 0


def input_class(net, name, mode):
    if name == 'community_louvain':
        if mode in ('negative_sym', 'negative_asym') and net.s <= 0:
            return '/total-weight<=0'
        if not net.symmetric:
            return '/directed-W'
    return ''


# ---------------------------------------------------------------------------------------------------------------------
# labels
# ---------------------------------------------------------------------------------------------------------------------
def label_faults(ci, n):
    """Clauses of 'one integer label per node, labels forming exactly 1..k'. Returns (faults, labels as int list or None)."""
    try:
        a = np.asarray(ci)
    except Exception as e:       # pragma: no cover
        return [('POST-labels-one-per-node', 'label vector is not an array: %r' % (e,))], None
    if a.ndim != 1 or a.shape[0] != n:
        return [('POST-labels-one-per-node', 'label vector has shape %r for %d nodes' % (a.shape, n))], None
    if a.dtype.kind not in 'iu':
        try:
            ok = bool(np.all(np.isfinite(a.astype(float))) and np.all(a.astype(float) == np.round(a.astype(float))))
        except Exception:
            ok = False
        if not ok:
            return [('POST-labels-integer', 'labels are not integers: %r' % (a.tolist(),))], None
    lab = [int(v) for v in a.tolist()]
    k = max(lab)
    if set(lab) != set(range(1, k + 1)):
        return [('POST-labels-1..k', 'labels %r do not form the set 1..k' % (lab,))], lab
    return [], lab


def same_partition(a, b):
    return len(a) == len(b) and len(set(zip(a, b))) == len(set(a)) == len(set(b))


def label_variants(rgs):
    """The start partition under its canonical labels 1..k and under every order of the non-contiguous values 3,5,7,.."""
    k = max(rgs) + 1
    out = [tuple(b + 1 for b in rgs)]
    for perm in itertools.permutations(range(k)):
        out.append(tuple(3 + 2 * perm[b] for b in rgs))
    return out


_STARTS = {}


def starts(n):
    if n not in _STARTS:
        _STARTS[n] = [label_variants(p) for p in G.set_partitions(n)]
    return _STARTS[n]


def pick_starts(n, gi, relabel):
    """relabel='all': every partition under every label order; 'rot': each partition under one label order that rotates with
    the graph index."""
    out = []
    for pi, vs in enumerate(starts(n)):
        if relabel == 'all':
            out.extend(vs)
        else:
            out.append(vs[(gi + pi) % len(vs)])
    return out


# ---------------------------------------------------------------------------------------------------------------------
# graphs by index
# ---------------------------------------------------------------------------------------------------------------------
def und_from_index(n, idx, values):
    W = np.zeros((n, n))
    b = len(values)
    for (i, j) in G.und_pairs(n):
        W[i, j] = W[j, i] = values[idx % b]
        idx //= b
    return W


def dir_from_index(n, idx, values):
    W = np.zeros((n, n))
    b = len(values)
    for (i, j) in G.dir_pairs(n):
        W[i, j] = values[idx % b]
        idx //= b
    return W


def n_und_w(n, values):
    return len(values) ** (n * (n - 1) // 2)


def n_dir_w(n, values):
    return len(values) ** (n * (n - 1))


# ---------------------------------------------------------------------------------------------------------------------
# scripted generator that can be re-armed (constructing a RandomState costs 0.2 ms, re-seeding 3 us); same streams as
# engine.srng.Scripted(script, fallback_seed=...), so every witness replays with the engine class.
# ---------------------------------------------------------------------------------------------------------------------
class ReScripted(Scripted):
    def rearm(self, script=(), fallback_seed=None, max_draws=20000):
        self.script = list(script)
        self.pos = 0
        self.log = []
        self.ndraws = 0
        self.max_draws = max_draws
        self.fallback = fallback_seed is not None
        if self.fallback:
            if self._fb is None:
                self._fb = np.random.RandomState(fallback_seed)
            else:
                self._fb.seed(fallback_seed)
        return self


def explore_fast(run, rng, max_draws, options=default_options, fallback_seed=12345, draw_cap=400):
    """engine.srng.explore (same DFS, same order, same streams) on one re-armed generator object."""
    stack = [()]
    while stack:
        script = stack.pop()
        if len(script) >= max_draws:
            rng.rearm(script, fallback_seed=fallback_seed, max_draws=draw_cap)
            yield script, run(rng)
        else:
            rng.rearm(script, fallback_seed=None, max_draws=draw_cap)
            try:
                res = run(rng)
            except ScriptExhausted as e:
                for o in reversed(options(e.kind, e.arg)):
                    stack.append(script + (o,))
                continue
            yield script, res


def make_options(permdiv, rot):
    """All options of every draw; node orders of 4 nodes are thinned to every permdiv-th of the 24 (offset rot) if permdiv > 1."""
    def opt(kind, arg):
        o = default_options(kind, arg)
        if kind == 'perm' and permdiv > 1 and len(o) > 6:
            o = o[rot % permdiv::permdiv]
        return o
    return opt


# ---------------------------------------------------------------------------------------------------------------------
# C02: one call of the real routine, contract on what it returns
# ---------------------------------------------------------------------------------------------------------------------
def _witness(net, name, mode, gamma, start, hierarchy, script, fb, rng=None):
    w = {'function': name, 'mode': mode, 'W': net.Wl, 'gamma': gamma, 'start': None if start is None else list(start),
         'hierarchy': bool(hierarchy), 'script': None if script is None else [list(x) if isinstance(x, tuple) else x for x in script],
         'fallback_seed': fb, 'replay': 'engine.srng.Scripted(script, fallback_seed=fallback_seed) as seed='}
    if rng is not None:
        w['draws'] = [[k, a, list(v) if isinstance(v, tuple) else v] for k, a, v in rng.log[:30]]
    return w


def _pairs_of(name, res, hierarchy):
    """The (ci, q) pairs a result consists of."""
    ci, q = res
    if hierarchy:
        ci = np.asarray(ci)
        qs = list(q)
        if ci.ndim != 2 or len(ci) != len(qs):
            return None
        return [(ci[l], qs[l]) for l in range(len(qs))]
    return [(ci, q)]


def c02_case(acc, net, name, mode, gamma, start, hierarchy, rng, script, fb, key):
    """Returns True if the case ran to completion."""
    cls = input_class(net, name, mode)
    try:
        res = call_variant(real(name), name, net.W.copy(), gamma, mode, start, rng, hierarchy)
    except ScriptExhausted:
        raise
    except bct.BCTParamError:
        acc.case()
        return False
    except DrawLimit:                # more random draws than any terminating run needs: "did not terminate", skipped and counted
        acc.case()
        acc.nonterm = getattr(acc, 'nonterm', 0) + 1
        return False
    except Exception as e:
        acc.case()
        acc.violate('%s/RAISES-%s%s' % (name, type(e).__name__, cls), 'in-domain input raised %r' % (e,),
                    _witness(net, name, mode, gamma, start, hierarchy, script, fb, rng))
        return False
    n = net.n
    given = name in ('modularity_und', 'modularity_dir', 'modularity_und_sign') and start is not None
    hcls = '/hierarchy' if hierarchy else ('/given-partition' if given else ('/spectral' if name in ('modularity_und', 'modularity_dir') else ''))
    pairs = _pairs_of(name, res, hierarchy)
    wit = None
    nontrivial = False
    if pairs is None:
        acc.violate('%s/POST-hierarchy-shape%s' % (name, cls), 'hierarchical output is not a (levels x n) array with one q per level',
                    _witness(net, name, mode, gamma, start, hierarchy, script, fb, rng))
        pairs = []
    for lvl, (ci, q) in enumerate(pairs):
        if given and name != 'modularity_und_sign':
            faults, lab = [], [int(v) for v in np.asarray(ci).tolist()]     # the caller's own labels come back
        else:
            faults, lab = label_faults(ci, n)
        if given and lab is not None and not same_partition(lab, list(start)):
            faults.append(('POST-given-partition-returned', 'returned labels %r are not the given partition %r' % (lab, list(start))))
        if lab is not None:
            qr = qref(net, name, mode, lab, gamma)
            try:
                qv = float(q)
                okq = close(qv, qr, RTOL, ATOL)
            except Exception:
                qv, okq = q, False
            if not okq:
                faults.append((q_clause(name, mode), 'returned q = %r but the partition %r has quality %r (level %d)' % (qv, lab, qr, lvl)))
            ref = list(start) if start is not None else list(range(1, n + 1))
            if not same_partition(lab, ref):
                nontrivial = True
        for clause, detail in faults:
            if wit is None:
                wit = _witness(net, name, mode, gamma, start, hierarchy, script, fb, rng)
                wit['returned'] = {'ci': np.asarray(res[0]).tolist(), 'q': np.asarray(res[1], dtype=float).tolist()}
            acc.violate('%s/%s%s%s' % (name, clause, hcls, cls), detail, wit)
    if given:
        k = len(set(start))
        nontrivial = 1 < k < n
    sample = None
    if len(acc.samples) < 2 and nontrivial:
        sample = {'function': name, 'mode': mode, 'W': net.Wl, 'gamma': gamma, 'start': None if start is None else list(start),
                  'script': 'seeded %r' % fb if script is None else [list(x) if isinstance(x, tuple) else x for x in script],
                  'returned_ci': np.asarray(res[0]).tolist(), 'returned_q': np.asarray(res[1], dtype=float).tolist()}
    acc.case(key=key, nontrivial=nontrivial, sample=sample)
    return True


# ---------------------------------------------------------------------------------------------------------------------
# C07: woven per-move monitor + end-to-end comparison
# ---------------------------------------------------------------------------------------------------------------------
_STATE = {'mon': None}
_WOVEN = {}


class MoveMon:
    def __init__(self, qfun, scale):
        self.qfun, self.scale = qfun, scale
        self.level = 0
        self.moves = 0
        self.checked = 0
        self.fails = []
        self._last = None
        self.comp = None             # level >= 2: for every original node the (1-based) super-node it was merged into

    def bad(self, clause, detail):
        if not any(c == clause for c, _ in self.fails):
            self.fails.append((clause, detail))

    def lvl(self, comp=None):
        # head of a hierarchy level; comp = the routine's composed labels of the original nodes at the end of the previous level
        self.level += 1
        self.comp = None if comp is None else [int(v) for v in comp]
        self._last = None

    def mv(self, labels, u, mb, gain):
        self.moves += 1
        sup = [int(v) for v in labels]
        u, mb = int(u), int(mb)
        sup2 = list(sup)
        sup2[u] = mb + 1
        if self.comp is None:        # first level: the working matrix is the input matrix
            before, after, deep = sup, sup2, ''
        else:                        # aggregation lemma: Q of the aggregated network = Q of the input network with composed labels
            before = [sup[c - 1] for c in self.comp]
            after = [sup2[c - 1] for c in self.comp]
            deep = '/level>=2' if self.level > 1 else ''
        if self._last is not None and self._last[0] == before:
            qb = self._last[1]
        else:
            qb = self.qfun(before)
        qa = self.qfun(after)
        self._last = (after, qa)
        self.checked += 1
        claimed = float(gain) * self.scale
        exact = qa - qb
        if not close(claimed, exact, GAIN_RTOL, GAIN_ATOL):
            self.bad('MOVE-claimed-gain-equals-exact-dQ' + deep, 'move %d (level %d): (super-)node %d from module %d to %d, labels of the original nodes before the move %r: claimed gain %r, exact change of Q %r'
                     % (self.moves, max(self.level, 1), u, sup[u], mb + 1, before, claimed, exact))
        if not exact >= -GAIN_ATOL:
            self.bad('MOVE-accepted-move-does-not-lower-Q' + deep, 'move %d (level %d): (super-)node %d from module %d to %d, labels of the original nodes before the move %r: accepted (claimed %r) but changes Q by %r'
                     % (self.moves, max(self.level, 1), u, sup[u], mb + 1, before, claimed, exact))


def _hook_mv(labels, u, mb, gain):
    m = _STATE['mon']
    if m is not None:
        m.mv(labels, u, mb, gain)


def _hook_lvl(comp=None):
    m = _STATE['mon']
    if m is not None:
        m.lvl(comp)


def woven(name):
    if name not in _WOVEN:
        spec = WEAVE[name]
        ins = [{'where': 'before', 'key': spec['assign'], 'code': spec['code']}]
        if spec.get('level'):
            ins.append({'where': 'loop_head', 'key': spec['level'], 'code': '__lvl(%s)' % spec['comp']})
        _WOVEN[name] = WV.weave(MOD, name, inserts=ins, hooks={'__mv': _hook_mv, '__lvl': _hook_lvl})
    return _WOVEN[name]


def c07_case(acc, net, name, mode, gamma, start, hierarchy, rng, script, fb, key, rng2=None):
    cls = input_class(net, name, mode)
    n = net.n
    qf = lambda lab: qref(net, name, mode, lab, gamma)
    mon = MoveMon(qf, gain_scale(net, name, mode))
    _STATE['mon'] = mon
    aborted = None
    try:
        res = call_variant(woven(name), name, net.W.copy(), gamma, mode, start, rng, hierarchy)
    except ScriptExhausted:
        raise
    except bct.BCTParamError as e:
        aborted = e
    except DrawLimit as e:           # more random draws than any terminating run needs: "did not terminate", skipped and counted
        aborted = e
        acc.nonterm = getattr(acc, 'nonterm', 0) + 1
    except Exception as e:
        acc.case()
        acc.violate('%s/RAISES-%s%s' % (name, type(e).__name__, cls), 'in-domain input raised %r' % (e,),
                    _witness(net, name, mode, gamma, start, hierarchy, script, fb, rng))
        return False
    finally:
        _STATE['mon'] = None
    if aborted is not None:
        # nothing was returned, so the end-to-end clauses do not apply; moves the real code made before giving up were observed all the same
        if mon.fails:
            wit = _witness(net, name, mode, gamma, start, hierarchy, script, fb, rng)
            wit['moves_observed'] = mon.moves
            wit['run_ended_with'] = repr(aborted)
            for clause, detail in mon.fails:
                clause, _, sub = clause.partition('/')
                acc.violate('%s/%s%s%s' % (name, clause, '/' + sub if sub else '', (cls.replace('/', '+') if sub else cls)), detail, wit)
        acc.case()
        return False
    faults = list(mon.fails)
    ref = list(start) if start is not None else list(range(1, n + 1))
    q_start = qf(ref)
    pairs = _pairs_of(name, res, hierarchy)
    levels = []
    if pairs:
        for ci, q in pairs:
            a = np.asarray(ci)
            if a.ndim == 1 and a.shape[0] == n:
                try:
                    levels.append(([int(v) for v in a.tolist()], float(q)))
                except Exception:
                    pass
    if levels:
        lab_out, q_out = levels[-1]
        Q_out = qf(lab_out)
        if not Q_out >= q_start - MONO_TOL:
            faults.append(('POST-Q-not-below-start', 'returned partition %r has Q = %r, the start %r has Q = %r' % (lab_out, Q_out, ref, q_start)))
        if not q_out >= q_start - MONO_TOL:
            faults.append(('POST-returned-q-not-below-start', 'returned q = %r (partition %r), the start %r has Q = %r' % (q_out, lab_out, ref, q_start)))
        if hierarchy:
            Qs = [qf(l) for l, _ in levels]
            for a in range(len(levels) - 1):
                if not levels[a + 1][1] > levels[a][1]:
                    faults.append(('POST-hierarchy-q-strictly-increasing/hierarchy', 'returned q list %r does not increase at level %d' % ([q for _, q in levels], a + 1)))
                    break
            for a in range(len(levels) - 1):
                if not Qs[a + 1] > Qs[a]:
                    faults.append(('POST-hierarchy-Q-strictly-increasing/hierarchy', 'recomputed Q of the levels %r does not increase at level %d' % (Qs, a + 1)))
                    break
            if not Qs[0] >= q_start - MONO_TOL:
                faults.append(('POST-hierarchy-first-level-not-below-singletons/hierarchy', 'level 1 has Q = %r, singletons %r' % (Qs[0], q_start)))
        # feeding the output back as the start (real, un-woven routine, seeded order)
        if name in START_KW and name in OPTIMISERS and mon.moves > 0 and rng2 is not None and not hierarchy:
            rng2.rearm((), fallback_seed=fb + 1, max_draws=500)
            try:
                ci2, q2 = call_variant(real(name), name, net.W.copy(), gamma, mode, lab_out, rng2, False)
                lab2 = [int(v) for v in np.asarray(ci2).tolist()]
                Q2 = qf(lab2)
                if not Q2 >= Q_out - MONO_TOL:
                    faults.append(('POST-feedback-not-lower', 'started from its own output %r (Q = %r) the routine returns %r with Q = %r (seed: Scripted((), fallback_seed=%d))'
                                   % (lab_out, Q_out, lab2, Q2, fb + 1)))
            except (bct.BCTParamError, DrawLimit):
                pass
            except Exception as e:
                faults.append(('RAISES-%s' % type(e).__name__, 'feeding the output %r back raised %r' % (lab_out, e)))
    if faults:
        wit = _witness(net, name, mode, gamma, start, hierarchy, script, fb, rng)
        wit['returned'] = {'ci': np.asarray(res[0]).tolist(), 'q': np.asarray(res[1], dtype=float).tolist()}
        wit['moves_observed'] = mon.moves
        for clause, detail in faults:
            clause, _, sub = clause.partition('/')
            acc.violate('%s/%s%s%s' % (name, clause, '/' + sub if sub else '', (cls.replace('/', '+') if sub else cls)), detail, wit)
    nontrivial = mon.moves > 0 and (not hierarchy or len(levels) >= 2)
    sample = None
    if len(acc.samples) < 2 and nontrivial:
        sample = {'function': name, 'mode': mode, 'W': net.Wl, 'gamma': gamma, 'start': None if start is None else list(start),
                  'script': 'seeded %r' % fb if script is None else [list(x) if isinstance(x, tuple) else x for x in script],
                  'accepted_moves': mon.moves, 'moves_checked_against_exact_dQ': mon.checked, 'Q_start': q_start,
                  'returned_ci': np.asarray(res[0]).tolist(), 'returned_q': np.asarray(res[1], dtype=float).tolist()}
    acc.case(key=key, nontrivial=nontrivial, sample=sample)
    return True


# ---------------------------------------------------------------------------------------------------------------------
# enumeration shared by both modules
# ---------------------------------------------------------------------------------------------------------------------
# variant = (function, mode); which of them apply to a family of inputs
def variants(prop, family):
    c02 = prop == 'C02'
    v = []
    if family == 'und':
        v += [('modularity_finetune_und', None), ('modularity_louvain_und', None), ('community_louvain', 'modularity'), ('community_louvain', 'potts')]
        if c02:
            v += [('modularity_und', None)]
    elif family == 'dir':
        v += [('modularity_finetune_dir', None), ('modularity_louvain_dir', None), ('community_louvain', 'modularity'), ('community_louvain', 'potts')]
        if c02:
            v += [('modularity_dir', None)]
    elif family == 'sign':
        for name in ('modularity_finetune_und_sign', 'modularity_louvain_und_sign') + (('modularity_probtune_und_sign', 'modularity_und_sign') if c02 else ()):
            v += [(name, qt) for qt in QTYPES]
        v += [('community_louvain', 'negative_sym'), ('community_louvain', 'negative_asym')]
    elif family == 'dsign':
        v += [('community_louvain', 'negative_sym'), ('community_louvain', 'negative_asym')]
    return v


VID = {}


def vid(name, mode):
    return VID.setdefault((name, mode), len(VID))


for _f in ('und', 'dir', 'sign', 'dsign'):
    for _nm in variants('C02', _f):
        vid(*_nm)


def graph_of(family, n, idx, values):
    if family in ('und', 'sign'):
        return und_from_index(n, idx, values)
    return dir_from_index(n, idx, values)


def run_graph(acc, prop, family, n, gi, W, cfg, rng, rng2, seed):
    """Everything that is enumerated for one input network.

    cfg: depth (number of leading random draws enumerated exhaustively), permdiv (thinning of the 24 orders of 4 nodes),
    gamma ('all' | 'rot'), relabel ('all' | 'rot'), qrot / prob_qrot (True: the signed type rotates with the start partition
    for the routines that take a start partition), prob_depth / prob_permdiv (draw depth and extra order thinning for probtune).
    """
    net = Net(W)
    case = c02_case if prop == 'C02' else c07_case
    fam_id = ('und', 'dir', 'sign', 'dsign').index(family)
    for name, mode in variants(prop, family):
        if not in_domain(net, name, mode):
            continue
        v = vid(name, mode)
        has_start = name in START_KW
        given = name in ('modularity_und', 'modularity_dir', 'modularity_und_sign')
        sts = pick_starts(n, gi, cfg['relabel']) if (has_start or given) else [None]
        if name in ('modularity_und', 'modularity_dir'):
            sts = [None] + sts          # spectral branch + given-partition branch
        hiers = (False, True) if name in HIER_FUNCS else (False,)
        for si, st in enumerate(sts):
            qrot = cfg.get('prob_qrot', cfg.get('qrot')) if name == 'modularity_probtune_und_sign' else cfg.get('qrot')
            if mode in QTYPES and has_start and qrot and (si + gi) % len(QTYPES) != QTYPES.index(mode):
                continue
            if name == 'modularity_und_sign':
                gammas = (1.0,)
            elif given or cfg['gamma'] == 'all' or not has_start:
                gammas = GAMMAS
            else:
                gammas = (GAMMAS[(gi + si) % 3],)
            for g_i, gamma in enumerate(gammas):
                gi_ = GAMMAS.index(gamma)
                for hier in hiers:
                    fb = (seed * 1000003 + gi * 101 + si * 7 + v) % (1 << 30)
                    base = (v, fam_id, n, gi, gi_, st, hier)
                    if given or (name in ('modularity_und', 'modularity_dir')):
                        case(acc, net, name, mode, gamma, st, hier, None, (), fb, hash(base))
                        continue
                    depth = cfg['prob_depth'] if name == 'modularity_probtune_und_sign' else cfg['depth']
                    pdiv = cfg['permdiv'] * (cfg.get('prob_permdiv', 1) if name == 'modularity_probtune_und_sign' else 1)
                    opts = make_options(pdiv, gi + si + g_i)

                    def runner(r, name=name, mode=mode, gamma=gamma, st=st, hier=hier, fb=fb, base=base):
                        sc = tuple(r.script)              # the choice script this run is armed with identifies the case
                        if prop == 'C02':
                            c02_case(acc, net, name, mode, gamma, st, hier, r, sc, fb, hash(base + (sc,)))
                        else:
                            c07_case(acc, net, name, mode, gamma, st, hier, r, sc, fb, hash(base + (sc,)), rng2)
                    for _ in explore_fast(runner, rng, depth, options=opts, fallback_seed=fb, draw_cap=cfg.get('draw_cap', 60)):
                        pass


# ---------------------------------------------------------------------------------------------------------------------
# workers (module level: engine.par.pmap forks)
# ---------------------------------------------------------------------------------------------------------------------
def worker_enum(task):
    """task: dict(prop, family, n, values, idx=[graph indices], cfg, seed)."""
    acc = Acc()
    rng, rng2 = ReScripted(()), ReScripted(())
    for gi in task['idx']:
        W = graph_of(task['family'], task['n'], gi, task['values'])
        run_graph(acc, task['prop'], task['family'], task['n'], gi, W, task['cfg'], rng, rng2, task['seed'])
    return acc


def random_graph(rs, family, n, selfloops):
    wts = [1., 2., 3., .5]
    p = rs.uniform(.25, .8)
    if family == 'und':
        W = G.random_und(rs, n, p=p, weights=wts)
    elif family == 'dir':
        W = G.random_dir(rs, n, p=p, weights=wts)
    elif family == 'sign':
        W = G.random_und(rs, n, p=p, weights=wts, signed=True)
    else:
        W = G.random_dir(rs, n, p=p, weights=wts, signed=True)
    if selfloops:
        d = rs.choice([0., 1., 2.], size=n)
        if family in ('sign', 'dsign'):
            d = d * rs.choice([-1., 1.], size=n)
        W = W + np.diag(d)
    return W


def worker_random(task):
    """task: dict(prop, family, seed, count, nmin, nmax, selfloop_every). One seeded order per case."""
    prop, family = task['prop'], task['family']
    rs = np.random.RandomState(task['seed'])
    acc = Acc()
    rng, rng2 = ReScripted(()), ReScripted(())
    fam_id = ('und', 'dir', 'sign', 'dsign').index(family)
    for c in range(task['count']):
        n = int(rs.randint(task['nmin'], task['nmax'] + 1))
        selfloops = task.get('selfloop_every', 0) and c % task['selfloop_every'] == task['selfloop_every'] - 1
        W = random_graph(rs, family, n, selfloops)
        net = Net(W)
        for name, mode in variants(prop, family):
            if not in_domain(net, name, mode):
                continue
            if mode == 'potts' and selfloops:
                continue
            v = vid(name, mode)
            gamma = GAMMAS[int(rs.randint(3))]
            k = int(rs.randint(1, n + 1))
            st = tuple(int(x) for x in rs.randint(0, k, n) * 2 + 3)
            fb = int(rs.randint(1 << 30))
            if name == 'modularity_und_sign':
                gamma = 1.0
            if name in ('modularity_und', 'modularity_dir', 'modularity_und_sign'):
                for s_ in ((None, st) if name != 'modularity_und_sign' else (st,)):
                    c02_case(acc, net, name, mode, gamma, s_, False, None, None, fb, hash((v, fam_id, task['seed'], c, s_ is None)))
                continue
            start = st if name in START_KW else None
            if name in START_KW and c % 3 == 0:
                start = None            # default start (singletons)
            for hier in ((False, True) if name in HIER_FUNCS else (False,)):
                rng.rearm((), fallback_seed=fb, max_draws=500)
                key = hash((v, fam_id, task['seed'], c, hier))
                if prop == 'C02':
                    c02_case(acc, net, name, mode, gamma, start, hier, rng, None, fb, key)
                else:
                    c07_case(acc, net, name, mode, gamma, start, hier, rng, None, fb, key, rng2)
    return acc


def chunks(lst, k):
    k = max(1, k)
    return [lst[i::k] for i in range(k) if lst[i::k]]


# ---------------------------------------------------------------------------------------------------------------------
# plan -> tasks -> evidence parts
# ---------------------------------------------------------------------------------------------------------------------
FAMILY_TEXT = {'und': 'symmetric, empty diagonal', 'dir': 'directed, empty diagonal', 'sign': 'signed symmetric, empty diagonal',
               'dsign': 'signed directed, empty diagonal'}


def total_graphs(family, n, values):
    return n_und_w(n, values) if family in ('und', 'sign') else n_dir_w(n, values)


def describe_entry(e):
    c = e['cfg']
    tot = total_graphs(e['family'], e['n'], e['values'])
    g = 'all %d' % tot if e['graphs'] == 'all' else '%d sampled of %d (VERIF_SEED)' % (min(e['graphs'], tot), tot)
    return ('n=%d weights %s: %s matrices (%s; those outside the routine\'s domain skipped); gamma %s; start partitions: every set partition, %s; '
            'random draws: every choice for the first %d draw(s) (node orders: %s), then seeded%s'
            % (e['n'], list(e['values']), g, FAMILY_TEXT[e['family']],
               'each of 0.8/1/1.3' if c['gamma'] == 'all' else 'one of 0.8/1/1.3 rotating with (graph, start) for routines taking a start, all three otherwise',
               'canonical labels and every order of non-contiguous labels' if c['relabel'] == 'all' else 'one label order each (rotating with the graph index over canonical + all k! non-contiguous orders)',
               c['depth'], ('all n!' if e['n'] <= 4 else '6 of the n! orders of 5 nodes (identity, reverse, 4 fixed random ones), all n! of fewer nodes') if c['permdiv'] == 1
               else 'all n! for n<=3, every %d-th of the 24 for n=4 (offset rotating)' % c['permdiv'],
               ('; signed type rotating with the start partition' if c.get('qrot') else '')
               + ('; probtune: first %d draws, orders thinned %dx more%s' % (c['prob_depth'], c.get('prob_permdiv', 1), ', type rotating' if c.get('prob_qrot', c.get('qrot')) else '') if e['family'] == 'sign' and c.get('prob_depth') else '')))


def entry_exhaustive(e):
    c = e['cfg']
    return e['graphs'] == 'all' and c['gamma'] == 'all' and c['relabel'] == 'all' and c['permdiv'] == 1 and not c.get('qrot')


def run_plan(run, prop, seed, parts, rule):
    """parts: list of dict(name, entries=[dict(family, n, values, graphs, cfg, per_task)], random=[dict(family, count, tasks, nmin, nmax, selfloop_every)])."""
    from engine.par import pmap, merge_all
    rs = np.random.RandomState(seed + 17)
    tasks = []
    for part in parts:
        bounds = {}
        for e in part.get('entries', []):
            tot = total_graphs(e['family'], e['n'], e['values'])
            idx = list(range(tot)) if e['graphs'] == 'all' or e['graphs'] >= tot else sorted(int(x) for x in rs.choice(tot, e['graphs'], replace=False))
            bounds.setdefault(e['family'], []).append(describe_entry(e))
            for ch in chunks(idx, max(1, len(idx) // e.get('per_task', 8))):
                tasks.append((e.get('weight', 1.0) * len(ch), part['name'], 'enum',
                              dict(prop=prop, family=e['family'], n=e['n'], values=tuple(e['values']), idx=ch, cfg=e['cfg'], seed=seed)))
        for r in part.get('random', []):
            bounds.setdefault('random', []).append('%s: %d networks n=%d..%d, weights {.5,1,2,3}%s, density .25-.8, every %s one with self-connections; per network and routine one gamma, one random start partition (every third: default start), one seeded order'
                                                   % (r['family'], r['count'] * r['tasks'], r['nmin'], r['nmax'], ' signed' if 'sign' in r['family'] else '',
                                                      {0: 'no', 2: '2nd', 3: '3rd', 4: '4th'}.get(r.get('selfloop_every', 0), 'k-th')))
            for t in range(r['tasks']):
                tasks.append((r.get('weight', 8.0) * r['count'], part['name'], 'random',
                              dict(prop=prop, family=r['family'], seed=seed * 1000 + 31 * t + ('und', 'dir', 'sign', 'dsign').index(r['family']),
                                   count=r['count'], nmin=r['nmin'], nmax=r['nmax'], selfloop_every=r.get('selfloop_every', 0))))
        run.bounded_part(part['name'], bounds=bounds, rule=rule,
                         exhaustive=bool(part.get('entries')) and not part.get('random') and all(entry_exhaustive(e) for e in part['entries']))
    tasks.sort(key=lambda t: -t[0])          # heavy tasks first
    accs = pmap(_dispatch, [(kind, t) for _, _, kind, t in tasks])
    # merge the smallest networks first: the first witness of a violation key is the one that is kept
    order = sorted(range(len(tasks)), key=lambda i: (tasks[i][2] != 'enum', tasks[i][3].get('n', 99)))
    for i in order:
        merge_all(run, tasks[i][1], [accs[i]])
    nonterm = sum(getattr(a, 'nonterm', 0) for a in accs)
    if nonterm:
        run.notes.append('%s bounded: %d cases skipped because the routine drew more random numbers than the cap (60 draws in the small scopes, '
                         '500 in the random part): did not terminate; termination is not part of the property' % (prop, nonterm))
    cpu = [a.cpu for a in accs]
    run.notes.append('%s bounded: %d tasks, %.0f CPU-seconds in workers (%.1f s on 16 idle cores), longest task %.1f s'
                     % (prop, len(tasks), sum(cpu), sum(cpu) / 16.0, max(cpu) if cpu else 0.0))


def _dispatch(arg):
    import time
    kind, t = arg
    t0 = time.process_time()
    a = worker_enum(t) if kind == 'enum' else worker_random(t)
    a.cpu = time.process_time() - t0
    return a
