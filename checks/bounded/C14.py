"""C14 bounded stand-in: every partition consumer is called with a partition and with injectively relabelled copies of it;
partition_distance symmetry / identity / range; ci2ls and ls2ci mutually inverse up to renaming; agreement."""
import itertools, warnings
import numpy as np
import bct
from engine import graphs as G
from engine.par import pmap, Acc, merge_all

RTOL, ATOL = 1e-9, 1e-12


# ---- partitions and relabellings ------------------------------------------------------------------------------------------
def canon(ci):
    """labels 1..k in order of first appearance"""
    seen = {}
    return np.array([seen.setdefault(x, len(seen) + 1) for x in list(ci)], dtype=int)


def same_matrix(ci):
    ci = np.asarray(ci)
    return ci[:, None] == ci[None, :]


def same_partition(a, b):
    a, b = np.asarray(a), np.asarray(b)
    return a.shape == b.shape and a.ndim == 1 and bool(np.array_equal(same_matrix(a), same_matrix(b)))


def classes(ci):
    d = {}
    for i, x in enumerate(list(ci)):
        d.setdefault(x, []).append(i)
    return set(frozenset(v) for v in d.values())


_MIXED = (-5, 0, 12, 13, 400, 401, -77, 9000, 3, -1, 55, 56)


def relabellings(k, full_perms_upto, salt=0):
    """[(class name, tuple g) ...] with g[l-1] the new label of canonical label l (1..k); all injective, identity excluded."""
    ident = tuple(range(1, k + 1))
    perms = []
    if k <= full_perms_upto:
        perms = [p for p in itertools.permutations(ident) if p != ident]
    elif k >= 2:
        r = np.random.RandomState(1000 * k + salt)
        cand = [ident[::-1], ident[1:] + ident[:1], ident[-1:] + ident[:-1]] + [tuple(int(x) for x in r.permutation(ident)) for _ in range(3)]
        for p in cand:
            if p != ident and p not in perms:
                perms.append(p)
    out = [('permuted', p) for p in perms]
    out.append(('zero-based', tuple(x - 1 for x in ident)))
    out.append(('shifted+7', tuple(x + 7 for x in ident)))
    out.append(('non-contiguous', tuple(3 * x + 2 for x in ident)))
    out.append(('large', tuple(1000 + 17 * x for x in ident)))
    out.append(('negative', tuple(-x for x in ident)))                  # order reversed
    out.append(('negative', tuple(x - k - 3 for x in ident)))           # order kept
    out.append(('mixed-sign-gaps', tuple(_MIXED[(x + salt) % len(_MIXED)] for x in ident)))
    for p in perms[:2]:
        out.append(('permuted-non-contiguous', tuple(3 * x + 2 for x in p)))
        out.append(('permuted-zero-based', tuple(x - 1 for x in p)))
        out.append(('permuted-large-negative', tuple(-(1000 + 17 * x) for x in p)))
    return out


def apply_g(ci, g):
    return np.array([g[int(l) - 1] for l in ci], dtype=int)


# ---- graphs --------------------------------------------------------------------------------------------------------------------
PAL = (1.0, 2.0, 3.0, 0.5)     # dyadic: all sums are exact, so equal strengths are exactly equal


def _pattern(n, name, rng):
    A = np.zeros((n, n))
    if name == 'complete':
        A = np.ones((n, n)) - np.eye(n)
    elif name == 'path':
        for i in range(n - 1):
            A[i, i + 1] = A[i + 1, i] = 1
        if n >= 4:
            A[0, n - 1] = A[n - 1, 0] = 1
            A[0, 2] = A[2, 0] = 1
    elif name == 'isolated':       # last node isolated, the rest a star plus one chord
        for i in range(1, n - 1):
            A[0, i] = A[i, 0] = 1
        if n >= 4:
            A[1, 2] = A[2, 1] = 1
    elif name == 'random':
        A = G.random_und(rng, n, p=0.65)
    return A


def make_graph(n, name, kind, rng, binary=False):
    """kind: 'und+' | 'und±' | 'dir+'"""
    A = _pattern(n, name, rng)
    if kind == 'dir+':
        if name == 'random':
            A = G.random_dir(rng, n, p=0.6)
        elif name != 'complete':
            # drop some reverse arcs so that in- and out-neighbourhoods differ
            for i in range(n):
                for j in range(n):
                    if A[i, j] and (2 * i + j) % 3 == 0 and i > j:
                        A[i, j] = 0
        if binary:
            return A
        return G.weight_by_position(A, palette=PAL, symmetric=False)
    if binary:
        return A
    W = G.weight_by_position(A, palette=PAL, symmetric=True)
    if kind == 'und±':
        for i in range(n):
            for j in range(i + 1, n):
                if (3 * i + 5 * j) % 3 == 0:
                    W[i, j] = W[j, i] = -W[i, j]
    return W


def fixed_graphs(n, kind, seed, nrandom):
    out = []
    rng = np.random.RandomState(seed * 31 + n * 7 + {'und+': 0, 'und±': 1, 'dir+': 2}[kind])
    names = ['complete', 'path', 'isolated'] if n >= 3 else ['complete']
    for nm in names:
        out.append(('%s-%s-n%d' % (kind, nm, n), make_graph(n, nm, kind, rng)))
    if kind != 'und±':
        out.append(('%s-complete-binary-n%d' % (kind, n), make_graph(n, 'complete', kind, rng, binary=True)))
    for r in range(nrandom):
        out.append(('%s-random%d-n%d' % (kind, r, n), make_graph(n, 'random', kind, rng)))
    return out


# ---- consumers ---------------------------------------------------------------------------------------------------------------
def _arr(*xs):
    return [np.asarray(x, dtype=float) for x in xs]


def _with_ci(res, ci_in):
    """(ci_out, q) -> [co-membership of ci_out, q]; flag whether ci_out is the input partition"""
    ci_out, q = res
    ok = same_partition(np.asarray(ci_out).ravel(), ci_in)
    return [same_matrix(np.asarray(ci_out).ravel()).astype(float), np.asarray(q, dtype=float)], ok


CONSUMERS = []      # (function name, variant, graph kind, call(W, ci) -> (list of arrays, returned-ci-ok or None))


def _reg(fn, variant, kind, call):
    CONSUMERS.append((fn, variant, kind, call))


for _d in ('undirected', 'in', 'out'):
    _reg('participation_coef', _d, 'und+' if _d == 'undirected' else 'dir+', lambda W, ci, d=_d: (_arr(bct.participation_coef(W, ci, degree=d)), None))
_reg('participation_coef_sign', 'default', 'und±', lambda W, ci: (_arr(*bct.participation_coef_sign(W, ci)), None))
for _f in (0, 1, 2, 3):
    _reg('module_degree_zscore', 'flag%d' % _f, 'und+' if _f == 0 else 'dir+', lambda W, ci, f=_f: (_arr(bct.module_degree_zscore(W, ci, flag=f)), None))
_reg('diversity_coef_sign', 'default', 'und±', lambda W, ci: (_arr(*bct.diversity_coef_sign(W, ci)), None))
for _c in ('degree', 'betweenness'):
    _reg('gateway_coef_sign', _c, 'und±', lambda W, ci, c=_c: (_arr(*bct.gateway_coef_sign(W, ci, centrality_type=c)), None))
for _g in (1, 0.5):
    _reg('modularity_und', 'kci-gamma%s' % _g, 'und+', lambda W, ci, g=_g: _with_ci(bct.modularity_und(W, gamma=g, kci=ci), ci))
    _reg('modularity_dir', 'kci-gamma%s' % _g, 'dir+', lambda W, ci, g=_g: _with_ci(bct.modularity_dir(W, gamma=g, kci=ci), ci))
for _q in ('sta', 'pos', 'smp', 'gja', 'neg'):
    _reg('modularity_und_sign', _q, 'und±', lambda W, ci, q=_q: _with_ci(bct.modularity_und_sign(W, ci, qtype=q), ci))


def close(a, b):
    a, b = np.asarray(a, dtype=float), np.asarray(b, dtype=float)
    return a.shape == b.shape and bool(np.allclose(a, b, rtol=RTOL, atol=ATOL, equal_nan=True))


def _call(call, W, ci):
    """('ok', arrays, ciok) | ('skip',) | ('exc', exception)"""
    try:
        with warnings.catch_warnings(), np.errstate(all='ignore'):
            warnings.simplefilter('ignore')
            arrays, ciok = call(W.copy(), np.array(ci, dtype=int))
        return ('ok', arrays, ciok)
    except bct.BCTParamError:
        return ('skip',)
    except Exception as e:
        return ('exc', e)


def check_consumer(acc, fn, variant, call, gid, W, ci0, relabs):
    base = _call(call, W, ci0)
    wit0 = {'function': fn, 'variant': variant, 'graph': gid, 'W': W.tolist(), 'ci': ci0.tolist()}
    if base[0] == 'skip':
        acc.case()
        return
    if base[0] == 'exc':
        acc.violate('%s/RAISES-%s/%s' % (fn, type(base[1]).__name__, variant), 'in-domain input raised %r' % (base[1],), wit0)
    elif base[2] is False:
        acc.violate('%s/POST-returned-ci-is-the-input-partition/%s' % (fn, variant), 'the returned community vector is not the given partition (up to renaming)', wit0)
    for cname, g in relabs:
        ci1 = apply_g(ci0, g)
        res = _call(call, W, ci1)
        key = (fn, variant, gid, tuple(ci0.tolist()), g)
        acc.case(key=key, nontrivial=True, sample={'function': fn, 'variant': variant, 'graph': gid, 'ci': ci0.tolist(), 'relabelled': ci1.tolist(), 'class': cname})
        if res[0] == 'skip':
            continue
        wit = dict(wit0)
        wit.update({'ci_relabelled': ci1.tolist(), 'relabelling': cname})
        vkey = '%s/POST-same-result-under-relabelling/%s/%s' % (fn, variant, cname)
        if res[0] == 'exc' or base[0] == 'exc':
            if res[0] == 'exc' and base[0] != 'exc':
                acc.violate(vkey, 'labels %s give a result, the renamed labels %s raise %r' % (ci0.tolist(), ci1.tolist(), res[1]), wit)
            elif res[0] != 'exc':
                acc.violate(vkey, 'labels %s raise %r, the renamed labels %s give a result' % (ci0.tolist(), base[1], ci1.tolist()), wit)
            elif type(res[1]) is not type(base[1]):
                acc.violate(vkey, 'labels %s raise %r, the renamed labels %s raise %r' % (ci0.tolist(), base[1], ci1.tolist(), res[1]), wit)
            continue
        if res[2] is False:
            acc.violate('%s/POST-returned-ci-is-the-input-partition/%s' % (fn, variant), 'the returned community vector is not the given partition (up to renaming)', wit)
        a0, a1 = base[1], res[1]
        if len(a0) != len(a1) or not all(close(x, y) for x, y in zip(a0, a1)):
            wit['result'] = [x.tolist() for x in a0]
            wit['result_relabelled'] = [x.tolist() for x in a1]
            acc.violate(vkey, 'result for labels %s differs from the result for the renamed labels %s' % (ci0.tolist(), ci1.tolist()), wit)


def worker_consumers(task):
    n, parts, seed, nrandom, full_upto = task
    acc = Acc()
    graphs = {kind: fixed_graphs(n, kind, seed, nrandom) for kind in ('und+', 'und±', 'dir+')}
    for p in parts:
        ci0 = canon(p)
        k = int(ci0.max())
        relabs = relabellings(k, full_upto, salt=sum(p))
        for fn, variant, kind, call in CONSUMERS:
            for gid, W in graphs[kind]:
                check_consumer(acc, fn, variant, call, gid, W, ci0, relabs)
    return acc


def random_partition(rng, n):
    k = int(rng.randint(1, n + 1))
    return canon(rng.randint(0, k, size=n))


def random_injection(rng, k):
    style = rng.randint(4)
    if style == 0:
        vals = rng.permutation(k) + int(rng.randint(-3, 4))
    elif style == 1:
        vals = rng.choice(np.arange(-50, 50), size=k, replace=False)
    elif style == 2:
        vals = []
        while len(vals) < k:
            v = int(rng.randint(-10 ** 6, 10 ** 6))
            if v not in vals:
                vals.append(v)
    else:
        vals = (rng.permutation(k) + 1) * int(rng.randint(2, 40)) + int(rng.randint(0, 2000))
    return tuple(int(v) for v in vals)


def worker_consumers_random(task):
    seed, count, nlo, nhi = task
    rng = np.random.RandomState(seed)
    acc = Acc()
    for c in range(count):
        n = int(rng.randint(nlo, nhi + 1))
        ci0 = random_partition(rng, n)
        k = int(ci0.max())
        relabs = []
        for _ in range(3):
            g = random_injection(rng, k)
            if g != tuple(range(1, k + 1)):
                relabs.append(('random-injective', g))
        graphs = {}
        for kind in ('und+', 'und±', 'dir+'):
            if kind == 'dir+':
                W = G.random_dir(rng, n, p=rng.uniform(.3, .8), weights=list(PAL))
            else:
                W = G.random_und(rng, n, p=rng.uniform(.3, .8), weights=list(PAL), signed=(kind == 'und±'))
            graphs[kind] = [('%s-seed%d-case%d' % (kind, seed, c), W)]
        for fn, variant, kind, call in CONSUMERS:
            for gid, W in graphs[kind]:
                check_consumer(acc, fn, variant, call, gid, W, ci0, relabs)
    return acc


# ---- partition_distance ---------------------------------------------------------------------------------------------------
PD = 'partition_distance'


def _pd(cx, cy):
    with warnings.catch_warnings(), np.errstate(all='ignore'):
        warnings.simplefilter('ignore')
        v, m = bct.partition_distance(np.array(cx, dtype=int), np.array(cy, dtype=int))
    return float(v), float(m)


def check_pd_pair(acc, cx, cy, rel_x, rel_y, tag):
    n = len(cx)
    wit = {'function': PD, 'cx': cx.tolist(), 'cy': cy.tolist()}
    same = same_partition(cx, cy)
    kx, ky = int(cx.max()), int(cy.max())
    acc.case(key=(tag, tuple(cx.tolist()), tuple(cy.tolist())), nontrivial=True,
             sample={'function': PD, 'cx': cx.tolist(), 'cy': cy.tolist(), 'coincide': same})
    try:
        v, m = _pd(cx, cy)
    except bct.BCTParamError:
        return
    except Exception as e:
        acc.violate('%s/RAISES-%s' % (PD, type(e).__name__), 'in-domain input raised %r' % (e,), wit)
        return
    wit.update({'VIn': v, 'MIn': m})
    mi_defined = not (kx == 1 and ky == 1)       # H(X) + H(Y) > 0
    # symmetry
    try:
        v2, m2 = _pd(cy, cx)
        if not close(v, v2) or (mi_defined and not close(m, m2)):
            w = dict(wit)
            w.update({'VIn_swapped': v2, 'MIn_swapped': m2})
            acc.violate('%s/POST-symmetric-in-arguments' % PD, '(VIn, MIn) = (%r, %r) but (%r, %r) with the arguments exchanged' % (v, m, v2, m2), w)
    except Exception as e:
        acc.violate('%s/RAISES-%s' % (PD, type(e).__name__), 'in-domain input raised %r' % (e,), {'function': PD, 'cx': cy.tolist(), 'cy': cx.tolist()})
    # identity
    if (abs(v) <= ATOL) != same:
        acc.violate('%s/POST-VIn-zero-iff-same-partition' % PD, 'VIn = %r, partitions coincide up to renaming: %s' % (v, same), wit)
    if mi_defined and ((abs(m - 1) <= ATOL) != same):
        acc.violate('%s/POST-MIn-one-iff-same-partition' % PD, 'MIn = %r, partitions coincide up to renaming: %s' % (m, same), wit)
    # range
    if not (-ATOL <= v <= 1 + ATOL):
        acc.violate('%s/POST-VIn-in-0-1' % PD, 'VIn = %r' % v, wit)
    # label invariance (first argument, second argument, both)
    for (cnx, gx), (cny, gy) in zip(rel_x, rel_y):
        for which in ('x', 'y', 'xy'):
            ax = apply_g(cx, gx) if 'x' in which else cx
            ay = apply_g(cy, gy) if 'y' in which else cy
            cname = cnx if which == 'x' else (cny if which == 'y' else cnx + '+' + cny)
            acc.case(key=(tag, tuple(cx.tolist()), tuple(cy.tolist()), which, gx, gy), nontrivial=True)
            w = dict(wit)
            w.update({'cx_relabelled': ax.tolist(), 'cy_relabelled': ay.tolist()})
            try:
                v3, m3 = _pd(ax, ay)
            except bct.BCTParamError:
                continue
            except Exception as e:
                acc.violate('%s/POST-same-result-under-relabelling/arg-%s/%s' % (PD, which, cname), 'renamed labels raise %r' % (e,), w)
                continue
            if not close(v, v3) or not close(m, m3):
                w.update({'VIn_relabelled': v3, 'MIn_relabelled': m3})
                acc.violate('%s/POST-same-result-under-relabelling/arg-%s/%s' % (PD, which, cname),
                            '(VIn, MIn) = (%r, %r) but (%r, %r) for the renamed labels' % (v, m, v3, m3), w)


def _pick(rel, i, cnt):
    if not rel:
        return []
    return [rel[(i + t * 5) % len(rel)] for t in range(min(cnt, len(rel)))]


def worker_pd(task):
    n, xs, nrel, full_upto = task
    acc = Acc()
    allp = [canon(p) for p in G.set_partitions(n)]
    for ix in xs:
        cx = allp[ix]
        relx_all = relabellings(int(cx.max()), full_upto, salt=ix)
        for iy, cy in enumerate(allp):
            rely_all = relabellings(int(cy.max()), full_upto, salt=iy + 3)
            cnt = nrel if nrel else max(len(relx_all), len(rely_all))
            rx = [relx_all[(ix + iy + t) % len(relx_all)] for t in range(cnt)]
            ry = [rely_all[(ix * 3 + iy + t) % len(rely_all)] for t in range(cnt)]
            check_pd_pair(acc, cx, cy, rx, ry, n)
    return acc


def worker_pd_random(task):
    seed, count, nlo, nhi = task
    rng = np.random.RandomState(seed)
    acc = Acc()
    for c in range(count):
        n = int(rng.randint(nlo, nhi + 1))
        cx = random_partition(rng, n)
        style = rng.randint(4)
        if style == 0:
            cy = cx.copy()                                   # coincide
        elif style == 1:
            cy = cx.copy()                                   # differ in one node
            cy[rng.randint(n)] = int(rng.randint(1, cx.max() + 2))
            cy = canon(cy)
        else:
            cy = random_partition(rng, n)
        rx = [('random-injective', random_injection(rng, int(cx.max()))) for _ in range(2)]
        ry = [('random-injective', random_injection(rng, int(cy.max()))) for _ in range(2)]
        check_pd_pair(acc, cx, cy, rx, ry, ('r', seed, c))
    return acc


# ---- ci2ls / ls2ci ---------------------------------------------------------------------------------------------------------------
def check_ls(acc, ci0, relabs, perm_rng):
    n = len(ci0)
    want = classes(ci0)
    for cname, g in [('canonical', tuple(range(1, int(ci0.max()) + 1)))] + list(relabs):
        ci = apply_g(ci0, g)
        wit = {'function': 'ci2ls', 'ci': ci.tolist(), 'relabelling': cname}
        acc.case(key=('ls', tuple(ci.tolist())), nontrivial=True, sample={'function': 'ci2ls/ls2ci', 'ci': ci.tolist()})
        try:
            ls = bct.ci2ls(ci.copy())
        except Exception as e:
            acc.violate('ci2ls/RAISES-%s' % type(e).__name__, 'raised %r' % (e,), wit)
            continue
        try:
            got = set(frozenset(int(v) for v in mod) for mod in ls)
            flat = sorted(int(v) for mod in ls for v in mod)
        except Exception as e:
            acc.violate('ci2ls/POST-modules-are-the-classes/%s' % cname, 'result is not a list of lists of nodes: %r' % (ls,), wit)
            continue
        wit['ls'] = [[int(v) for v in mod] for mod in ls]
        if got != want or flat != list(range(n)) or len(ls) != len(want):
            acc.violate('ci2ls/POST-modules-are-the-classes/%s' % cname, 'modules %s are not the classes %s of the community vector (nodes numbered from 0)'
                        % (wit['ls'], sorted(map(sorted, want))), wit)
            continue
        for zi in (False, True):
            w = dict(wit)
            w.update({'function': 'ls2ci', 'zeroindexed': zi})
            try:
                back = np.asarray(bct.ls2ci([list(mod) for mod in ls], zeroindexed=zi))
            except Exception as e:
                acc.violate('ls2ci/RAISES-%s' % type(e).__name__, 'raised %r' % (e,), w)
                continue
            w['ci_back'] = back.tolist()
            if not same_partition(back.ravel(), ci):
                acc.violate('ls2ci/POST-inverse-of-ci2ls-up-to-renaming/%s' % cname, 'ls2ci(ci2ls(ci)) = %s is not the partition ci = %s' % (back.tolist(), ci.tolist()), w)
            elif int(back.min()) != (0 if zi else 1):
                acc.violate('ls2ci/POST-zeroindexed-lowest-label', 'zeroindexed=%s but the lowest label is %d (documented: 0 if True, else 1)' % (zi, int(back.min())), w)
    # ls -> ci -> ls with modules listed in another order and nodes shuffled inside modules
    mods = [sorted(c) for c in want]
    order = perm_rng.permutation(len(mods))
    ls_in = [[int(v) for v in perm_rng.permutation(mods[i])] for i in order]
    acc.case(key=('ls-in', tuple(map(tuple, ls_in))), nontrivial=True)
    for zi in (False, True):
        w = {'function': 'ls2ci', 'ls': ls_in, 'zeroindexed': zi}
        try:
            ci = np.asarray(bct.ls2ci([list(m) for m in ls_in], zeroindexed=zi))
            ls_back = bct.ci2ls(ci.copy())
            got = set(frozenset(int(v) for v in mod) for mod in ls_back)
        except Exception as e:
            acc.violate('ci2ls/RAISES-%s' % type(e).__name__, 'ci2ls(ls2ci(ls)) raised %r' % (e,), w)
            continue
        if got != want:
            w['ci'] = ci.tolist()
            acc.violate('ci2ls/POST-inverse-of-ls2ci-up-to-renaming', 'ci2ls(ls2ci(ls)) has modules %s, ls has %s' % (sorted(map(sorted, got)), sorted(map(sorted, want))), w)


def worker_ls(task):
    n, parts, full_upto = task
    acc = Acc()
    rng = np.random.RandomState(n * 100 + len(parts))
    for p in parts:
        ci0 = canon(p)
        check_ls(acc, ci0, relabellings(int(ci0.max()), full_upto, salt=sum(p)), rng)
    return acc


# ---- agreement -------------------------------------------------------------------------------------------------------------------
AG = 'agreement'


def _agree(CI, buffsz):
    with warnings.catch_warnings(), np.errstate(all='ignore'):
        warnings.simplefilter('ignore')
        if buffsz is None:
            return np.asarray(bct.agreement(CI.copy()), dtype=float)
        return np.asarray(bct.agreement(CI.copy(), buffsz=buffsz), dtype=float)


def check_agreement(acc, cols, relsets, tag):
    """cols: list of canonical label vectors (one partition each); relsets: list of per-column relabelling tuples (None = keep)."""
    CI = np.array(cols, dtype=int).T           # vertex x partition
    M = CI.shape[1]
    for buffsz in (None, 1, 2):
        if buffsz is not None and buffsz >= M and buffsz != 1:
            continue
        wit = {'function': AG, 'ci': CI.tolist(), 'buffsz': buffsz}
        try:
            D0 = _agree(CI, buffsz)
            exc0 = None
        except bct.BCTParamError:
            acc.case()
            continue
        except Exception as e:
            exc0 = e
            acc.violate('%s/RAISES-%s' % (AG, type(e).__name__), 'a vertex x partition array of %d partitions raised %r' % (M, e), wit)
        for rs in relsets:
            CI1 = np.array([apply_g(c, g) if g is not None else c for c, g in zip(cols, rs)], dtype=int).T
            acc.case(key=(tag, CI.tobytes(), CI1.tobytes(), buffsz), nontrivial=True,
                     sample={'function': AG, 'ci': CI.tolist(), 'ci_relabelled': CI1.tolist(), 'buffsz': buffsz})
            w = dict(wit)
            w['ci_relabelled'] = CI1.tolist()
            try:
                D1 = _agree(CI1, buffsz)
            except bct.BCTParamError:
                continue
            except Exception as e:
                if exc0 is None:
                    acc.violate('%s/POST-same-result-under-relabelling' % AG, 'renamed labels raise %r' % (e,), w)
                continue
            if exc0 is not None:
                acc.violate('%s/POST-same-result-under-relabelling' % AG, 'labels raise %r, renamed labels give a result' % (exc0,), w)
                continue
            if not close(D0, D1):
                w.update({'D': D0.tolist(), 'D_relabelled': D1.tolist()})
                acc.violate('%s/POST-same-result-under-relabelling' % AG, 'agreement matrix changed when the labels of some partitions were renamed', w)


def _relsets(cols, full_upto, salt):
    """a few per-column relabelling assignments: one column renamed at a time (rotating classes) and all columns renamed differently"""
    rel = [relabellings(int(c.max()), full_upto, salt=salt + i) for i, c in enumerate(cols)]
    out = []
    M = len(cols)
    for j in range(M):
        for t in range(3):
            g = rel[j][(salt + 4 * t + j) % len(rel[j])][1]
            out.append(tuple(g if i == j else None for i in range(M)))
    for t in range(4):
        out.append(tuple(rel[i][(salt + 3 * t + 2 * i) % len(rel[i])][1] for i in range(M)))
    return out


def worker_agreement(task):
    n, combos, full_upto = task
    acc = Acc()
    allp = [canon(p) for p in G.set_partitions(n)]
    for combo in combos:
        cols = [allp[i] for i in combo]
        check_agreement(acc, cols, _relsets(cols, full_upto, sum(combo)), n)
    return acc


def worker_agreement_random(task):
    seed, count, nlo, nhi = task
    rng = np.random.RandomState(seed)
    acc = Acc()
    for c in range(count):
        n = int(rng.randint(nlo, nhi + 1))
        M = int(rng.randint(1, 7))
        cols = [random_partition(rng, n) for _ in range(M)]
        rs = [tuple(random_injection(rng, int(col.max())) if rng.random_sample() < 0.7 else None for col in cols) for _ in range(3)]
        rs = [r for r in rs if any(g is not None for g in r)]
        check_agreement(acc, cols, rs, ('r', seed, c))
    return acc


# ---- driver ------------------------------------------------------------------------------------------------------------------------
def chunks(lst, k):
    k = max(1, k)
    return [lst[i::k] for i in range(k) if lst[i::k]]


RELDESC = ('permuted labels (all permutations of the k labels for k <= %d, else reversal, two rotations and three seeded permutations), zero-based (x-1), shifted (x+7), '
           'non-contiguous (3x+2), large (1000+17x), negative (-x and x-k-3), mixed sign with gaps, and permuted combined with non-contiguous / zero-based / large negative')


def run_bounded(run, tier, seed):
    thorough = tier == 'thorough'
    nmax = 6 if thorough else 5
    full_upto = 4 if thorough else 3
    nrandom = 3 if thorough else 2
    variants = sorted(set('%s/%s' % (fn, v) for fn, v, _, _ in CONSUMERS))

    part = 'consumers-all-partitions'
    run.bounded_part(
        part,
        bounds={'partitions': 'ALL partitions of n = 1..%d nodes (Bell numbers 1, 2, 5, 15, 52%s)' % (nmax, ', 203' if thorough else ''),
                'relabellings': RELDESC % full_upto,
                'graphs': 'per n and graph class (undirected non-negative, undirected signed, directed non-negative with some reverse arcs removed; weights from {0.5, 1, 2, 3} by position, '
                          'signs by position): complete, and for n >= 3 ring with chord and star with an isolated node; complete binary (unsigned classes); %d seeded random graphs (p = 0.6..0.65)' % nrandom,
                'functions': variants,
                'domain': 'non-negative weights for participation_coef, module_degree_zscore, modularity_und/_dir; signed weights for the *_sign routines; integer labels'},
        rule='one case = (function variant, graph, partition, relabelling g != identity): f(W, ci) must equal f(W, g(ci)) (rtol 1e-9, atol 1e-12, nan = nan); a returned community vector must be the '
             'input partition; every case is non-trivial (the label vector really changes); distinct by (variant, graph, partition, g)',
        exhaustive=True)
    tasks = []
    for n in range(1, nmax + 1):
        ps = [tuple(p) for p in G.set_partitions(n)]
        for ch in chunks(ps, 1 if n <= 3 else (8 if n == 4 else (26 if n == 5 else 101))):
            tasks.append((n, ch, seed, nrandom, full_upto))
    merge_all(run, part, pmap(worker_consumers, tasks))

    part = 'consumers-random'
    cnt = 40 if thorough else 12
    run.bounded_part(part, bounds={'n': '6..9', 'cases': '%d (graph triple, partition) x 3 random injective relabellings x %d function variants' % (16 * cnt, len(variants)),
                                   'relabellings': 'random injective maps into -10^6..10^6, small ranges, permutations with offset, arithmetic progressions'},
                     rule='seeded random (VERIF_SEED); same clauses as the exhaustive part', exhaustive=False)
    merge_all(run, part, pmap(worker_consumers_random, [(seed * 104729 + 17 + t, cnt, 6, 9) for t in range(16)]))

    part = 'partition_distance-all-pairs'
    nrel = 0 if False else (6 if thorough else 4)
    run.bounded_part(
        part,
        bounds={'pairs': 'ALL ordered pairs of partitions of n = 2..%d nodes' % nmax,
                'relabellings': '%d relabellings per pair, rotating through the list used for the consumers, applied to the first argument, to the second, and to both' % nrel,
                'excluded': 'n = 1 (log n = 0: VIn undefined); the MIn clauses are not evaluated when both partitions consist of a single module (H(X) + H(Y) = 0, MIn = 0/0) - VIn is still checked there'},
        rule='one case = ordered pair (cx, cy) [clauses: symmetric in arguments, |VIn| <= 1e-12 iff same partition, |MIn - 1| <= 1e-12 iff same partition, -1e-12 <= VIn <= 1 + 1e-12] '
             'or (pair, relabelled argument(s)) [same result]; distinct by pair and relabelling', exhaustive=True)
    tasks = []
    for n in range(2, nmax + 1):
        nb = len(list(G.set_partitions(n)))
        for ch in chunks(list(range(nb)), 1 if n <= 3 else (5 if n == 4 else (26 if n == 5 else 101))):
            tasks.append((n, ch, nrel, full_upto))
    merge_all(run, part, pmap(worker_pd, tasks))

    part = 'partition_distance-random'
    cnt = 400 if thorough else 100
    run.bounded_part(part, bounds={'n': '6..9', 'cases': 16 * cnt, 'pairs': 'identical, differing in one node, independent'},
                     rule='seeded random pairs with random injective relabellings; same clauses', exhaustive=False)
    merge_all(run, part, pmap(worker_pd_random, [(seed * 15485863 + 5 + t, cnt, 6, 9) for t in range(16)]))

    part = 'ci2ls-ls2ci'
    run.bounded_part(part, bounds={'partitions': 'ALL partitions of n = 1..%d nodes under every relabelling of the list above; module lists in shuffled order with shuffled nodes' % nmax},
                     rule='one case = one label vector (ci2ls lists exactly the classes, nodes from 0; ls2ci(ci2ls(ci)) is the partition ci; lowest label 1, or 0 with zeroindexed=True) or one module list '
                          '(ci2ls(ls2ci(ls)) has the modules of ls)', exhaustive=True)
    tasks = []
    for n in range(1, nmax + 1):
        ps = [tuple(p) for p in G.set_partitions(n)]
        for ch in chunks(ps, 1 if n <= 4 else 8):
            tasks.append((n, ch, full_upto))
    merge_all(run, part, pmap(worker_ls, tasks))

    part = 'agreement'
    rs = np.random.RandomState(seed + 99)
    tasks = []
    desc = []
    for n in range(1, nmax + 1):
        nb = len(list(G.set_partitions(n)))
        combos = [(i,) for i in range(nb)]
        if nb ** 2 <= (3000 if thorough else 300):
            combos += list(itertools.product(range(nb), repeat=2))
            d2 = 'all ordered pairs'
        else:
            combos += [tuple(int(x) for x in rs.randint(0, nb, size=2)) for _ in range(600)]
            d2 = '600 sampled pairs'
        if nb ** 3 <= (4000 if thorough else 200):
            combos += list(itertools.product(range(nb), repeat=3))
            d3 = 'all ordered triples'
        else:
            combos += [tuple(int(x) for x in rs.randint(0, nb, size=int(rs.randint(3, 6)))) for _ in range(400 if thorough else 150)]
            d3 = '%d sampled sets of 3..5' % (400 if thorough else 150)
        desc.append('n=%d: all single partitions, %s, %s' % (n, d2, d3))
        for ch in chunks(combos, max(1, min(32, len(combos) // 40))):
            tasks.append((n, ch, full_upto))
    run.bounded_part(part, bounds={'partition sets (columns of the vertex x partition array)': desc, 'buffsz': 'default (all at once), 1, 2 (when smaller than the number of partitions or 1)',
                                   'relabellings': 'each column renamed alone (3 classes, rotating) and all columns renamed by different maps (4 assignments)',
                                   'random': 'n = 6..9, 1..6 partitions, random injective maps'},
                     rule='one case = (set of partitions, buffsz, assignment of relabellings to columns): the agreement matrix must not change; distinct by the two arrays and buffsz', exhaustive=False)
    accs = pmap(worker_agreement, tasks)
    accs += pmap(worker_agreement_random, [(seed * 32452843 + 3 + t, 60 if thorough else 20, 6, 9) for t in range(16)])
    merge_all(run, part, accs)
