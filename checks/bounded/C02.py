"""C02 bounded stand-in: every community detector returns labels forming exactly 1..k (one per node) and the quality value it
reports is the modularity of that very partition, recomputed from the definition (checks/bounded/modq.py: Net.q_mod / q_sign /
q_obj); with hierarchical output every level is such a pair; modularity_und/_dir/_und_sign given a partition return that
partition's modularity.

The real routines of /repo are called (no weaving needed for this property); random draws are served by engine.srng.Scripted
(modq.ReScripted is that class with a re-arm method, modq.explore_fast is engine.srng.explore on a re-used object), so "every
seed" becomes "every node visiting order for the first passes, then a seeded continuation".

Violation keys:  <function>/<clause>[/hierarchy|/given-partition|/spectral][/directed-W]
  clauses  POST-labels-one-per-node, POST-labels-integer, POST-labels-1..k, POST-q-equals-modularity,
           POST-q-equals-objective-derived-from-coded-formula-{potts,negative_sym,negative_asym}  (community_louvain: q is documented
           for 'modularity' only; for the other built-in objectives the expected value is derived from the coded objective matrix),
           POST-given-partition-returned, POST-hierarchy-shape, RAISES-<Exception>
"""
from checks.bounded import modq as Q

RULE = ('one case = (routine, objective/type, network, gamma, start partition with its label values, hierarchy flag, choice script); '
        'non-trivial = the returned partition differs from the start partition (given-partition branches: 1 < k < n); '
        'distinct by hash of that tuple')


def plan(tier):
    thorough = tier == 'thorough'
    full = dict(depth=2, permdiv=1, gamma='all', relabel='all', qrot=False, prob_depth=4, prob_permdiv=1, prob_qrot=False)
    S5 = (-2, -1, 0, 1, 2)
    if not thorough:
        und = [dict(family='und', n=2, values=(0, 1, 2), graphs='all', cfg=full, per_task=3, weight=1),
               dict(family='und', n=3, values=(0, 1, 2), graphs='all', cfg=full, per_task=1, weight=20),
               dict(family='und', n=4, values=(0, 1, 2), graphs='all', per_task=6, weight=2,
                    cfg=dict(depth=1, permdiv=2, gamma='rot', relabel='rot'))]
        dr = [dict(family='dir', n=2, values=(0, 1, 2), graphs='all', cfg=full, per_task=9, weight=.2),
              dict(family='dir', n=3, values=(0, 1, 2), graphs='all', per_task=10, weight=1.2,
                   cfg=dict(depth=1, permdiv=1, gamma='all', relabel='rot'))]
        sg = [dict(family='sign', n=2, values=S5, graphs='all', cfg=full, per_task=5, weight=1),
              dict(family='sign', n=3, values=S5, graphs='all', per_task=3, weight=4,
                   cfg=dict(depth=1, permdiv=1, gamma='all', relabel='rot', qrot=True, prob_depth=3)),
              dict(family='sign', n=4, values=S5, graphs=160, per_task=2, weight=5,
                   cfg=dict(depth=1, permdiv=2, gamma='rot', relabel='rot', qrot=True, prob_depth=3, prob_permdiv=4)),
              dict(family='dsign', n=3, values=S5, graphs=200, per_task=10, weight=1,
                   cfg=dict(depth=1, permdiv=1, gamma='all', relabel='rot'))]
        rnd = [dict(family=f, count=15, tasks=4, nmin=5, nmax=10, selfloop_every=4) for f in ('und', 'dir', 'sign', 'dsign')]
    else:
        full3 = dict(full, depth=3)
        und = [dict(family='und', n=2, values=(0, 1, 2), graphs='all', cfg=full3, per_task=3, weight=1),
               dict(family='und', n=3, values=(0, 1, 2), graphs='all', cfg=full3, per_task=1, weight=60),
               dict(family='und', n=4, values=(0, 1, 2), graphs='all', per_task=2, weight=12,
                    cfg=dict(depth=1, permdiv=1, gamma='rot', relabel='all')),
               dict(family='und', n=5, values=(0, 1), graphs='all', per_task=4, weight=6,
                    cfg=dict(depth=1, permdiv=1, gamma='rot', relabel='rot')),
               dict(family='und', n=5, values=(0, 1, 2), graphs=500, per_task=4, weight=6,
                    cfg=dict(depth=1, permdiv=1, gamma='rot', relabel='rot'))]
        dr = [dict(family='dir', n=2, values=(0, 1, 2), graphs='all', cfg=full3, per_task=9, weight=.2),
              dict(family='dir', n=3, values=(0, 1, 2), graphs='all', per_task=3, weight=8,
                   cfg=dict(depth=2, permdiv=1, gamma='rot', relabel='all')),
              dict(family='dir', n=4, values=(0, 1), graphs=700, per_task=3, weight=6,
                   cfg=dict(depth=1, permdiv=1, gamma='rot', relabel='rot')),
              dict(family='dir', n=4, values=(0, 1, 2), graphs=700, per_task=3, weight=6,
                   cfg=dict(depth=1, permdiv=1, gamma='rot', relabel='rot'))]
        sg = [dict(family='sign', n=2, values=S5, graphs='all', cfg=full3, per_task=5, weight=1),
              dict(family='sign', n=3, values=S5, graphs='all', per_task=1, weight=30,
                   cfg=dict(depth=1, permdiv=1, gamma='all', relabel='all', qrot=False, prob_depth=2, prob_qrot=False)),
              dict(family='sign', n=4, values=S5, graphs=1000, per_task=2, weight=10,
                   cfg=dict(depth=1, permdiv=1, gamma='rot', relabel='rot', qrot=True, prob_depth=3, prob_permdiv=4)),
              dict(family='dsign', n=3, values=S5, graphs=1000, per_task=10, weight=2,
                   cfg=dict(depth=2, permdiv=1, gamma='all', relabel='rot'))]
        rnd = [dict(family=f, count=40, tasks=12, nmin=5, nmax=10, selfloop_every=4) for f in ('und', 'dir', 'sign', 'dsign')]
    return [dict(name='undirected-small-scope', entries=und), dict(name='directed-small-scope', entries=dr),
            dict(name='signed-small-scope', entries=sg), dict(name='random-to-n=10', random=rnd)]


def run_bounded(run, tier, seed):
    Q.run_plan(run, 'C02', seed, plan(tier), RULE)
