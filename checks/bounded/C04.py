"""C04 bounded stand-in: every deterministic measure is equivariant under renumbering of nodes.

For a permutation p and Ap = A[np.ix_(p, p)] (node a of Ap is node p[a] of A) the real function f is called on A and on
Ap and the results are compared according to the kind of every output:

    node       f(Ap) == f(A)[p]
    pair       f(Ap) == f(A)[np.ix_(p, p)]
    pairs3     the same on the first two axes of an (n, n, q) array
    scalar     f(Ap) == f(A)
    dist       f(Ap) == f(A)            (vector indexed by something else than nodes: degree level, core level, ...)
    multiset   sorted values equal      (per-edge lists, component sizes: the order of the entries is an enumeration order)
    colset     multiset of columns equal
    partition  label vectors equal up to renaming of the labels
    firsthop   index valued per-pair matrix, p[f(Ap)] == f(A)[ix_(p,p)] off the diagonal (only passed on when the
               shortest paths are unique, see the notes)

Oracle = the property statement itself (a relation between two runs of the same function); nothing else of bct is used.
The enumerated *binary* input sets (and the weighted sets with all matrices over a fixed value set) are closed under
relabelling, hence the n-1 adjacent transpositions on every labelled graph imply the relation for all n! permutations.
"""
import contextlib, io, itertools, math, os, sys, time
for _v in ('OMP_NUM_THREADS', 'OPENBLAS_NUM_THREADS', 'MKL_NUM_THREADS'):   # as ./check does; effective only if numpy is not loaded yet
    os.environ.setdefault(_v, '1')                                        # (threaded BLAS on 5x5 matrices costs 1000x in expm)
import numpy as np
import bct
from engine import graphs as G
from engine.par import pmap, Acc

RTOL, ATOL = 1e-9, 1e-10
PART_EXH = 'equivariance-exhaustive-small-graphs'
PART_RND = 'equivariance-random-permutations'
PART_SYM = 'equivariance-symmetric-graphs'


# ---------------------------------------------------------------------------------------------------------------------
# parameters that have to be renumbered along with the graph
class Node:
    """per-node vector argument: v -> v[p]"""
    def __init__(self, v):
        self.v = np.asarray(v)

    def perm(self, p, inv):
        return Node(self.v[p])

    def raw(self):
        return self.v.copy()


class Idx:
    """node index argument: i -> position of i in the renumbered graph"""
    def __init__(self, i):
        self.i = int(i)

    def perm(self, p, inv):
        return Idx(inv[self.i])

    def raw(self):
        return self.i


class PairM:
    """per-pair matrix argument: D -> D[ix_(p,p)]"""
    def __init__(self, m):
        self.m = np.asarray(m)

    def perm(self, p, inv):
        return PairM(self.m[np.ix_(p, p)])

    def raw(self):
        return self.m.copy()


def _raw(params):
    return tuple(x.raw() if isinstance(x, (Node, Idx, PairM)) else x for x in params)


def _permp(params, p, inv):
    return tuple(x.perm(p, inv) if isinstance(x, (Node, Idx, PairM)) else x for x in params)


def _jparams(params):
    out = []
    for x in params:
        if isinstance(x, Node):
            out.append({'per-node': x.v.tolist()})
        elif isinstance(x, Idx):
            out.append({'node-index': x.i})
        elif isinstance(x, PairM):
            out.append({'per-pair': x.m.tolist()})
        else:
            out.append(x)
    return out


# ---------------------------------------------------------------------------------------------------------------------
# independent helpers (no bct)
def own_lengths(A, transform=None):
    """edge length matrix (inf = no edge) as the shortest-path measures define it"""
    A = np.asarray(A, dtype=float)
    L = np.full(A.shape, np.inf)
    nz = A != 0
    if transform is None:
        L[nz] = A[nz]
    elif transform == 'inv':
        L[nz] = 1.0 / A[nz]
    elif transform == 'log':
        L[nz] = -np.log(A[nz])
    np.fill_diagonal(L, np.inf)
    return L


def own_floyd(L):
    n = len(L)
    D = L.copy()
    np.fill_diagonal(D, 0)
    for k in range(n):
        D = np.minimum(D, D[:, [k]] + D[[k], :])
    return D


def own_dist_bin(A):
    return own_floyd(own_lengths((np.asarray(A) != 0).astype(float)))


def unique_shortest_paths(L):
    """True iff every ordered pair (i, j), i != j, j reachable from i, has exactly one shortest path (near ties count as ties)"""
    n = len(L)
    D = own_floyd(L)
    for i in range(n):
        for j in range(n):
            if i == j or not np.isfinite(D[i, j]):
                continue
            c = 0
            for k in range(n):
                if k != i and np.isfinite(L[i, k]) and np.isfinite(D[k, j]) and \
                        abs(L[i, k] + D[k, j] - D[i, j]) <= 1e-9 * max(1.0, abs(D[i, j])):
                    c += 1
            if c != 1:
                return False
    return True


def has_edge(A):
    return bool(np.any(A != 0))


def conn_u(A):
    return len(A) >= 2 and G.is_connected_und(A)


def conn_any(A):
    """connected (undirected input) / strongly connected (directed input)"""
    if len(A) < 2:
        return False
    if np.array_equal(A != 0, (A != 0).T):
        return G.is_connected_und(A)
    return G.is_strongly_connected(A)


def every_edge_has_a_third_node(A):
    """edge_nei_overlap_*: for every edge (i, j) some node other than i, j is adjacent (either direction) to i or to j"""
    B = (A != 0) | (A != 0).T
    n = len(A)
    if not B.any():
        return True
    for i in range(n):
        for j in range(n):
            if A[i, j] != 0:
                u = B[i] | B[j]
                u = u.copy()
                u[i] = u[j] = False
                if not u.any():
                    return False
    return True


def no_isolated(A):
    B = (A != 0)
    return len(A) >= 2 and bool(np.all(B.sum(1) > 0))


# ---------------------------------------------------------------------------------------------------------------------
# graph families
UPAL, SPAL, W01PAL = (1.0, 2.0, 3.0), (1.0, -2.0, 3.0, -1.0, 2.0), (0.25, 0.5, 1.0)
CLOSED_VALUES = {'uwc': (0.0, 1.0, 2.0), 'usc': (0.0, 1.0, -1.0), 'uw01c': (0.0, 0.5, 1.0), 'dwc': (0.0, 1.0, 2.0)}
FAM_DOC = {
    'ub': 'all labelled simple undirected 0/1 graphs (closed under relabelling)',
    'db': 'all labelled simple directed 0/1 graphs (closed under relabelling)',
    'uwc': 'all symmetric matrices with entries from {0,1,2}, empty diagonal (closed under relabelling)',
    'usc': 'all symmetric matrices with entries from {0,1,-1}, empty diagonal (closed under relabelling)',
    'uw01c': 'all symmetric matrices with entries from {0,.5,1}, empty diagonal (closed under relabelling)',
    'dwc': 'all matrices with entries from {0,1,2}, empty diagonal (closed under relabelling)',
    'uwp': 'undirected graphs weighted by position with the palette (1,2,3); W built first, then W permuted (set not closed)',
    'usp': 'undirected graphs weighted by position with the signed palette (1,-2,3,-1,2) (set not closed)',
    'uw01p': 'undirected graphs weighted by position with the palette (.25,.5,1) (set not closed)',
    'dwp': 'directed graphs weighted by position with the palette (1,2,3) (set not closed)',
}
CLOSED = ('ub', 'db', 'uwc', 'usc', 'uw01c', 'dwc')
DOM2FAM = {('u', 'b'): ('ub',), ('d', 'b'): ('db',), ('u', 'w'): ('uwc', 'uwp'), ('u', 's'): ('usc', 'usp'),
           ('u', 'w01'): ('uw01c', 'uw01p'), ('d', 'w'): ('dwc', 'dwp')}


def fam_size(fam, n):
    if fam in ('ub', 'uwp', 'usp', 'uw01p'):
        return G.n_und(n)
    if fam in ('db', 'dwp'):
        return G.n_dir(n)
    if fam in ('uwc', 'usc', 'uw01c'):
        return 3 ** (n * (n - 1) // 2)
    if fam == 'dwc':
        return 3 ** (n * (n - 1))
    raise KeyError(fam)


def make_graph(fam, n, idx):
    if fam == 'ub':
        return G.und_from_bits(n, idx)
    if fam == 'db':
        return G.dir_from_bits(n, idx)
    if fam == 'uwp':
        return G.weight_by_position(G.und_from_bits(n, idx), UPAL, symmetric=True)
    if fam == 'usp':
        return G.weight_by_position(G.und_from_bits(n, idx), SPAL, symmetric=True)
    if fam == 'uw01p':
        return G.weight_by_position(G.und_from_bits(n, idx), W01PAL, symmetric=True)
    if fam == 'dwp':
        return G.weight_by_position(G.dir_from_bits(n, idx), UPAL, symmetric=False)
    vals = CLOSED_VALUES[fam]
    W = np.zeros((n, n))
    if fam == 'dwc':
        for (i, j) in G.dir_pairs(n):
            idx, d = divmod(idx, 3)
            W[i, j] = vals[d]
    else:
        for (i, j) in G.und_pairs(n):
            idx, d = divmod(idx, 3)
            W[i, j] = W[j, i] = vals[d]
    return W


def is_dir_fam(fam):
    return fam in ('db', 'dwc', 'dwp')


# ---------------------------------------------------------------------------------------------------------------------
# registry
class M:
    def __init__(self, name, call, kinds, dom, outs=None, params=None, pred=None, cost=0, ties=None, label=None, probe=False):
        self.probe = probe                # candidate believed to raise on every input: probed at run time, left out if so
        self.name = name                  # bct function name (first component of the violation key)
        self.call = call                  # call(A, *raw_params) -> tuple of outputs
        self.kinds = tuple(kinds)
        self.outs = tuple(outs) if outs else tuple('out%d' % i for i in range(len(self.kinds)))
        self.dom = tuple(dom)             # ((dir, wt), ...)
        self.params = params or (lambda n, fam: [()])
        self.pred = pred                  # domain predicate on A (documented in the notes)
        self.cost = cost                  # 0 cheap, 1 python loops, 2 the three most expensive
        self.ties = ties                  # ties(A, raw_params) -> True if shortest paths are not unique (key suffix)
        self.label = label or name

    def fams(self):
        out = []
        for d in self.dom:
            out.extend(DOM2FAM[d])
        return out


def T(f):
    """single output -> tuple"""
    return lambda A, *a: (f(A, *a),)


def ci_params(n, fam, extra=((),)):
    """community vectors, renumbered along with the graph.  All label vectors over {1,2,3} (n <= 3; n = 4 on the binary undirected
    set) resp. {1,2} (n = 4 closed weighted sets, n = 5 binary undirected set): these sets are closed under renumbering.
    Elsewhere (sampled scopes, n >= 6) a few seeded label vectors over {1,2,3}."""
    if n <= 3 and fam in CLOSED:
        k = 3 if fam != 'dwc' else 2
    elif n == 4 and fam == 'ub':
        k = 3
    elif (n == 4 and fam in ('uwc', 'usc', 'uw01c')) or (n == 5 and fam == 'ub'):
        k = 2
    else:
        k = 0
    if k:
        cis = list(itertools.product(range(1, k + 1), repeat=n))
    else:
        rs = np.random.RandomState(1000 + n)
        cis = [tuple(rs.randint(1, 4, n)) for _ in range(6)]
    return [(Node(np.array(ci)),) + tuple(e) for ci in cis for e in extra]


def _kcore(fn):
    def call(A, k):
        C, kn, po, pl = fn(A, k, peel=True)
        lev = np.zeros(len(A))
        for ff, l in zip(po, pl):
            lev[ff] = l
        return C, kn, lev
    return call


def _floyd(A, transform):
    SPL, hops, Pmat = bct.distance_wei_floyd(A, transform)
    if not unique_shortest_paths(own_lengths(A, transform)):
        Pmat = None
    return SPL, hops, Pmat


def _ties_len(transform_pos=None, binary=False):
    def ties(A, params):
        tr = params[transform_pos] if transform_pos is not None else None
        return not unique_shortest_paths(own_lengths((A != 0).astype(float) if binary else A, tr))
    return ties


def _charpath(A, incl_diag, incl_inf):
    return bct.charpath(own_dist_bin(A), incl_diag, incl_inf)


def _findwalks(A):
    Wq, tw, wlq = bct.findwalks(A)
    return Wq, tw, wlq


def _get_components(A):
    comps, sizes = bct.get_components(A)
    return comps, sizes


def _breadth(A, s):
    d, _branch = bct.breadth(A, s)
    return (d,)


def _erange(A):
    Er, eta, Es, fs = bct.erange(A)
    return Er, eta, Es.astype(float), fs


UB, DB, UW, DW, US, UW01 = ('u', 'b'), ('d', 'b'), ('u', 'w'), ('d', 'w'), ('u', 's'), ('u', 'w01')


def build_registry():
    R = []
    add = R.append
    kparams_u = lambda n, fam: [(k,) for k in range(0, n + 1)]
    kparams_d = lambda n, fam: [(k,) for k in range(0, 2 * n)]
    # degree / strength / density
    add(M('degrees_und', T(bct.degrees_und), ['node'], [UB, UW]))
    add(M('degrees_dir', bct.degrees_dir, ['node'] * 3, [DB, DW], outs=['id', 'od', 'deg']))
    add(M('strengths_und', T(bct.strengths_und), ['node'], [UB, UW]))
    add(M('strengths_dir', T(bct.strengths_dir), ['node'], [DB, DW]))
    add(M('strengths_und_sign', bct.strengths_und_sign, ['node', 'node', 'scalar', 'scalar'], [US], outs=['Spos', 'Sneg', 'vpos', 'vneg']))
    add(M('jdegree', lambda A: bct.jdegree(A.astype(int)), ['dist', 'scalar', 'scalar', 'scalar'], [DB, DW], outs=['J', 'J_od', 'J_id', 'J_bl'],
          label='jdegree[integer dtype]'))
    add(M('jdegree', bct.jdegree, ['dist', 'scalar', 'scalar', 'scalar'], [DB, DW], outs=['J', 'J_od', 'J_id', 'J_bl'],
          label='jdegree[float dtype]', probe=True))
    add(M('density_und', bct.density_und, ['scalar'] * 3, [UB, UW], outs=['kden', 'N', 'K']))
    add(M('density_dir', bct.density_dir, ['scalar'] * 3, [DB, DW], outs=['kden', 'N', 'K']))
    # clustering / transitivity
    add(M('clustering_coef_bu', T(bct.clustering_coef_bu), ['node'], [UB]))
    add(M('clustering_coef_bd', T(bct.clustering_coef_bd), ['node'], [DB]))
    add(M('clustering_coef_wu', T(bct.clustering_coef_wu), ['node'], [UW, UW01]))
    add(M('clustering_coef_wd', T(bct.clustering_coef_wd), ['node'], [DW]))
    add(M('clustering_coef_wu_sign', lambda A, t: tuple(bct.clustering_coef_wu_sign(A, t)),
          ['node', 'node'], [US], outs=['Cpos', 'Cneg'], params=lambda n, fam: [('default',), ('zhang',)], cost=1))
    add(M('clustering_coef_wu_sign', lambda A: (bct.clustering_coef_wu_sign(A, 'costantini'),), ['node'], [US],
          label='clustering_coef_wu_sign[costantini]', cost=1))
    add(M('transitivity_bu', T(bct.transitivity_bu), ['scalar'], [UB]))
    add(M('transitivity_bd', T(bct.transitivity_bd), ['scalar'], [DB]))
    add(M('transitivity_wu', T(bct.transitivity_wu), ['scalar'], [UW, UW01]))
    add(M('transitivity_wd', T(bct.transitivity_wd), ['scalar'], [DW]))
    # distances
    add(M('distance_bin', T(bct.distance_bin), ['pair'], [UB, DB, UW]))
    add(M('distance_wei', bct.distance_wei, ['pair', 'pair'], [UB, DB, UW, DW], outs=['D', 'B'], cost=1, ties=_ties_len()))
    add(M('distance_wei_floyd', _floyd, ['pair', 'pair', 'firsthop'], [UB, DB, UW, DW], outs=['SPL', 'hops', 'Pmat'],
          params=lambda n, fam: [(None,)] if fam in ('ub', 'db') else [(None,), ('inv',)], ties=_ties_len(0)))
    add(M('distance_wei_floyd', _floyd, ['pair', 'pair', 'firsthop'], [UW01], outs=['SPL', 'hops', 'Pmat'],
          params=lambda n, fam: [('log',)], ties=_ties_len(0), label='distance_wei_floyd[log]'))
    add(M('breadthdist', bct.breadthdist, ['pair', 'pair'], [UB, DB], outs=['R', 'D'], cost=1))
    add(M('breadth', _breadth, ['node'], [UB, DB], outs=['distance'], params=lambda n, fam: [(Idx(s),) for s in range(n)], cost=1))
    add(M('reachdist', bct.reachdist, ['pair', 'pair'], [UB, DB], outs=['R', 'D']))
    add(M('charpath', _charpath, ['scalar', 'scalar', 'node', 'scalar', 'scalar'], [UB, DB],
          outs=['lambda', 'efficiency', 'ecc', 'radius', 'diameter'],
          params=lambda n, fam: [(False, True), (True, True), (False, False)]))
    add(M('findwalks', _findwalks, ['pairs3', 'scalar', 'dist'], [UB, DB], outs=['Wq', 'twalk', 'wlq']))
    # efficiency
    add(M('efficiency_bin', T(bct.efficiency_bin), ['scalar'], [UB], label='efficiency_bin[global]'))
    add(M('efficiency_bin', lambda A: (bct.efficiency_bin(A, True),), ['node'], [UB], label='efficiency_bin[local]', cost=1))
    add(M('efficiency_wei', T(bct.efficiency_wei), ['scalar'], [UW01], label='efficiency_wei[global]', cost=1))
    add(M('efficiency_wei', lambda A, loc: (bct.efficiency_wei(A, loc),), ['node'], [UW01], label='efficiency_wei[local]',
          params=lambda n, fam: [(True,), ('original',)], cost=2))
    # betweenness
    add(M('betweenness_bin', T(bct.betweenness_bin), ['node'], [UB, DB]))
    add(M('betweenness_wei', T(bct.betweenness_wei), ['node'], [UB, UW, DW], cost=2))
    add(M('edge_betweenness_bin', bct.edge_betweenness_bin, ['pair', 'node'], [UB, DB], outs=['EBC', 'BC'], cost=1))
    add(M('edge_betweenness_wei', bct.edge_betweenness_wei, ['pair', 'node'], [UB, UW, DW], outs=['EBC', 'BC'], cost=2))
    # cores
    add(M('kcore_bu', _kcore(bct.kcore_bu), ['pair', 'scalar', 'node'], [UB], outs=['CIJkcore', 'kn', 'peellevel-of-node'], params=kparams_u))
    add(M('kcore_bd', _kcore(bct.kcore_bd), ['pair', 'scalar', 'node'], [DB], outs=['CIJkcore', 'kn', 'peellevel-of-node'], params=kparams_d))
    add(M('score_wu', bct.score_wu, ['pair', 'scalar'], [UW], outs=['CIJscore', 'sn'],
          params=lambda n, fam: [(s,) for s in (0.5, 1.5, 2.5, 3.5, 5.0)]))
    add(M('kcoreness_centrality_bu', bct.kcoreness_centrality_bu, ['node', 'dist'], [UB], outs=['coreness', 'kn']))
    add(M('kcoreness_centrality_bd', bct.kcoreness_centrality_bd, ['node', 'dist'], [DB], outs=['coreness', 'kn']))
    rcp = lambda n, fam: [(None,), (2,)]
    add(M('rich_club_bu', bct.rich_club_bu, ['dist'] * 3, [UB], outs=['R', 'Nk', 'Ek'], params=rcp))
    add(M('rich_club_bd', bct.rich_club_bd, ['dist'] * 3, [DB], outs=['R', 'Nk', 'Ek'], params=rcp))
    add(M('rich_club_wu', T(bct.rich_club_wu), ['dist'], [UW], params=rcp))
    add(M('rich_club_wd', T(bct.rich_club_wd), ['dist'], [DW], params=rcp))
    # assortativity
    add(M('assortativity_bin', T(bct.assortativity_bin), ['scalar'], [UB], params=lambda n, fam: [(0,)]))
    add(M('assortativity_bin', T(bct.assortativity_bin), ['scalar'], [DB], params=lambda n, fam: [(1,), (2,), (3,), (4,)],
          label='assortativity_bin[directed flags]'))
    add(M('assortativity_wei', T(bct.assortativity_wei), ['scalar'], [UW], params=lambda n, fam: [(0,)]))
    add(M('local_assortativity_wu_sign', bct.local_assortativity_wu_sign, ['node', 'node'], [US], outs=['pos', 'neg']))
    # spectral / linear-algebra
    add(M('pagerank_centrality', T(bct.pagerank_centrality), ['node'], [UB, DB, UW, DW],
          params=lambda n, fam: [(0.85,), (0.5, Node(np.arange(1.0, n + 1)))]))
    add(M('eigenvector_centrality_und', T(bct.eigenvector_centrality_und), ['node'], [UB, UW], pred=conn_u))
    add(M('subgraph_centrality', T(bct.subgraph_centrality), ['node'], [UB]))
    add(M('mean_first_passage_time', T(bct.mean_first_passage_time), ['pair'], [UB, UW, DB, DW], pred=conn_any))
    add(M('diffusion_efficiency', bct.diffusion_efficiency, ['scalar', 'pair'], [UB, UW, DB, DW], outs=['gediff', 'ediff'], pred=conn_any))
    # similarity
    add(M('matching_ind', bct.matching_ind, ['pair'] * 3, [UB, DB], outs=['Min', 'Mout', 'Mall'], cost=1))
    add(M('matching_ind_und', T(bct.matching_ind_und), ['pair'], [UB]))
    add(M('gtom', T(bct.gtom), ['pair'], [UB, UW], params=lambda n, fam: [(s,) for s in (0, 1, 2, 3, 4)], cost=1))
    add(M('edge_nei_overlap_bu', bct.edge_nei_overlap_bu, ['pair', 'multiset', 'colset'], [UB], outs=['EC', 'ec', 'degij'],
          pred=every_edge_has_a_third_node, cost=1))
    add(M('edge_nei_overlap_bd', bct.edge_nei_overlap_bd, ['pair', 'multiset', 'colset'], [DB], outs=['EC', 'ec', 'degij'],
          pred=every_edge_has_a_third_node, cost=1))
    add(M('flow_coef_bd', bct.flow_coef_bd, ['node', 'scalar', 'node'], [DB, UB], outs=['fc', 'FC', 'total_flo'], cost=1))
    add(M('erange', _erange, ['pair', 'scalar', 'pair', 'scalar'], [DB, UB], outs=['Erange', 'eta', 'Eshort', 'fs'], pred=has_edge, cost=1))
    # community-vector based
    add(M('participation_coef', T(bct.participation_coef), ['node'], [UB, UW], params=lambda n, fam: ci_params(n, fam, (('undirected',),))))
    add(M('participation_coef', T(bct.participation_coef), ['node'], [DB, DW], params=lambda n, fam: ci_params(n, fam, (('in',), ('out',))),
          label='participation_coef[in/out]'))
    add(M('participation_coef_sign', bct.participation_coef_sign, ['node', 'node'], [US], outs=['Ppos', 'Pneg'], params=ci_params))
    add(M('module_degree_zscore', T(bct.module_degree_zscore), ['node'], [UB, UW], params=lambda n, fam: ci_params(n, fam, ((0,),))))
    add(M('module_degree_zscore', T(bct.module_degree_zscore), ['node'], [DB, DW], params=lambda n, fam: ci_params(n, fam, ((1,), (2,), (3,))),
          label='module_degree_zscore[flags 1-3]'))
    add(M('diversity_coef_sign', bct.diversity_coef_sign, ['node', 'node'], [US], outs=['Hpos', 'Hneg'], params=ci_params))
    # components
    add(M('get_components', _get_components, ['partition', 'multiset'], [UB], outs=['comps', 'comp_sizes']))
    add(M('number_of_components', T(bct.number_of_components), ['scalar'], [UB]))
    # path based communication measures
    sip = lambda n, fam: [(None, False), (None, True)] if fam == 'ub' else [(None, False), ('inv', False), ('inv', True)]
    add(M('search_information', T(bct.search_information), ['pair'], [UB, UW], params=sip, pred=conn_u, cost=1, ties=_ties_len(0), probe=True))
    add(M('path_transitivity', T(bct.path_transitivity), ['pair'], [UB, UW], pred=conn_u, cost=1, ties=_ties_len(0),
          params=lambda n, fam: [(None,)] if fam == 'ub' else [(None,), ('inv',)], probe=True))
    add(M('resource_efficiency_bin', bct.resource_efficiency_bin, ['pair', 'pair'], [UB], outs=['Eres', 'prob_spl'], pred=conn_u,
          params=lambda n, fam: [(0.5,)], cost=1))
    add(M('rout_efficiency', bct.rout_efficiency, ['scalar', 'pair', 'node'], [UB, UW], outs=['GErout', 'Erout', 'Eloc'],
          params=lambda n, fam: [(None,)] if fam == 'ub' else [(None,), ('inv',)], cost=1))
    add(M('navigation_wu', lambda L, D: bct.navigation_wu(L, D)[:4], ['scalar', 'pair', 'pair', 'pair'], [UB, UW],
          outs=['sr', 'PL_bin', 'PL_wei', 'PL_dis'], params=lambda n, fam: [(PairM(_nodal_distance(n)),)], cost=1))
    return R


def _nodal_distance(n):
    """symmetric nodal distance matrix without ties (1-D coordinates 2^i * sqrt(2)): greedy navigation is then well defined"""
    x = np.array([2.0 ** i for i in range(n)]) * math.sqrt(2.0)
    return np.abs(x[:, None] - x[None, :])


EXCLUDED = []   # filled by hand below after probing the unchanged tree (name, reason)


# ---------------------------------------------------------------------------------------------------------------------
# comparison
def _num(x):
    a = np.asarray(x)
    if a.dtype == bool:
        a = a.astype(float)
    if np.iscomplexobj(a):
        return a
    return a.astype(float)


def close(x, y):
    x, y = _num(x), _num(y)
    if x.shape != y.shape:
        return False
    if x.size == 0:
        return True
    if (x == y).all():                                   # fast path (no nan present, everything identical)
        return True
    if np.iscomplexobj(x) or np.iscomplexobj(y):
        return bool(np.allclose(x, y, rtol=RTOL, atol=ATOL, equal_nan=True))
    nx, ny = np.isnan(x), np.isnan(y)
    if not np.array_equal(nx, ny):
        return False
    ix, iy = np.isinf(x), np.isinf(y)
    if not np.array_equal(ix, iy) or not np.array_equal(np.sign(x[ix]), np.sign(y[iy])):
        return False
    f = ~(nx | ix)
    xf, yf = x[f], y[f]
    if np.all(xf == np.round(xf)) and np.all(yf == np.round(yf)):
        return bool(np.array_equal(xf, yf))             # integer valued: exact
    return bool(np.allclose(xf, yf, rtol=RTOL, atol=ATOL))


def same_partition(a, b):
    a, b = np.asarray(a).ravel(), np.asarray(b).ravel()
    if a.shape != b.shape:
        return False
    f, g = {}, {}
    for x, y in zip(a.tolist(), b.tolist()):
        if f.setdefault(x, y) != y or g.setdefault(y, x) != x:
            return False
    return True


def compare(kind, base, outp, p):
    """base = f(A) component, outp = f(Ap) component"""
    if base is None and outp is None:
        return True
    if base is None or outp is None:
        return False
    if kind == 'node':
        b = _num(base)
        if b.ndim != 1 or b.shape[0] != len(p):
            return False
        return close(b[p], outp)
    if kind == 'pair':
        b = _num(base)
        if b.ndim != 2 or b.shape != (len(p), len(p)):
            return False
        return close(b[np.ix_(p, p)], outp)
    if kind == 'pairs3':
        b = _num(base)
        if b.ndim != 3:
            return False
        return close(b[np.ix_(p, p)], outp)
    if kind in ('scalar', 'dist'):
        return close(base, outp)
    if kind == 'multiset':
        b, o = _num(base).ravel(), _num(outp).ravel()
        return b.shape == o.shape and close(np.sort(b), np.sort(o))
    if kind == 'colset':
        b, o = _num(base), _num(outp)
        if b.shape != o.shape:
            return False
        if b.size == 0:
            return True
        return close(b[:, np.lexsort(b[::-1])], o[:, np.lexsort(o[::-1])])
    if kind == 'partition':
        return same_partition(np.asarray(base)[p], outp)
    if kind == 'firsthop':
        b, o = np.asarray(base), np.asarray(outp)
        n = len(p)
        if b.shape != (n, n) or o.shape != (n, n):
            return False
        off = ~np.eye(n, dtype=bool)
        return bool(np.array_equal(np.asarray(p)[o.astype(int)][off], b[np.ix_(p, p)][off]))
    raise KeyError(kind)


def _lst(x):
    if x is None:
        return None
    a = np.asarray(x)
    if a.size > 400:
        return 'array of shape %s (omitted)' % (a.shape,)
    if np.iscomplexobj(a):
        return repr(a.tolist())
    return a.tolist()


class Skip(Exception):
    pass


def run_call(acc, m, fam, A, params, what):
    """call the real function on a private copy; BCTParamError -> Skip; other exceptions -> RAISES violation + Skip"""
    try:
        out = m.call(A.copy(), *_raw(params))
    except bct.BCTParamError:
        raise Skip()
    except Exception as e:
        acc.violate('%s/RAISES-%s' % (m.name, type(e).__name__),
                    '%s raised %r on an in-domain input (%s)' % (m.label, e, what),
                    {'function': m.name, 'variant': m.label, 'family': fam, 'A': A.tolist(), 'params': _jparams(params)})
        raise Skip()
    if not isinstance(out, tuple):
        out = tuple(out) if isinstance(out, list) else (out,)
    return out


def _renumbered(params):
    return any(isinstance(x, (Node, Idx, PairM)) for x in params)


def check_case(acc, m, fam, A, params, perms):
    """all permutations `perms` of one (measure, input, parameters); returns the list of permutations compared"""
    try:
        base = run_call(acc, m, fam, A, params, 'original numbering')
    except Skip:
        return []
    tied = None
    done = []
    for p in perms:
        p = np.asarray(p)
        inv = np.argsort(p)
        Ap = A[np.ix_(p, p)]
        pp = _permp(params, p, inv)
        try:
            outp = run_call(acc, m, fam, Ap, pp, 'renumbered with p=%s' % p.tolist())
        except Skip:
            continue
        done.append(p)
        if len(outp) != len(base) or len(base) != len(m.kinds):
            acc.violate('%s/EQUIVARIANT-arity' % m.name, 'number of outputs differs between the two numberings',
                        {'function': m.name, 'variant': m.label, 'family': fam, 'A': A.tolist(), 'p': p.tolist(), 'params': _jparams(params)})
            continue
        for kind, oname, b, o in zip(m.kinds, m.outs, base, outp):
            try:
                ok = compare(kind, b, o, p)
            except Exception:               # malformed output (ragged, wrong rank): not comparable = not equivariant
                ok = False
            if ok:
                continue
            key = '%s/EQUIVARIANT-%s' % (m.name, kind)
            if len(m.kinds) > 1:
                key += '/' + oname
            if m.ties is not None:
                if tied is None:
                    tied = bool(m.ties(A, _raw(params)))
                if tied:
                    key += '/tied-shortest-paths'
            acc.violate(key, '%s: output %s (%s) of the renumbered network is not the renumbered output' % (m.label, oname, kind),
                        {'function': m.name, 'variant': m.label, 'family': fam, 'A': A.tolist(), 'p': p.tolist(),
                         'params': _jparams(params), 'params_renumbered': _jparams(pp), 'output': oname, 'kind': kind,
                         'f(A)': _lst(b), 'f(Ap)': _lst(o), 'relation': 'Ap = A[np.ix_(p,p)]'})
    return done


def adjacent_transpositions(n):
    out = []
    for i in range(n - 1):
        p = list(range(n))
        p[i], p[i + 1] = p[i + 1], p[i]
        out.append(tuple(p))
    return out


_FAMCODE = {f: i for i, f in enumerate(sorted(FAM_DOC))}


@contextlib.contextmanager
def quiet():
    old = sys.stdout
    sys.stdout = io.StringIO()
    try:
        with np.errstate(all='ignore'):
            yield
    finally:
        sys.stdout = old


REG = build_registry()


def _one_graph(acc, name, fam, A, mids, perms, gkey):
    """every measure of `mids` on one input matrix; a case = (input, renumbering[, renumbered parameters]); it is non-trivial
    when the renumbering changes the input (matrix or accompanying parameters), i.e. when f really sees a different array"""
    n = len(A)
    changed = [not np.array_equal(A[np.ix_(p, p)], A) for p in perms]
    for mid in mids:
        m = REG[mid]
        if m.pred is not None and not m.pred(A):
            continue
        t0 = time.process_time()
        tot = 0
        for pi, params in enumerate(m.params(n, fam)):
            done = check_case(acc, m, fam, A, params, perms)
            if not done:
                continue
            tot += len(done)
            acc.evaluations += len(done)
            ren = _renumbered(params)
            for p, ch in zip(perms, changed):
                if ch:
                    acc.nontrivial.add(gkey + (tuple(p), 0))
                elif ren and any(not np.array_equal(np.asarray(a), np.asarray(b)) for a, b in
                                 zip(_raw(params), _raw(_permp(params, np.asarray(p), np.argsort(p))))):
                    acc.nontrivial.add(gkey + (tuple(p), 1 + pi))
            if len(acc.samples) < 2 and any(changed):
                acc.samples.append({'measure': m.label, 'graph': name, 'family': fam, 'A': A.tolist(),
                                    'p': list(perms[changed.index(True)]), 'params': _jparams(params), 'kinds': list(m.kinds)})
        acc.times[m.label] = acc.times.get(m.label, 0.0) + time.process_time() - t0
        acc.counts[m.label] = acc.counts.get(m.label, 0) + tot


def worker(task):
    """task = (fam, n, graph indices, measure ids, extra random permutations per graph, seed)"""
    fam, n, idxs, mids, nrand, seed = task
    acc = Acc()
    acc.times, acc.counts = {}, {}
    adj = adjacent_transpositions(n)
    rs = np.random.RandomState(seed)
    with quiet():
        for idx in idxs:
            A = make_graph(fam, n, idx)
            perms = list(adj) + [tuple(rs.permutation(n).tolist()) for _ in range(nrand)]
            _one_graph(acc, '%s/n=%d/#%d' % (fam, n, idx), fam, A, mids, perms, (_FAMCODE[fam], n, idx))
    return acc


def worker_graphs(task):
    """task = (list of (name, fam, A), measure ids, number of random permutations, seed, with adjacent transpositions)"""
    graphs, mids, nperm, seed, with_adj = task
    acc = Acc()
    acc.times, acc.counts = {}, {}
    rs = np.random.RandomState(seed)
    with quiet():
        for name, fam, A in graphs:
            n = len(A)
            perms = (list(adjacent_transpositions(n)) if with_adj else []) + [tuple(rs.permutation(n).tolist()) for _ in range(nperm)]
            _one_graph(acc, name, fam, A, mids, perms, (name, A.tobytes()))
    return acc


# ---------------------------------------------------------------------------------------------------------------------
# scopes
def scopes(tier):
    """two lists of (fam, n, mode, (lowest, highest) measure cost class): mode 'all' or a sample size.  First list: complete scopes
    of sets closed under relabelling; second list: sampled scopes and position-weighted sets."""
    A_ = (0, 2)
    if tier == 'thorough':
        closed = [('ub', n, 'all', A_) for n in (2, 3, 4, 5)] + [('ub', 6, 'all', (0, 0))] + [('db', n, 'all', A_) for n in (2, 3, 4)]
        for f in ('uwc', 'usc', 'uw01c'):
            closed += [(f, n, 'all', A_) for n in (2, 3, 4)]
        closed += [('dwc', 2, 'all', A_), ('dwc', 3, 'all', A_)]
        other = [('ub', 6, 8192, (1, 2)), ('uwp', 5, 'all', A_), ('usp', 5, 'all', A_), ('uw01p', 5, 'all', A_),
                 ('uwp', 6, 3072, A_), ('usp', 6, 3072, A_), ('uw01p', 6, 3072, A_), ('dwp', 4, 'all', A_),
                 ('uwc', 5, 6144, A_), ('usc', 5, 6144, A_), ('uw01c', 5, 6144, A_), ('dwc', 4, 6144, A_)]
    else:
        closed = [('ub', n, 'all', A_) for n in (2, 3, 4, 5)] + [('db', 2, 'all', A_), ('db', 3, 'all', A_)]
        for f in ('uwc', 'usc', 'uw01c'):
            closed += [(f, n, 'all', A_) for n in (2, 3, 4)]
        closed += [('dwc', 2, 'all', A_), ('dwc', 3, 'all', A_)]
        other = [('db', 4, 1024, A_), ('dwp', 4, 384, A_), ('uwp', 5, 'all', A_), ('usp', 5, 'all', A_), ('uw01p', 5, 512, A_)]
    return closed, other


def _mids_for(fam, cost=(0, 2), enabled=None):
    return [i for i, m in enumerate(REG) if (enabled is None or i in enabled) and fam in m.fams() and cost[0] <= m.cost <= cost[1]]


def _tasks(scope_list, rs, seed, enabled, closed_part):
    tasks, desc = [], []
    for fam, n, mode, cost in scope_list:
        total = fam_size(fam, n)
        if mode == 'all' or total <= mode:
            idxs = list(range(total))
        else:
            idxs = sorted(set(int(x) for x in rs.randint(0, total, size=int(mode))))
        mids = _mids_for(fam, cost, enabled)
        if not mids:
            continue
        nrand = 0 if closed_part else 1
        w = sum(len(REG[i].params(n, fam)) * (1 + REG[i].cost) for i in mids) * (n - 1 + nrand)
        per = max(1, int(2500 / max(1, w)))
        nch = max(1, math.ceil(len(idxs) / per))
        for ch in chunks(idxs, nch):
            tasks.append((len(ch) * w, (fam, n, ch, mids, nrand, seed + 17 * n + len(tasks))))
        desc.append({'family': fam, 'n': n, 'graphs': len(idxs), 'of': total, 'complete': len(idxs) == total,
                     'measures': len(mids), 'measure_cost_classes': '%d..%d' % cost,
                     'permutations': 'the %d adjacent transpositions' % (n - 1) + ('' if closed_part else ' + 1 seeded random permutation')})
    tasks.sort(key=lambda t: -t[0])
    return [t[1] for t in tasks], desc


def _merge(run, part, accs, times, counts):
    for a in accs:
        a.merge_into(run, part)
        for k, v in getattr(a, 'times', {}).items():
            times[k] = times.get(k, 0.0) + v
        for k, v in getattr(a, 'counts', {}).items():
            counts[k] = counts.get(k, 0) + v


def chunks(lst, k):
    k = max(1, k)
    return [lst[i::k] for i in range(k) if lst[i::k]]


def _probe_candidates():
    """candidates believed to raise on every input of the unchanged tree: run them on a few small in-domain graphs; a candidate
    that raises the same non-BCT exception on all of them is left out of this run (and the fact is recorded)"""
    enabled, notes = set(), []
    probes = {'u': [G.und_from_bits(3, 0b011), G.und_from_bits(4, 0b111111), G.und_from_bits(5, 0b1000100101)],
              'd': [G.dir_from_bits(3, 0b101101), G.dir_from_bits(4, 0b101101101101), np.ones((3, 3)) - np.eye(3)]}
    for i, m in enumerate(REG):
        if not m.probe:
            enabled.add(i)
            continue
        errs, ok = [], 0
        with quiet():
            for A in probes[m.dom[0][0]]:
                if m.pred is not None and not m.pred(A):
                    continue
                try:
                    m.call(A.copy(), *_raw(m.params(len(A), 'ub' if m.dom[0][0] == 'u' else 'db')[0]))
                    ok += 1
                except Exception as e:
                    errs.append('%s: %s' % (type(e).__name__, str(e)[:80]))
        if ok == 0 and errs:
            notes.append('excluded %s: raises on every probed in-domain input of this tree (%s), on both numberings alike; '
                         'no output to compare' % (m.label, errs[0]))
        else:
            enabled.add(i)
    return enabled, notes


STATIC_EXCLUSIONS = [
    'excluded core_periphery_dir: randomised (draws the start partition and breaks ties with the rng)',
    'excluded assortativity_wei flags 1-4: raises ValueError (unpacks two values from strengths_dir, which returns one) for a reason '
    'unrelated to C04; flag 0 is checked',
    'excluded motif3/motif4 struct/funct (bin and wei): need bct/algorithms/motif34lib.mat, which is absent; creating it '
    '(make_motif34lib) writes into the package directory, which a check must not do',
    'excluded findpaths (TypeError in its progress print on every call with qmax >= 2) and link_communities (TypeError from np.hstack '
    'of a generator on current numpy): no output to compare',
    'excluded gateway_coef_sign: depends on the numeric labels of ci and on node order by construction (listed known finding of C14); '
    'not part of the measure list of C04',
    'excluded participation_coef_sparse (scipy.sparse input only), modularity_und/_dir, clique_communities, agreement*, consensus_und, '
    'community/rewiring/generative routines: not graph measures in the sense of the property (optimiser outputs or seeded)',
    'excluded edge_nei_overlap_bu/_bd on graphs with an edge whose end points have no other neighbour: the unchanged function divides '
    'by zero there (ZeroDivisionError on both numberings)',
    'excluded erange on graphs without edges (ZeroDivisionError on both numberings: fs = 2 / K)',
]
RESTRICTIONS = [
    'get_components: component labels compared as a partition (up to renaming), component sizes as a multiset',
    'edge_nei_overlap_bu/_bd: ec (per-edge vector in np.where order) compared as a multiset, degij as a multiset of columns; EC as a pair matrix',
    'kcore_bu/_bd: called with peel=True; peelorder/peellevel (lists of index arrays) are folded into one per-node vector "level at '
    'which the node was peeled" and compared as a node vector',
    'distance_wei_floyd: Pmat (first hop, node indices) is compared, with the indices mapped through p and off the diagonal, only on '
    'inputs whose shortest paths are all unique (decided by an independent Floyd-Warshall); on other inputs it is documented to be '
    'the first path found; SPL and hops are always compared',
    'distance_wei (B), distance_wei_floyd (hops), search_information, path_transitivity: a failure on an input with non-unique '
    'shortest paths carries the key suffix /tied-shortest-paths (the value then depends on which shortest path the routine keeps)',
    'eigenvector_centrality_und: connected graphs only (top eigenvalue simple); mean_first_passage_time / diffusion_efficiency: '
    'connected (undirected) resp. strongly connected (directed) inputs only; resource_efficiency_bin: connected',
    'charpath: called on an independently computed distance matrix of the graph (Floyd-Warshall, not bct), with the three flag '
    'combinations (False,True), (True,True), (False,False)',
    'jdegree: checked on integer-dtype matrices (float input raises TypeError: float indices)',
    'breadth: distance vector only (branch holds predecessor indices chosen by visiting order); the source index is renumbered along',
    'navigation_wu: undirected inputs with a tie-free nodal distance matrix that is renumbered along (greedy choice then unique); paths dict not compared',
    'community vectors ci, falff of pagerank_centrality and the nodal distance matrix are renumbered together with the graph; '
    'ci runs over all label vectors over {1,2,3} (n <= 4, binary sets) resp. {1,2} (other closed sets, n = 5 binary), seeded '
    'vectors elsewhere',
    'weighted sets "by position" are not closed under relabelling: there only the listed permutations are covered, not all n!',
]


def run_bounded(run, tier, seed):
    thorough = tier == 'thorough'
    rs = np.random.RandomState(seed)
    enabled, probe_notes = _probe_candidates()
    only = [x for x in os.environ.get('VERIF_C04_ONLY', '').split(',') if x]      # development aid: restrict to some bct functions
    if only:
        enabled = set(i for i in enabled if REG[i].name in only)
        run.notes.append('RESTRICTED RUN (VERIF_C04_ONLY=%s): not the full registry' % ','.join(only))
    times, counts = {}, {}
    closed, other = scopes(tier)

    # ---- part 1: input sets closed under relabelling, complete, adjacent transpositions => all n! permutations -----------
    t1, d1 = _tasks(closed, rs, seed, enabled, True)
    run.bounded_part(PART_EXH, bounds={'scopes': d1, 'families': {f: FAM_DOC[f] for f in sorted(set(d['family'] for d in d1))},
                                       'argument': 'every scope is complete and closed under relabelling, so the adjacent '
                                                   'transpositions on every member imply the relation for all n! permutations',
                                       'parameters': 'community vectors: all label vectors over {1,2,3} for n <= 3 ({1,2} on dwc) and for ub n = 4, over {1,2} '
                                                     'for the weighted sets at n = 4 and ub n = 5 (closed under renumbering); 6 seeded vectors for db n = 4 and '
                                                     'ub n = 6 (not exhaustive in ci there); k = 0..n (kcore_bu), 0..2n-1 (kcore_bd); s in {.5,1.5,2.5,3.5,5}; '
                                                     'gtom nr_steps 0..4; every source node for breadth; klevel None and 2; d = .85 and d = .5 with falff = 1..n'},
                     rule='one case = (input matrix [+ parameters renumbered along], permutation), evaluated for every applicable measure '
                          '(evaluations count measure x case); non-trivial = the renumbering changes the input arrays; distinct by '
                          '(family, n, graph index, permutation[, parameter index])', exhaustive=True)
    _merge(run, PART_EXH, pmap(worker, t1), times, counts)

    # ---- part 2: sampled scopes and position-weighted sets ----------------------------------------------------------------
    t2, d2 = _tasks(other, rs, seed, enabled, False)
    run.bounded_part(PART_RND + '-small', bounds={'scopes': d2, 'families': {f: FAM_DOC[f] for f in sorted(set(d['family'] for d in d2))}},
                     rule='as above; sampled graph indices are seeded (VERIF_SEED); these scopes are not closed, only the listed permutations are covered',
                     exhaustive=False)
    _merge(run, PART_RND + '-small', pmap(worker, t2), times, counts)

    # ---- part 3: seeded random graphs n = 6..10 with random permutations ---------------------------------------------------
    per_fam = 48 if thorough else 10
    nperm = 3 if thorough else 2
    gl = []
    for fam, und, weights, signed in (('ub', True, None, False), ('db', False, None, False), ('uwp', True, [1., 2., 3.], False),
                                      ('dwp', False, [1., 2., 3.], False), ('usp', True, [1., 2., 3.], True), ('uw01p', True, [.25, .5, 1.], False)):
        for k in range(per_fam):
            n = int(rs.randint(6, 11))
            p = float(rs.uniform(.25, .75))
            A = (G.random_und if und else G.random_dir)(rs, n, p=p, weights=weights, signed=signed)
            if k % 3 == 0 and und:       # force a connected one now and then (spanning path)
                for i in range(n - 1):
                    if A[i, i + 1] == 0:
                        A[i, i + 1] = A[i + 1, i] = (weights[0] if weights else 1.0)
            gl.append(('random-%s-%d' % (fam, k), fam, A))
    t3 = []
    for j, g in enumerate(gl):
        mids = _mids_for(g[1], (0, 2), enabled)
        t3.append(([g], mids, nperm, seed * 7919 + j, False))
    run.bounded_part(PART_RND, bounds={'n': '6..10', 'graphs_per_family': per_fam, 'families': ['ub', 'db', 'uwp', 'dwp', 'usp', 'uw01p'],
                                       'weights': 'drawn from the family palette (ties between path lengths are frequent)',
                                       'permutations_per_graph': nperm, 'edge_probability': 'uniform in [.25,.75]'},
                     rule='one case = (seeded random matrix, seeded random permutation); non-trivial = the permutation changes the matrix; '
                          'distinct by (graph name, matrix bytes, permutation)', exhaustive=False)
    _merge(run, PART_RND, pmap(worker_graphs, t3), times, counts)

    # ---- part 4: highly symmetric graphs (repeated eigenvalues) ------------------------------------------------------------
    named = dict(G.named_graphs())
    def dsum(a, b):
        Z = np.zeros((len(a) + len(b),) * 2)
        Z[:len(a), :len(a)] = a
        Z[len(a):, len(a):] = b
        return Z
    named['2xC4'] = dsum(named['C4'], named['C4'])
    named['C4+K33'] = dsum(named['C4'], named['K33'])
    named['C5+K1'] = dsum(named['C5'], np.zeros((1, 1)))
    named['P5'] = G.und_from_bits(5, sum(1 << k for k, (i, j) in enumerate(G.und_pairs(5)) if j == i + 1))
    mids_ub = _mids_for('ub', (0, 2), enabled)
    t4 = [([(nm, 'ub', A)], mids_ub, 6 if thorough else 3, seed + 31 * k, True) for k, (nm, A) in enumerate(sorted(named.items()))]
    run.bounded_part(PART_SYM, bounds={'graphs': sorted(named), 'permutations': 'all adjacent transpositions + %d seeded random permutations' % (6 if thorough else 3),
                                       'measures': 'all measures with undirected binary domain (among them the spectral ones: subgraph_centrality, '
                                                   'eigenvector_centrality_und, pagerank_centrality, mean_first_passage_time, diffusion_efficiency)'},
                     rule='one case = (named graph, permutation); non-trivial = the permutation changes the matrix (automorphisms test the symmetry of the output instead)',
                     exhaustive=False)
    _merge(run, PART_SYM, pmap(worker_graphs, t4), times, counts)

    labels = sorted(set(REG[i].label for i in enabled))
    run.functions_under_contract.extend(sorted(set(REG[i].name for i in enabled)))
    run.extra['c04_registry'] = [{'measure': REG[i].label, 'function': REG[i].name, 'outputs': dict(zip(REG[i].outs, REG[i].kinds)),
                                  'domain': ['%s/%s' % d for d in REG[i].dom],
                                  'domain_predicate': REG[i].pred.__name__ if REG[i].pred else None,
                                  'comparisons': counts.get(REG[i].label, 0), 'cpu_seconds': round(times.get(REG[i].label, 0.0), 2)}
                                 for i in sorted(enabled)]
    run.notes.append('C04 bounded registry: %d measure variants of %d bct functions' % (len(labels), len(set(REG[i].name for i in enabled))))
    for nt in probe_notes + STATIC_EXCLUSIONS:
        run.notes.append(nt)
    for nt in RESTRICTIONS:
        run.notes.append('restriction: ' + nt)
    run.notes.append('comparison: exact when both sides are integer valued, else np.allclose(rtol=%g, atol=%g); inf == inf and nan == nan count as equal' % (RTOL, ATOL))
