"""Per-property configuration of the checks (which contracts, which bounded module, claimed level)."""
REF = 'contracts.reference'
C11_CLAUSES = r'LATT|MASK|#reject'
PYVC_TRUSTED = ['engine/pyvc (VC generator; mitigated by canaries, scratch mutants, CPython cross-check of npspec)',
                'engine/pyvc/npspec.py (assumed contracts of numpy primitives)', 'spec-function axioms of engine/pyvc/core.py:spec_axioms (sum/count under a single update, under a permutation: Lean VerifLemmas)',
                'z3 4.x/5.x answers unsat correctly']
REWIRERS = ['randmio_und', 'randmio_dir', 'randmio_und_connected', 'randmio_dir_connected', 'latmio_und', 'latmio_dir', 'latmio_und_connected',
            'latmio_dir_connected', 'randomize_graph_partial_und']

UTL = 'contracts.utils'

REGISTRY = {
    'C01': dict(extra_proved=['checks.lean_check.lean'], level='proof', bounded='checks.bounded.C01',
                pyvc=[(REF, k, None, C11_CLAUSES) for k in REWIRERS], trusted=PYVC_TRUSTED,
                assumptions=['randomizer_bin_und is outside the VC generator\'s subset (whole-array set operations): bounded only',
                             'connectivity blocks of the *_connected variants and the default-D construction of the latticisers are abstracted (havoc of their write set; frame obligation syntactic)'],
                technique='deductive: loop invariants + postconditions on the real source via own VC generator (pyvc) and z3; bounded stand-in for randomizer_bin_und'),
    'C06': dict(extra_proved=['checks.lean_check.lean'], level='proof', bounded='checks.bounded.C06', pyvc=[(REF, 'randmio_dir_signed', None, None), (REF, 'randmio_und_signed', None, None), ('contracts.misc', 'pick_four_unique_nodes_quickly', None, None)], trusted=PYVC_TRUSTED,
                technique='deductive (pyvc+z3) for randmio_*_signed; bounded stand-in for null_model_*_sign'),
    'C11': dict(extra_proved=['checks.lean_check.lean'], level='other', bounded='checks.bounded.C11',
                pyvc=[(REF, k, C11_CLAUSES, None) for k in ['latmio_und', 'latmio_dir', 'latmio_und_connected', 'latmio_dir_connected', 'randomize_graph_partial_und']] +
                     [(REF, 'randmio_und_connected#reject', None, None), (REF, 'latmio_und_connected#reject', None, None)], trusted=PYVC_TRUSTED,
                technique='deductive (pyvc+z3) for lattice cost, mask and input rejection; connectivity preservation bounded only'),
    'C17': dict(level='proof', bounded='checks.bounded.C17',
                pyvc=[(UTL, k, None, None) for k in ['threshold_absolute', 'binarize', 'invert', 'normalize', 'teachers_round', 'threshold_proportional']], trusted=PYVC_TRUSTED,
                assumptions=['threshold_proportional: all clauses proved for non-negative weights (count via the Lean-proved lemma that k pairwise distinct cells holding 1 sum to k; the symmetric branch via tsum(S) = 2 tsum(A) for S = A + A^T); callee contract of teachers_round proved separately; np.argsort contract (a permutation sorting ascending) and np.allclose (true for exactly symmetric input) assumed', 'the weight_conversion dispatch is bounded only'],
                technique='deductive (pyvc+z3+counting lemma) for threshold_absolute, threshold_proportional, binarize, invert, normalize, teachers_round incl. copy-flag identity; bounded stand-in for the weight_conversion dispatch'),    'C13': dict(level='proof', bounded='checks.bounded.C13', extra_proved=['checks.static_proved.c13'],
                trusted=['engine/pyframe/frame.py (may-alias analysis) and its fresh/view/mutating tables for numpy calls', 'numpy/scipy functions not listed as mutating do not write to their arguments',
                         'no mutation through eval/exec/C extensions; decorators transparent'],
                technique='static frame analysis (flow-sensitive may-alias, modular callee summaries): one frame obligation per mutation site in every public function; dynamic snapshot cross-check (bounded)'),
    'C05': dict(level='proof', bounded='checks.bounded.C05', extra_proved=['checks.static_proved.c05'],
                trusted=['engine/pyframe/effects.py (syntactic effect obligations E1-E4)', 'numpy/scipy routines called by bct do not draw random numbers themselves',
                         'get_rng behaves as documented (decided by the bounded tier: None/np.random -> global, RandomState passed through, otherwise fresh RandomState(seed))'],
                technique='static effect obligations (no global-random use, all draws through get_rng(seed)\'s generator, nested calls receive the generator, no other nondeterminism source) over every seed-accepting function; dynamic cross-check (bounded)'),    'C15': dict(extra_proved=['checks.lean_check.lean', 'checks.lean_extract.lean_extracted'], level='proof', bounded='checks.bounded.C15', pyvc=[('contracts.core_c15', k, None, None) for k in ['kcore_bu', 'kcore_bd', 'score_wu', 'kcoreness_centrality_bu', 'kcoreness_centrality_bd']],
                trusted=PYVC_TRUSTED + ['counting lemmas lemma_masked_degree / lemma_degree_monotone (code-independent; engine/lean)', 'engine/lean/extract.py (numpy->Lean extraction of the callees degrees_und / degrees_dir / strengths_und / binarize, whose SMT callee contracts are discharged as Lean theorems over the extracted source)'],
                assumptions=['peel=True outputs are covered by the bounded stand-in only',
                             'kcoreness_centrality_bu/_bd are proved modularly against the results KC(CIJ,k), KN(CIJ,k) of kcore_bu/kcore_bd (their own contracts are proved separately; the link "KC is the k-core" is the kcore contract, the callee is abstract in the caller); coreness is the largest k < N whose core contains the node (degree >= N cases: see known finding)'],
                technique='deductive (pyvc+z3): ghost alive-set invariant, maximality against an arbitrary (Skolem) node set meeting the bound; bounded subset-enumeration oracle for coreness and peel outputs'),    'C02': dict(extra_proved=['checks.lean_check.lean', 'checks.lean_extract.lean_extracted'], level='proof', bounded='checks.bounded.C02', pyvc=[('contracts.modularity', k, None, r'C07-') for k in ['modularity_finetune_und', 'modularity_finetune_dir', 'modularity_finetune_und_sign', 'modularity_louvain_und', 'modularity_louvain_und#level', 'modularity_louvain_und_sign', 'modularity_louvain_und_sign#level']],
                trusted=PYVC_TRUSTED + ['modularity lemmas of engine/pyvc/core.py (gain lemma Qraw_move+nm_modularity, q_from_aggregate, relabelling invariance, node-to-module sum identities): code-independent, Lean'],
                assumptions=['products/quotients of two symbolic reals are kept uninterpreted (umul/udiv) in the shape the code computes them; only sign facts of udiv are used',
                             'modularity_louvain_und is proved for hierarchy=False; hierarchy=True output, modularity_louvain_dir (known finding), probtune, spectral modularity_und/_dir, community_louvain are covered by the bounded stand-in only; the signed routines (finetune_und_sign, louvain_und_sign) are proved for all five qtypes incl. the scaling factors of the requested type', 'lists of arrays of symbolic length are modelled by tracking only the provably addressed slots (engine/pyvc/core.py:SList); a fragment contract used modularly is assumed only through its ensures, its requires are obligations at the use site'],
                technique='deductive (pyvc+z3+lemmas) for modularity_finetune_und/_dir/_und_sign and modularity_louvain_und/_und_sign (whole functions, level fragments used modularly): labels exactly 1..k and returned q = (signed) modularity of the returned labels; bounded stand-in for the other detectors'),
    'C07': dict(extra_proved=['checks.lean_check.lean'], level='proof', bounded='checks.bounded.C07', pyvc=[('contracts.modularity', k, None, r'C02-') for k in ['modularity_finetune_und', 'modularity_finetune_dir', 'modularity_louvain_und', 'modularity_louvain_und_sign']] +
                     [('contracts.modularity', k, None, None) for k in ['modularity_louvain_und#level', 'community_louvain#level', 'modularity_louvain_dir#level', 'modularity_finetune_und_sign', 'modularity_louvain_und_sign#level']],
                trusted=PYVC_TRUSTED + ['modularity lemmas of engine/pyvc/core.py (gain lemma, relabelling invariance, node-to-module sum identities): code-independent, Lean'],
                assumptions=['products/quotients of two symbolic reals are kept uninterpreted (umul/udiv)',
                             'modularity_louvain_und and modularity_louvain_und_sign are proved end to end (the level fragment is used modularly, its entry conditions are obligations of the whole-function contract); for community_louvain (and modularity_louvain_dir = known finding) only ONE hierarchy level is proved as a fragment for an arbitrary working matrix, ASSUMING at level entry that the bookkeeping is consistent; the composition of its levels is bounded only'],
                technique='deductive (pyvc+z3+gain lemma): bookkeeping invariant KInv and Q never below the start for modularity_finetune_und/_dir, all networks, all start partitions, all visiting orders; bounded per-move gain monitor for the other optimisers'),    'C12': dict(level='other', bounded='checks.bounded.C12', pyvc=[('contracts.distance', 'retrieve_shortest_path', None, None)], trusted=PYVC_TRUSTED,
                assumptions=['retrieve_shortest_path is proved against the abstract predicate FloydConsistent; that distance_wei_floyd establishes it, and all of navigation_wu, are covered by the bounded stand-in only'],
                technique='deductive (pyvc+z3) for retrieve_shortest_path relative to the FloydConsistent contract of its producer; the producer contract and navigation_wu are bounded (woven postcondition on exhaustive small scopes with ties)'),    'C04': dict(level='exploration', bounded='checks.bounded.C04', extra_proved=['checks.lean_extract.lean_extracted'],
                trusted=['engine/lean/extract.py (numpy -> Lean extraction of straight-line algebraic code; drops float rounding, dtype, copies)', 'Lean kernel + Mathlib', 'oracles of checks/bounded/C04.py'],
                technique='Lean proofs of renumbering equivariance for the extracted definitions of 16 algebraic measures (all n, all permutations); exhaustive small-scope equivariance check of 71 measures (bounded) for everything else'),
    'C09': dict(level='proof', bounded='checks.bounded.C09', extra_proved=['checks.lean_extract.lean_extracted'],
                trusted=['engine/lean/extract.py (numpy -> Lean extraction; drops float rounding, dtype, copies; cuberoot as abstract cbrt with cbrt x ^ 3 = x)', 'Lean kernel + Mathlib'],
                assumptions=['clustering_coef_bu, clustering_coef_wu_sign (loops) and the [0,1] range clause are covered by the bounded stand-in only'],
                technique='numpy->Lean extraction of the real source + Lean proofs: clustering_coef_bd/wd/wu and transitivity_bu/bd/wu/wd equal their triple-enumeration definitions for all n; bounded triple-enumeration oracle for the loop-based routines'),
    'C10': dict(level='exploration', bounded='checks.bounded.C10', extra_proved=['checks.lean_extract.lean_extracted'],
                trusted=['engine/lean/extract.py', 'Lean kernel + Mathlib', 'pairwise comparison in checks/bounded/C10.py'],
                technique='Lean proofs of the weighted->binary and directed->undirected reductions for the extracted clustering / transitivity / degree / strength definitions; pairs of loop-based routines compared on exhaustive small scopes (bounded)'),
    'C14': dict(level='exploration', bounded='checks.bounded.C14', extra_proved=['checks.lean_extract.lean_extracted'],
                trusted=['engine/lean/extract.py', 'Lean kernel + Mathlib', 'oracles of checks/bounded/C14.py'],
                technique='Lean proofs of label invariance for the extracted given-partition modularity_und/_dir/_und_sign values; relabelling checks over all partitions n<=5 (bounded) for the other consumers'),
}
REGISTRY['C16'] = dict(level='exploration', bounded='checks.bounded.C16', pyvc=[('contracts.clustering', 'get_components#reject', None, None)],
                       trusted=['oracles of checks/bounded/C16.py (own union-find)'] + PYVC_TRUSTED,
                       technique='bounded stand-in: get_components on ALL labelled undirected graphs n<=5/6 against an independent union-find; only the rejection of asymmetric input is discharged deductively (pyvc prefix contract)')
REGISTRY['C03'] = dict(level='exploration', bounded='checks.bounded.C03', pyvc=[('contracts.distance', 'distance_bin', None, None)], extra_proved=['checks.lean_check.lean'],
                       trusted=['oracles of checks/bounded/paths_oracle.py'] + PYVC_TRUSTED + ['walk lemmas of engine/pyvc/core.py:lemma_walks (decomposition of walks, shortest-walk length, pigeonhole bound)',
                                                                                         'np.dot of entrywise non-negative matrices: support semantics (assumed numpy contract, precondition discharged)', 'callee contract of binarize (proved under C17)'],
                       assumptions=['np.inf is modelled as a real constant INF with INF > n', 'shortest walk = shortest path (a shortest walk repeats no node)'],
                       technique='deductive (pyvc+z3+walk lemmas) for distance_bin: the algebraic-powers loop returns the shortest-walk length for every ordered pair, INF exactly when there is no walk, 0 on the diagonal; all other routines of the property bounded (min-plus / BFS oracle on exhaustive small scopes)')
REGISTRY['C18'] = dict(level='exploration', bounded='checks.bounded.C18', extra_proved=['checks.lean_extract.lean_extracted'],
                       trusted=['engine/lean/extract.py', 'Lean kernel + Mathlib', 'oracles of checks/bounded/C18.py'],
                       assumptions=['scipy.linalg.solve / expm / eig, np.argmax and the callee mean_first_passage_time are uninterpreted in the Lean theorems; their contracts appear as explicit hypotheses, stated only for the one call the code makes',
                                    'PageRank positivity and existence/uniqueness of the solution, graphs with a zero column sum, the defining equation of mean_first_passage_time itself, unit norm of the eigenvector and findwalks are bounded only'],
                       technique='numpy->Lean extraction + Lean proofs: the linear system handed to solve is I - d A D^-1 / (1-d) f, the result sums to one and (given the solve contract) satisfies the PageRank fixed point; diffusion_efficiency = elementwise inverse of mfpt off the diagonal and its mean; subgraph_centrality = diag(expm(CIJ)); eigenvector_centrality_und = |argmax-eigenvalue column|; residual checks on exhaustive small scopes (bounded) for the rest')
REGISTRY['C19'] = dict(level='exploration', bounded='checks.bounded.C19', extra_proved=['checks.lean_extract.lean_extracted'],
                       trusted=['engine/lean/extract.py', 'Lean kernel + Mathlib', 'oracles of checks/bounded/C19.py'],
                       assumptions=['np.sqrt is an abstract real function in the Lean theorems (no property of it is used); np.ptp(v) == 0 is modelled as "all entries equal"',
                                    'thresholding, component search, the permutation loop filling the null distribution and extent/intensity sizes of nbs_bct are covered by the bounded stand-in only'],
                       technique='numpy->Lean extraction + Lean proofs for the t-statistic helpers of nbs_bct (defining formulas, invariance under swapping groups together with the tail, under tail=both, under reordering subjects / pairs) and the p-value statement (fraction of null values >= component size); brute-force oracle on small subject sets (bounded) for components and null distribution')
REGISTRY['C20'] = dict(level='other', bounded='checks.bounded.C20', extra_proved=['checks.lean_check.lean'],
                       pyvc=[('contracts.generators', k, None, None) for k in ['makerandCIJ_dir', 'makerandCIJ_und', 'maketoeplitzCIJ', 'makeringlatticeCIJ']],
                       trusted=PYVC_TRUSTED + ['oracles of checks/bounded/C20.py', 'counting lemmas lemma_flat_count / lemma_image_count / lemma_tsum_add / lemma_tsum_plus_transpose / lemma_tsum_int / lemma_full_offdiag (code-independent; engine/lean)',
                                               'assumed library contracts: scipy.linalg.toeplitz(c, r)[x][y] = c[x-y] (x >= y) else r[y-x]; scipy.stats.norm.pdf > 0; RandomState.random_sample in [0,1); RandomState.permutation is a permutation'],
                       assumptions=['flat (row-major) positions are modelled by two uninterpreted functions frow/fcol constrained only for positions returned by np.where(X.flat); validity of a flat store is provable only for such positions',
                                    'makeevenCIJ, makefractalCIJ and makerandCIJdegreesfixed are covered by the bounded stand-in only', 'preconditions: 0 <= k <= n*n - n (directed / lattice), 2k <= n*n - n (undirected)'],
                       technique='deductive (pyvc+z3+counting lemmas) for makerandCIJ_dir/_und, maketoeplitzCIJ and makeringlatticeCIJ: exactly K connections, 0/1 entries, empty diagonal, symmetry (und), band structure of the ring lattice; bounded exhaustive parameter grids for the other generators')
for _pid in ['C08', 'C16', 'C18', 'C19', 'C20']:
    REGISTRY.setdefault(_pid, dict(level='exploration', bounded='checks.bounded.%s' % _pid, trusted=['oracles of checks/bounded/%s.py' % _pid],
                                   technique='bounded stand-in: the property\'s contract executed on the real functions over exhaustive small scopes'))
