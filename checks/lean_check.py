"""Re-checks the Lean lemma library on every run (DESIGN 2.3): `lean engine/lean/VerifLemmas.lean` must succeed, the file
must contain no sorry / axiom / admit / native_decide.  One obligation per theorem (backend 'lean')."""
import os, re, subprocess, time
from engine.common import VERIF, Obligation

LEAN_FILE = os.path.join(VERIF, 'engine', 'lean', 'VerifLemmas.lean')


def lean(run, pid, tier, lock, collect):
    t0 = time.time()
    src = open(LEAN_FILE).read()
    code = re.sub(r'/-.*?-/', '', src, flags=re.S)
    code = re.sub(r'--.*', '', code)
    banned = [w for w in ('sorry', 'admit', 'native_decide') if re.search(r'\b%s\b' % w, code)] + (['axiom'] if re.search(r'^\s*axiom\b', code, re.M) else [])
    thms = re.findall(r'^\s*(?:private\s+)?(?:theorem|lemma)\s+([A-Za-z0-9_\.\']+)', code, re.M)
    try:
        p = subprocess.run(['lean', LEAN_FILE], capture_output=True, text=True, timeout=900, cwd=os.path.dirname(LEAN_FILE))
        ok = p.returncode == 0 and 'error' not in p.stdout and not banned
        detail = (p.stdout + p.stderr)[-600:] if not ok else ''
    except Exception as e:
        ok, detail = False, repr(e)
    secs = time.time() - t0
    if banned:
        detail = 'banned constructs: %s; %s' % (banned, detail)
    if not thms:
        run.error('lean: no theorem found in %s' % LEAN_FILE)
    for t in thms:
        run.add_obligations([Obligation('lean/%s' % t, 'engine/lean/VerifLemmas.lean', 'discharged' if ok else 'open', 'lean', secs / max(1, len(thms)), detail, 'lemma')])
    run.extra['lean'] = {'file': 'engine/lean/VerifLemmas.lean', 'theorems': len(thms), 'seconds': round(secs, 2), 'banned': banned}
    if not ok:
        run.error('lean: the lemma library does not check: %s' % detail[:300])
