"""Re-checks the Lean lemma library on every run (DESIGN 2.3): `lean engine/lean/VerifLemmas.lean` must succeed, the file
must contain no sorry / axiom / admit / native_decide.  One obligation per theorem (backend 'lean')."""
import os, re, subprocess, time
from engine.common import VERIF, Obligation

LEAN_FILE = os.path.join(VERIF, 'engine', 'lean', 'VerifLemmas.lean')


def lean(run, pid, tier, lock, collect):
    t0 = time.time()
    src = open(LEAN_FILE).read()
    code = re.sub(r'/-.*?-/', '', src, flags=re.S)
    code = re.sub(r'--.*', '', code)
    banned = [w for w in ('sorry', 'admit', 'native_decide') if re.search(r'\b%s\b' % w, code)] + (['axiom'] if re.search(r'^\s*axiom\b', code, re.M) else [])
    thms = re.findall(r'^\s*(?:private\s+)?(?:theorem|lemma)\s+([A-Za-z0-9_\.\']+)', code, re.M)
    try:
        p = subprocess.run(['lean', LEAN_FILE], capture_output=True, text=True, timeout=900, cwd=os.path.dirname(LEAN_FILE))
        ok = p.returncode == 0 and 'error' not in p.stdout and not banned
        detail = (p.stdout + p.stderr)[-600:] if not ok else ''
    except Exception as e:
        ok, detail = False, repr(e)
    secs = time.time() - t0
    if banned:
        detail = 'banned constructs: %s; %s' % (banned, detail)
    if not thms:
        run.error('lean: no theorem found in %s' % LEAN_FILE)
    for t in thms:
        run.add_obligations([Obligation('lean/%s' % t, 'engine/lean/VerifLemmas.lean', 'discharged' if ok else 'open', 'lean', secs / max(1, len(thms)), detail, 'lemma')])
    # every lemma-instance builtin of the VC generator names its Lean counterpart(s) in its docstring ("Lean: a, b + c"): those names must
    # exist in the library (keeps the SMT side and the Lean side from drifting apart silently)
    core_src = open(os.path.join(VERIF, 'engine', 'pyvc', 'core.py')).read()
    tset = set(thms)
    mapped = 0
    for m_ in re.finditer(r'def (_sb_lemma_\w+)\(eng, st, node\):\s+"""(.*?)"""', core_src, re.S):
        fn, doc = m_.group(1), m_.group(2)
        lm = re.search(r'\((?:Lean|LEMMA \(Lean|DEFINITION \(Lean)?[^)]*?Lean:\s*([^)]*)\)', doc) or re.search(r'Lean:\s*([^)\n]*)', doc)
        names = [t for t in re.findall(r"[A-Za-z_][A-Za-z0-9_']*", lm.group(1) if lm else '') if '_' in t]
        missing = [t for t in names if t not in tset]
        ok_map = bool(names) and not missing or ('congruence' in doc and not names)
        mapped += 1
        if not ok_map:
            run.error('lemma builtin %s names no existing Lean theorem (%s)' % (fn[4:], missing or 'none named'))
        run.add_obligations([Obligation('lemma-map/%s' % fn[4:], 'engine/pyvc/core.py', 'discharged' if ok_map else 'open', 'syntactic', 0.0,
                                        '' if ok_map else 'docstring names no existing Lean theorem: %s' % (missing or 'none named'), 'lemma')])
    run.extra['lean'] = {'file': 'engine/lean/VerifLemmas.lean', 'theorems': len(thms), 'seconds': round(secs, 2), 'banned': banned, 'lemma_builtins_mapped': mapped}
    if not ok:
        run.error('lean: the lemma library does not check: %s' % detail[:300])
