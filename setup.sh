#!/bin/bash
# Builds /verif/.venv (overlay interpreter: /venv's numpy/scipy + z3-solver, cvc5, jsonschema from the offline wheelhouse).
# Idempotent; offline; nothing under /tmp is needed afterwards.
set -e
cd "$(dirname "$0")"
V=.venv
if [ ! -x "$V/bin/python" ] || ! "$V/bin/python" -c "import z3, jsonschema, numpy, scipy" 2>/dev/null; then
  rm -rf "$V"
  /venv/bin/python -m venv "$V"
  PIP_NO_INDEX=1 "$V/bin/pip" install -q --no-index --find-links /opt/veriftools/wheels z3-solver cvc5 jsonschema >/dev/null
  SP=$("$V/bin/python" -c "import site; print(site.getsitepackages()[0])")
  echo "import site; site.addsitedir('/venv/lib/python3.12/site-packages')" > "$SP/_overlay.pth"
fi
"$V/bin/python" -c "import z3, jsonschema, numpy, scipy; print('venv ok', z3.get_version_string(), numpy.__version__)"
