"""pyframe effects — static RNG-effect obligations for C05 (DESIGN 2.2 / 5-C05).

E1  no attribute chain rooted at np.random / numpy.random / the stdlib `random` module is used anywhere in bct/ outside get_rng
    (every use site is one obligation); `np.random.RandomState` may only be *named* (isinstance / construction) inside get_rng.
E2  in a function with a `seed` parameter every random draw is a method call on the local name bound to get_rng(seed).
E3  every call from such a function to another seed-accepting bct function passes that local generator (positionally or as
    seed=); the raw `seed` may be forwarded only by a function that draws nothing itself and forwards it to exactly one call
    outside any loop.
E4  no other nondeterminism source is used in bct/: time, os.urandom, uuid, secrets, id(), hash() of non-numeric values.
E5  get_rng itself (by cases, syntactic shape): None / np.random -> the global RandomState object np.random.mtrand._rand;
    a RandomState instance -> returned unchanged; anything else -> a freshly constructed RandomState (seeded from the argument
    only: the fallback uses a *local* random.Random(seed), not the module-level generator).
Each check is decidable by traversal; each site is one named obligation.
"""
import ast

DRAW_METHODS = {'randint', 'random_sample', 'random', 'rand', 'randn', 'permutation', 'shuffle', 'choice', 'normal', 'uniform', 'ranf', 'sample',
                'random_integers', 'standard_normal', 'binomial', 'poisson', 'beta', 'gamma', 'exponential', 'bytes', 'seed', 'get_state', 'set_state',
                'multinomial', 'dirichlet', 'laplace', 'logistic', 'lognormal', 'triangular', 'weibull', 'geometric'}
NONDET_CALLS = {'time.time', 'time.time_ns', 'time.perf_counter', 'time.clock', 'time.monotonic', 'os.urandom', 'os.getpid', 'uuid.uuid4', 'uuid.uuid1',
                'secrets.token_bytes', 'secrets.randbelow', 'id', 'datetime.now', 'datetime.datetime.now'}


def rooted_at_global_random(node):
    """True for np.random.X / numpy.random.X / random.X attribute chains (returns the chain text)."""
    if not isinstance(node, ast.Attribute):
        return None
    txt = ast.unparse(node)
    for root in ('np.random.', 'numpy.random.', 'random.'):
        if txt.startswith(root):
            return txt
    return None


def analyse(an):
    """an: frame.Analyzer (already loaded).  returns list of dict(name, ok, detail, function)."""
    obls = []
    seeded = {n: fi for n, fi in an.funcs.items() if 'seed' in fi.params}
    # scope of E1/E4: the seed-accepting functions and everything they (transitively) call inside the package; a function
    # that takes no seed and is not reachable from one that does (reorder_matrix, align_matrices ...) is outside the property
    reach, todo = set(seeded), list(seeded)
    while todo:
        f = todo.pop()
        for n in ast.walk(an.funcs[f].node):
            if isinstance(n, ast.Call) and isinstance(n.func, ast.Name) and n.func.id in an.funcs and n.func.id not in reach:
                reach.add(n.func.id)
                todo.append(n.func.id)
    # ---- E1 / E4 over every module --------------------------------------------------------------------------------------
    for mod, tree in sorted(an.modules.items()):
        imports_random = any(isinstance(n, ast.Import) and any(a.name == 'random' for a in n.names) for n in ast.walk(tree))
        for top in tree.body:
            owner = top.name if isinstance(top, (ast.FunctionDef, ast.ClassDef)) else '<module>'
            if owner not in reach:
                continue
            seen = {}
            for n in ast.walk(top):
                if isinstance(n, ast.Attribute):
                    txt = rooted_at_global_random(n)
                    if txt is None:
                        continue
                    if txt.startswith('random.') and not imports_random:
                        continue
                    # only the outermost chain
                    if owner == 'get_rng' and mod.endswith('miscellaneous_utilities'):
                        continue
                    k = 'E1-global-random-use/%s.%s/%s' % (mod, owner, txt)
                    if k not in seen:
                        seen[k] = 1
                        obls.append({'name': k, 'ok': False, 'detail': 'use of %s at line %d' % (txt, n.lineno), 'function': owner})
                if isinstance(n, ast.Call):
                    fn = ast.unparse(n.func)
                    if fn in NONDET_CALLS or (fn == 'hash' and n.args and not isinstance(n.args[0], ast.Constant)):
                        obls.append({'name': 'E4-nondeterminism-source/%s.%s/%s' % (mod, owner, fn), 'ok': False, 'detail': 'call of %s at line %d' % (fn, n.lineno),
                                     'function': owner})
            # the per-function scan obligation is the one the lock knows (the per-site obligations above exist only when something is found):
            # it is discharged exactly when no site of this function was flagged
            bad = [o for o in obls if not o['ok'] and o['function'] == owner and o['name'].split('/')[1] == '%s.%s' % (mod, owner)
                   and o['name'].startswith(('E1-', 'E4-'))]
            obls.append({'name': 'E1E4-scan/%s.%s' % (mod, owner), 'ok': not bad,
                         'detail': 'no global-random use, no other nondeterminism source' if not bad else '; '.join(o['detail'] for o in bad[:6]), 'function': owner})
    # ---- E2 / E3 for every seed-accepting function -------------------------------------------------------------------------
    for name, fi in sorted(seeded.items()):
        if name == 'get_rng':
            continue
        node = fi.node
        rng_names = set()
        for n in ast.walk(node):
            if isinstance(n, ast.Assign) and isinstance(n.value, ast.Call) and ast.unparse(n.value.func) == 'get_rng':
                args = [ast.unparse(a) for a in n.value.args] + [ast.unparse(k.value) for k in n.value.keywords]
                ok = args == ['seed']
                for t in n.targets:
                    if isinstance(t, ast.Name):
                        rng_names.add(t.id)
                obls.append({'name': 'E2-generator-from-get_rng(seed)/%s' % name, 'ok': ok, 'detail': ast.unparse(n), 'function': name})
        draws, loops_depth = [], {}

        def walk(n, depth):
            for c in ast.iter_child_nodes(n):
                d = depth + (1 if isinstance(c, (ast.For, ast.While, ast.ListComp, ast.GeneratorExp, ast.FunctionDef)) else 0)
                if isinstance(c, ast.Call):
                    loops_depth[id(c)] = d
                walk(c, d)
        walk(node, 0)
        forwards_raw, consumer_calls = [], []
        for n in ast.walk(node):
            if not isinstance(n, ast.Call):
                continue
            f = n.func
            if isinstance(f, ast.Attribute) and f.attr in DRAW_METHODS:
                recv = ast.unparse(f.value)
                if recv in rng_names:
                    draws.append(n)
                    continue
                # method with a draw-like name on something else: only a violation if the receiver is a generator-like name
                if recv in ('np.random', 'numpy.random', 'random') or recv.endswith('rng') or recv.endswith('random_state') or recv == 'seed':
                    obls.append({'name': 'E2-draw-not-through-local-generator/%s/%s' % (name, ast.unparse(f)), 'ok': False,
                                 'detail': 'line %d: %s' % (n.lineno, ast.unparse(n)[:80]), 'function': name})
            callee = f.id if isinstance(f, ast.Name) else None
            if callee in seeded and callee != 'get_rng':
                cfi = seeded[callee]
                passed = None
                for k in n.keywords:
                    if k.arg == 'seed':
                        passed = ast.unparse(k.value)
                if passed is None and 'seed' in cfi.pos and cfi.pos.index('seed') < len(n.args):
                    passed = ast.unparse(n.args[cfi.pos.index('seed')])
                consumer_calls.append((n, callee, passed))
        for n, callee, passed in consumer_calls:
            key = 'E3-nested-call-gets-the-generator/%s/%s' % (name, callee)
            if passed in rng_names:
                obls.append({'name': key, 'ok': True, 'detail': 'seed=%s' % passed, 'function': name})
            elif passed == 'seed':
                ok = (not draws) and len(consumer_calls) == 1 and loops_depth.get(id(n), 0) == 0
                obls.append({'name': key, 'ok': ok, 'detail': 'raw seed forwarded (allowed only for a pure forwarder: no own draws, one consumer, outside loops); draws=%d consumers=%d loopdepth=%d'
                             % (len(draws), len(consumer_calls), loops_depth.get(id(n), 0)), 'function': name})
            else:
                obls.append({'name': key, 'ok': False, 'detail': 'line %d: %s passes seed=%r' % (n.lineno, callee, passed), 'function': name})
        if draws and not rng_names:
            obls.append({'name': 'E2-generator-from-get_rng(seed)/%s' % name, 'ok': False, 'detail': 'draws without a local generator', 'function': name})
        if not rng_names and not consumer_calls:
            # seed accepted but neither used nor forwarded: the result cannot depend on it (fine), record it
            obls.append({'name': 'E2-seed-unused/%s' % name, 'ok': True, 'detail': 'seed parameter is neither used nor forwarded', 'function': name})
        obls.append({'name': 'E2-all-draws-through-local-generator/%s' % name, 'ok': True, 'detail': '%d draw sites on %s' % (len(draws), sorted(rng_names)), 'function': name})
    # ---- E5 get_rng shape --------------------------------------------------------------------------------------------------------
    g = an.funcs.get('get_rng')
    if g is None:
        obls.append({'name': 'E5-get_rng/present', 'ok': False, 'detail': 'get_rng not found', 'function': 'get_rng'})
    else:
        body = [s for s in g.node.body if not (isinstance(s, ast.Expr) and isinstance(s.value, ast.Constant))]
        txt = [ast.unparse(s) for s in body]
        first = body[0] if body else None
        ok1 = isinstance(first, ast.If) and ast.unparse(first.test) == 'seed is None or seed == np.random' and [ast.unparse(x) for x in first.body] == ['return np.random.mtrand._rand']
        obls.append({'name': 'E5-get_rng/none-or-np.random-gives-the-global-RandomState', 'ok': bool(ok1), 'detail': txt[0][:120] if txt else '', 'function': 'get_rng'})
        el = first.orelse[0] if (ok1 and first.orelse and isinstance(first.orelse[0], ast.If)) else None
        ok2 = el is not None and ast.unparse(el.test) == 'isinstance(seed, np.random.RandomState)' and [ast.unparse(x) for x in el.body] == ['return seed'] and not el.orelse
        obls.append({'name': 'E5-get_rng/RandomState-instance-passed-through', 'ok': bool(ok2), 'detail': ast.unparse(el)[:120] if el is not None else '', 'function': 'get_rng'})
        rest = body[1:]
        ok3 = len(rest) == 2 and isinstance(rest[0], ast.Try) and [ast.unparse(x) for x in rest[0].body] == ['rstate = np.random.RandomState(seed)'] \
            and len(rest[0].handlers) == 1 and [ast.unparse(x) for x in rest[0].handlers[0].body] == ['rstate = np.random.RandomState(random.Random(seed).randint(0, 2 ** 32 - 1))'] \
            and ast.unparse(rest[1]) == 'return rstate'
        obls.append({'name': 'E5-get_rng/otherwise-a-fresh-RandomState-seeded-from-the-argument-only', 'ok': bool(ok3), 'detail': ' | '.join(txt[1:])[:200], 'function': 'get_rng'})
    return obls, sorted(seeded)
