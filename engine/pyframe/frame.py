"""pyframe — static frame (mutation) analysis for C13 (DESIGN 2.2).

For every public function of the bct package a flow-sensitive may-alias analysis decides, for each mutation site, whether the
mutated object may be (a view of) an array the caller passed in.  One frame obligation per mutation site; the obligation is
discharged iff the may-alias set of the target contains no parameter.  Modular: calls to other bct functions use summaries
(which parameters a callee may mutate, which parameters its result may alias), computed to a fixpoint over the package.

Soundness rests on (trusted, listed in the evidence): the fresh/view classification of numpy calls below; functions of
numpy/scipy not listed as mutating do not write to their arguments; decorators are transparent; no mutation through
containers (lists/dicts of arrays are tracked as the union of their elements), eval/exec, or C extensions.
"""
import ast, os, sys

# numpy / scipy entry points that may return a VIEW of (or the very same object as) an argument
VIEW_FUNCS = {'asarray', 'asanyarray', 'ascontiguousarray', 'asfortranarray', 'atleast_1d', 'atleast_2d', 'atleast_3d', 'squeeze', 'ravel', 'reshape',
              'transpose', 'swapaxes', 'moveaxis', 'rollaxis', 'expand_dims', 'diagonal', 'diag', 'real', 'imag', 'broadcast_to', 'broadcast_arrays',
              'split', 'array_split', 'hsplit', 'vsplit', 'dsplit', 'nan_to_num', 'require', 'asmatrix', 'mat', 'flip', 'fliplr', 'flipud', 'rot90',
              'triu_indices_from', 'view', 'array'}     # np.array(x, copy=False) may alias: handled below
VIEW_METHODS = {'reshape', 'ravel', 'squeeze', 'transpose', 'swapaxes', 'view', 'diagonal', 'flatten_view', 'newbyteorder', 'getfield', '__array__'}
VIEW_ATTRS = {'T', 'flat', 'real', 'imag', 'base', 'A', 'A1', 'mT'}
FRESH_METHODS = {'copy', 'astype', 'flatten', 'tolist', 'sum', 'mean', 'std', 'var', 'min', 'max', 'argmin', 'argmax', 'argsort', 'cumsum', 'cumprod', 'round',
                 'nonzero', 'any', 'all', 'dot', 'conj', 'conjugate', 'clip', 'repeat', 'take', 'compress', 'choose', 'trace', 'prod', 'ptp', 'tostring', 'tobytes',
                 'toarray', 'todense', 'item', 'searchsorted'}
# calls that write into an argument: name -> index of the written argument
MUTATING_FUNCS = {'fill_diagonal': 0, 'put': 0, 'place': 0, 'copyto': 0, 'putmask': 0, 'put_along_axis': 0, 'shuffle': 0}
MUTATING_METHODS = {'sort', 'fill', 'resize', 'itemset', 'setfield', 'put', 'partition', 'byteswap_inplace', 'setflags_write', '__setitem__', '__iadd__'}
SCALAR_CASTS = {'int', 'float', 'range', 'round', 'bool', 'str', 'abs', 'isinstance', 'print', 'type', 'complex'}


class FuncInfo:
    def __init__(self, module, name, node, parent=None):
        self.module, self.name, self.node, self.parent = module, name, node, parent
        self.params = [a.arg for a in node.args.args] + ([node.args.vararg.arg] if node.args.vararg else []) + [a.arg for a in node.args.kwonlyargs] + \
                      ([node.args.kwarg.arg] if node.args.kwarg else [])
        self.pos = [a.arg for a in node.args.args]
        self.defaults = {}
        d = node.args.defaults
        for a, dv in zip(node.args.args[len(node.args.args) - len(d):], d):
            self.defaults[a.arg] = dv
        self.has_copy = 'copy' in self.params
        # summaries (per copy-variant: None / True / False)
        self.mutates = {None: set(), True: set(), False: set()}
        self.ret_alias = {None: set(), True: set(), False: set()}
        self.sites = {None: [], True: [], False: []}


def const_bool(node):
    if isinstance(node, ast.Constant) and isinstance(node.value, bool):
        return node.value
    return None


class Analyzer:
    def __init__(self, pkg_root):
        self.funcs = {}        # simple name -> FuncInfo (top level)
        self.modules = {}
        self.load(pkg_root)

    def load(self, root):
        for dp, dn, fn in os.walk(root):
            for f in sorted(fn):
                if not f.endswith('.py'):
                    continue
                path = os.path.join(dp, f)
                mod = os.path.relpath(path, os.path.dirname(root))[:-3].replace(os.sep, '.')
                tree = ast.parse(open(path).read())
                self.modules[mod] = tree
                for n in tree.body:
                    if isinstance(n, ast.FunctionDef):
                        fi = FuncInfo(mod, n.name, n)
                        self.funcs.setdefault(n.name, fi)

    # ---- analysis of one function under one copy-variant ------------------------------------------------------------
    def analyze(self, fi, variant, outer_env=None, outer_fi=None):
        """returns (mutated params, returned alias params, sites) ; sites: list of dict(text, ord, targets, ok)."""
        env = dict(outer_env or {})
        for p in fi.params:
            env[p] = frozenset([p])
        if fi.has_copy and variant is not None:
            env['copy'] = frozenset()
        ctx = {'fi': fi, 'variant': variant, 'sites': [], 'mut': set(), 'ret': set(), 'nested': {}, 'ord': {}, 'array_evidence': self.array_evidence(fi.node)}
        self.block(fi.node.body, env, ctx)
        return ctx['mut'], ctx['ret'], ctx['sites']

    def array_evidence(self, node):
        """parameter names used in a way that shows they are arrays (subscripted, attribute access, passed to calls other
        than scalar casts)."""
        ev = set()

        class V(ast.NodeVisitor):
            def visit_Subscript(s, n):
                if isinstance(n.value, ast.Name):
                    ev.add(n.value.id)
                s.generic_visit(n)

            def visit_Attribute(s, n):
                if isinstance(n.value, ast.Name):
                    ev.add(n.value.id)
                s.generic_visit(n)

            def visit_Call(s, n):
                fn = n.func.id if isinstance(n.func, ast.Name) else None
                if fn not in SCALAR_CASTS:
                    for a in list(n.args) + [k.value for k in n.keywords]:
                        if isinstance(a, ast.Name):
                            ev.add(a.id)
                s.generic_visit(n)
        V().visit(node)
        return ev

    # may-alias set of an expression
    def alias(self, e, env, ctx):
        if e is None:
            return frozenset()
        if isinstance(e, ast.Name):
            return env.get(e.id, frozenset())
        if isinstance(e, ast.Attribute):
            if e.attr in VIEW_ATTRS:
                return self.alias(e.value, env, ctx)
            return frozenset()
        if isinstance(e, ast.Subscript):
            base = self.alias(e.value, env, ctx)
            if not base:
                return base
            return base if self.maybe_basic_index(e.slice, env) else frozenset()
        if isinstance(e, (ast.Tuple, ast.List, ast.Set)):
            out = frozenset()
            for x in e.elts:
                out |= self.alias(x, env, ctx)
            return out
        if isinstance(e, ast.IfExp):
            return self.alias(e.body, env, ctx) | self.alias(e.orelse, env, ctx)
        if isinstance(e, ast.BoolOp):
            out = frozenset()
            for x in e.values:
                out |= self.alias(x, env, ctx)
            return out
        if isinstance(e, ast.Starred):
            return self.alias(e.value, env, ctx)
        if isinstance(e, ast.NamedExpr):
            return self.alias(e.value, env, ctx)
        if isinstance(e, ast.Call):
            return self.call_alias(e, env, ctx)
        return frozenset()      # BinOp, UnaryOp, Compare, Constant, comprehension, lambda ...: fresh value

    def maybe_basic_index(self, sl, env):
        """False only when the index is certainly advanced (fancy/boolean) => the result is a copy."""
        def adv(n):
            if isinstance(n, (ast.List, ast.ListComp)):
                return True
            if isinstance(n, ast.Compare):
                return True                      # boolean mask expression
            if isinstance(n, ast.Call):
                fn = ast.unparse(n.func)
                if fn in ('np.ix_', 'np.where', 'np.nonzero', 'np.tril_indices', 'np.triu_indices', 'np.logical_not', 'np.logical_and', 'np.logical_or',
                          'np.isinf', 'np.isnan', 'np.argsort'):
                    return True
            if isinstance(n, ast.Tuple):
                return any(adv(x) for x in n.elts)
            return False
        return not adv(sl)

    def fname(self, call):
        f = call.func
        if isinstance(f, ast.Name):
            return None, f.id
        if isinstance(f, ast.Attribute):
            return f.value, f.attr
        return None, None

    def kw(self, call, name, pos=None, fi=None):
        for k in call.keywords:
            if k.arg == name:
                return k.value
        if fi is not None and name in fi.pos:
            ix = fi.pos.index(name)
            if ix < len(call.args):
                return call.args[ix]
        return None

    def callee_variant(self, call, callee, env):
        if not callee.has_copy:
            return None
        v = self.kw(call, 'copy', fi=callee)
        if v is None:
            v = callee.defaults.get('copy')
        b = const_bool(v) if v is not None else None
        if b is None and isinstance(v, ast.Name) and v.id == 'copy':
            return None     # forwards its own flag: handled by analysing the caller per variant (env has no constant) -> conservative
        return b

    def call_alias(self, call, env, ctx):
        recv, name = self.fname(call)
        args_alias = [self.alias(a, env, ctx) for a in call.args] + [self.alias(k.value, env, ctx) for k in call.keywords]
        allargs = frozenset().union(*args_alias) if args_alias else frozenset()
        # nested function defined in this function
        if recv is None and name in ctx['nested']:
            mut, ret = self.apply_nested(ctx['nested'][name], call, env, ctx)
            return ret
        # bct function
        if recv is None and name in self.funcs:
            callee = self.funcs[name]
            var = self.callee_variant(call, callee, env)
            if var is None and callee.has_copy:
                # unknown flag value: take the variant of the caller if it forwards `copy`
                v = self.kw(call, 'copy', fi=callee)
                if isinstance(v, ast.Name) and v.id == 'copy' and ctx['variant'] is not None:
                    var = ctx['variant']
            out = frozenset()
            for p in callee.ret_alias[var if var in callee.ret_alias else None] | (callee.ret_alias[False] if (callee.has_copy and var is None) else set()):
                a = self.bound_arg(call, callee, p)
                if a is not None:
                    out |= self.alias(a, env, ctx)
            return out
        if recv is not None:
            rtxt = ast.unparse(recv)
            if rtxt in ('np', 'numpy'):
                if name == 'array':
                    cp = self.kw(call, 'copy')
                    if cp is not None and const_bool(cp) is False:
                        return allargs
                    return frozenset()
                if name in VIEW_FUNCS:
                    return allargs
                return frozenset()
            # method on an object
            if name in VIEW_METHODS:
                return self.alias(recv, env, ctx)
            if name in FRESH_METHODS:
                return frozenset()
            return frozenset()
        return frozenset()

    def bound_arg(self, call, callee, pname):
        for k in call.keywords:
            if k.arg == pname:
                return k.value
        if pname in callee.pos:
            ix = callee.pos.index(pname)
            if ix < len(call.args):
                return call.args[ix]
        return None

    def apply_nested(self, nfi, call, env, ctx):
        nenv = dict(env)
        for ix, p in enumerate(nfi.pos):
            a = call.args[ix] if ix < len(call.args) else None
            nenv[p] = self.alias(a, env, ctx) if a is not None else frozenset()
        for k in call.keywords:
            if k.arg in nfi.params:
                nenv[k.arg] = self.alias(k.value, env, ctx)
        key = ('nested', nfi.name)
        if ctx.get('active', set()) & {key}:
            return set(), frozenset()
        ctx.setdefault('active', set()).add(key)
        nctx = dict(ctx)
        nctx['ret'] = set()
        nctx['nested'] = dict(ctx['nested'])
        self.block(nfi.node.body, nenv, nctx, prefix=nfi.name + '>')
        ctx['active'].discard(key)
        ctx['mut'] |= nctx['mut']
        return nctx['mut'], frozenset(nctx['ret'])

    # ---- statements ------------------------------------------------------------------------------------------------------
    def site(self, ctx, node, text, targets, prefix=''):
        fi = ctx['fi']
        bad = sorted(t for t in targets if t in fi.params)
        o = ctx['ord'].get(text, 0)
        ctx['ord'][text] = o + 1
        ctx['sites'].append({'text': prefix + text, 'ord': o, 'may_alias_params': bad, 'line': getattr(node, 'lineno', 0)})
        ctx['mut'] |= set(bad)

    def mutate_target(self, t, env, ctx, node, prefix):
        """t is the expression whose storage is written (Subscript base / Name of an augmented assignment)."""
        al = self.alias(t, env, ctx)
        self.site(ctx, node, ast.unparse(node)[:70], al, prefix)

    def scan_calls(self, e, env, ctx, prefix):
        """mutating calls inside an expression / statement."""
        for n in ast.walk(e):
            if not isinstance(n, ast.Call):
                continue
            recv, name = self.fname(n)
            if recv is not None and ast.unparse(recv) in ('np', 'numpy', 'np.random', 'rng', 'numpy.random') and name in MUTATING_FUNCS and n.args:
                self.site(ctx, n, ast.unparse(n)[:70], self.alias(n.args[MUTATING_FUNCS[name]], env, ctx), prefix)
            elif recv is not None and name in MUTATING_METHODS:
                self.site(ctx, n, ast.unparse(n)[:70], self.alias(recv, env, ctx), prefix)
            elif recv is not None and name in ('append', 'extend', 'insert', 'add', 'update', 'setdefault') and isinstance(recv, ast.Name):
                for a in n.args:
                    al_ = self.alias(a, env, ctx)
                    if al_:
                        env[recv.id] = env.get(recv.id, frozenset()) | al_
            for k in n.keywords:
                if k.arg == 'out' or (k.arg or '').startswith('overwrite_') and const_bool(k.value) is True:
                    tgt = k.value if k.arg == 'out' else (n.args[0] if n.args else None)
                    self.site(ctx, n, ast.unparse(n)[:70], self.alias(tgt, env, ctx), prefix)
            if recv is None and name in ctx['nested']:
                self.apply_nested(ctx['nested'][name], n, env, ctx)
            elif recv is None and name in self.funcs:
                callee = self.funcs[name]
                var = self.callee_variant(n, callee, env)
                if var is None and callee.has_copy:
                    v = self.kw(n, 'copy', fi=callee)
                    if isinstance(v, ast.Name) and v.id == 'copy' and ctx['variant'] is not None:
                        var = ctx['variant']
                muts = set(callee.mutates[var]) if var in (True, False) else (set(callee.mutates[None]) | (set(callee.mutates[False]) if callee.has_copy else set()))
                for p in muts:
                    a = self.bound_arg(n, callee, p)
                    if a is not None:
                        al = self.alias(a, env, ctx)
                        if al:
                            self.site(ctx, n, 'call %s mutates its argument %s: %s' % (name, p, ast.unparse(n)[:50]), al, prefix)

    def assign_to(self, target, al, env, ctx, node, prefix):
        if isinstance(target, ast.Name):
            env[target.id] = al
            v = getattr(node, 'value', None)
            if isinstance(v, (ast.List, ast.Dict, ast.ListComp, ast.DictComp, ast.Tuple)) or (isinstance(v, ast.Call) and ast.unparse(v.func) in ('list', 'dict', 'tuple')):
                ctx.setdefault('lists', set()).add(target.id)     # python container: storing an array into it makes it alias the array
            else:
                ctx.setdefault('lists', set()).discard(target.id)
        elif isinstance(target, (ast.Tuple, ast.List)):
            for t in target.elts:
                self.assign_to(t, al, env, ctx, node, prefix)
        elif isinstance(target, ast.Starred):
            self.assign_to(target.value, al, env, ctx, node, prefix)
        elif isinstance(target, ast.Subscript):
            base = target.value
            self.site(ctx, node, ast.unparse(node)[:70], self.alias(base, env, ctx), prefix)
            # storing an aliasing value into a container makes the container alias it
            b = base
            while isinstance(b, (ast.Subscript, ast.Attribute)):
                b = b.value
            if isinstance(b, ast.Name) and al and b.id in ctx.setdefault('lists', set()):
                env[b.id] = env.get(b.id, frozenset()) | al
        elif isinstance(target, ast.Attribute):
            if target.attr in ('shape', 'dtype', 'flags', 'strides', 'data'):
                self.site(ctx, node, ast.unparse(node)[:70], self.alias(target.value, env, ctx), prefix)

    def block(self, stmts, env, ctx, prefix=''):
        for s in stmts:
            self.stmt(s, env, ctx, prefix)

    def join(self, a, b):
        out = dict(a)
        for k, v in b.items():
            out[k] = out.get(k, frozenset()) | v
        return out

    def stmt(self, s, env, ctx, prefix):
        if isinstance(s, ast.FunctionDef):
            ctx['nested'][s.name] = FuncInfo(ctx['fi'].module, s.name, s, parent=ctx['fi'])
            return
        if isinstance(s, ast.Assign):
            self.scan_calls(s.value, env, ctx, prefix)
            al = self.alias(s.value, env, ctx)
            for t in s.targets:
                if isinstance(t, (ast.Tuple, ast.List)) and isinstance(s.value, (ast.Tuple, ast.List)) and len(t.elts) == len(s.value.elts):
                    for tt, vv in zip(t.elts, s.value.elts):
                        self.assign_to(tt, self.alias(vv, env, ctx), env, ctx, ast.Assign(targets=[tt], value=vv, lineno=s.lineno), prefix)
                else:
                    self.assign_to(t, al, env, ctx, s, prefix)
            return
        if isinstance(s, ast.AugAssign):
            self.scan_calls(s.value, env, ctx, prefix)
            if isinstance(s.target, ast.Name):
                al = env.get(s.target.id, frozenset())
                if s.target.id in ctx['fi'].params and s.target.id not in ctx['array_evidence'] and al == frozenset([s.target.id]):
                    # a parameter never used as an array (e.g. `itr *= k`): rebinding of a scalar, not an in-place array update
                    return
                if al:
                    self.site(ctx, s, ast.unparse(s)[:70], al, prefix)
            elif isinstance(s.target, ast.Subscript):
                self.site(ctx, s, ast.unparse(s)[:70], self.alias(s.target.value, env, ctx), prefix)
            elif isinstance(s.target, ast.Attribute):
                self.site(ctx, s, ast.unparse(s)[:70], self.alias(s.target.value, env, ctx), prefix)
            return
        if isinstance(s, ast.AnnAssign):
            if s.value is not None:
                self.scan_calls(s.value, env, ctx, prefix)
                self.assign_to(s.target, self.alias(s.value, env, ctx), env, ctx, s, prefix)
            return
        if isinstance(s, ast.Expr):
            self.scan_calls(s.value, env, ctx, prefix)
            return
        if isinstance(s, ast.Return):
            if s.value is not None:
                self.scan_calls(s.value, env, ctx, prefix)
                ctx['ret'] |= set(self.alias(s.value, env, ctx))
            return
        if isinstance(s, ast.If):
            self.scan_calls(s.test, env, ctx, prefix)
            cv = None
            if isinstance(s.test, ast.Name) and s.test.id == 'copy' and ctx['variant'] is not None and ctx['fi'].has_copy and prefix == '':
                cv = ctx['variant']
            if isinstance(s.test, ast.UnaryOp) and isinstance(s.test.op, ast.Not) and isinstance(s.test.operand, ast.Name) and s.test.operand.id == 'copy' \
                    and ctx['variant'] is not None and ctx['fi'].has_copy and prefix == '':
                cv = not ctx['variant']
            if cv is True:
                self.block(s.body, env, ctx, prefix)
                return
            if cv is False:
                self.block(s.orelse, env, ctx, prefix)
                return
            e1, e2 = dict(env), dict(env)
            self.block(s.body, e1, ctx, prefix)
            self.block(s.orelse, e2, ctx, prefix)
            env.clear()
            env.update(self.join(e1, e2))
            return
        if isinstance(s, (ast.For, ast.While)):
            if isinstance(s, ast.For):
                self.scan_calls(s.iter, env, ctx, prefix)
            else:
                self.scan_calls(s.test, env, ctx, prefix)
            sites0 = len(ctx['sites'])
            ord0 = dict(ctx['ord'])
            for it in range(3):
                del ctx['sites'][sites0:]
                ctx['ord'] = dict(ord0)
                before = dict(env)
                if isinstance(s, ast.For):
                    self.assign_to(s.target, self.alias(s.iter, env, ctx), env, ctx, s, prefix)
                self.block(s.body, env, ctx, prefix)
                joined = self.join(before, env)
                env.clear()
                env.update(joined)
                if joined == before:
                    break
            self.block(s.orelse, env, ctx, prefix)
            return
        if isinstance(s, ast.Try):
            self.block(s.body, env, ctx, prefix)
            for h in s.handlers:
                self.block(h.body, env, ctx, prefix)
            self.block(s.orelse, env, ctx, prefix)
            self.block(s.finalbody, env, ctx, prefix)
            return
        if isinstance(s, ast.With):
            for it in s.items:
                self.scan_calls(it.context_expr, env, ctx, prefix)
                if it.optional_vars is not None:
                    self.assign_to(it.optional_vars, self.alias(it.context_expr, env, ctx), env, ctx, s, prefix)
            self.block(s.body, env, ctx, prefix)
            return
        if isinstance(s, (ast.Raise, ast.Assert, ast.Delete)):
            for n in ast.iter_child_nodes(s):
                if isinstance(n, ast.expr):
                    self.scan_calls(n, env, ctx, prefix)
            return
        # Pass, Break, Continue, Import, Global ...
        return

    # ---- package-level fixpoint --------------------------------------------------------------------------------------------
    def run(self):
        for rnd in range(6):
            changed = False
            for fi in self.funcs.values():
                for var in ([None, True, False] if fi.has_copy else [None]):
                    mut, ret, sites = self.analyze(fi, var if fi.has_copy else None)
                    if mut != fi.mutates[var] or set(ret) != fi.ret_alias[var]:
                        changed = True
                    fi.mutates[var], fi.ret_alias[var], fi.sites[var] = set(mut), set(ret), sites
            if not changed:
                break
        return self.funcs


def public_functions(an):
    return {n: fi for n, fi in an.funcs.items() if not n.startswith('_')}
