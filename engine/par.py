"""Process-pool helper (fork) for bounded enumeration and solver obligations."""
import multiprocessing as mp, os, traceback

NPROC = int(os.environ.get('VERIF_NPROC', '0') or 0) or min(16, os.cpu_count() or 1)


def _call(args):
    fn, task = args
    try:
        return ('ok', fn(task))
    except BaseException:
        return ('err', traceback.format_exc())


def pmap(fn, tasks, procs=None, chunksize=1):
    """fn must be a module-level function; returns results in task order; raises RuntimeError on worker traceback."""
    tasks = list(tasks)
    if not tasks:
        return []
    procs = procs or NPROC
    if procs <= 1 or len(tasks) == 1:
        res = [_call((fn, t)) for t in tasks]
    else:
        ctx = mp.get_context('fork')
        with ctx.Pool(min(procs, len(tasks))) as pool:
            res = pool.map(_call, [(fn, t) for t in tasks], chunksize=chunksize)
    out = []
    for tag, val in res:
        if tag == 'err':
            raise RuntimeError('worker failed:\n' + val)
        out.append(val)
    return out


class Acc:
    """Accumulator returned by bounded workers and merged into a Run part."""

    def __init__(self):
        self.evaluations = 0
        self.nontrivial = set()
        self.samples = []
        self.violations = []   # (key, what, witness)

    def case(self, key=None, nontrivial=False, sample=None):
        self.evaluations += 1
        if nontrivial and key is not None:
            self.nontrivial.add(key)
        if sample is not None and len(self.samples) < 2:
            self.samples.append(sample)

    def violate(self, key, what, witness):
        if not any(v[0] == key for v in self.violations):
            self.violations.append((key, what, witness))

    def merge_into(self, run, part):
        run.merge_bounded(part, self.evaluations, self.nontrivial, self.samples)
        for key, what, wit in self.violations:
            run.violation(key, what, wit)


def merge_all(run, part, accs):
    for a in accs:
        a.merge_into(run, part)
