"""AST weaving of contract monitors into an in-memory copy of a real bct function (DESIGN 2.4).

The source is re-read from the module file on every call, nothing is removed from the function body, and the woven copy is
exec'd in the real module's namespace.  Insertion points are keyed by `ast.unparse` of the statement / loop header, so
comments and spacing do not matter.
"""
import ast, inspect, sys, contextlib, textwrap, types


def get_funcdef(module, qualname):
    src = open(module.__file__).read()
    tree = ast.parse(src)
    parts = qualname.split('.')
    body = tree.body
    node = None
    for p in parts:
        node = next((n for n in body if isinstance(n, ast.FunctionDef) and n.name == p), None)
        if node is None:
            raise LookupError('function %s not found in %s' % (qualname, module.__file__))
        body = node.body
    return node, src


def loop_key(node):
    if isinstance(node, ast.While):
        return 'while ' + ast.unparse(node.test)
    if isinstance(node, ast.For):
        return 'for %s in %s' % (ast.unparse(node.target), ast.unparse(node.iter))
    return None


class _Weaver(ast.NodeTransformer):
    def __init__(self, inserts, ret_hook, ret_locals=False):
        self.ret_locals = ret_locals
        self.inserts = inserts        # list of dict(where, key, code, nth)
        self.used = set()
        self.ret_hook = ret_hook
        self.counts = {}
        self.depth = 0

    def _code(self, idx):
        return ast.parse(textwrap.dedent(self.inserts[idx]['code'])).body

    def _match(self, where, key):
        out = []
        c = self.counts.get((where, key), 0)
        self.counts[(where, key)] = c + 1
        for idx, ins in enumerate(self.inserts):
            if ins['where'] == where and ins['key'] == key and ins.get('nth', None) in (None, c):
                out.append(idx)
                self.used.add(idx)
        return out

    def visit_FunctionDef(self, node):
        self.depth += 1
        if self.depth > 1:       # nested def: weave inside too, but returns there are not the outer function's
            saved = self.ret_hook
            self.ret_hook = None
            self.generic_visit_body(node)
            self.ret_hook = saved
        else:
            self.generic_visit_body(node)
        self.depth -= 1
        return node

    def generic_visit_body(self, node):
        for field in ('body', 'orelse', 'finalbody'):
            if hasattr(node, field) and isinstance(getattr(node, field), list):
                setattr(node, field, self._block(getattr(node, field)))
        if isinstance(node, ast.Try):
            for h in node.handlers:
                h.body = self._block(h.body)

    def _block(self, stmts):
        out = []
        for st in stmts:
            key = loop_key(st) or ast.unparse(st)
            pre = [c for i in self._match('before', key) for c in self._code(i)]
            post = [c for i in self._match('after', key) for c in self._code(i)]
            if isinstance(st, (ast.While, ast.For)):
                head = [c for i in self._match('loop_head', key) for c in self._code(i)]
                tail = [c for i in self._match('loop_tail', key) for c in self._code(i)]
                self.generic_visit_body(st)
                st.body = head + st.body + tail
            elif isinstance(st, (ast.If, ast.With, ast.Try)):
                self.generic_visit_body(st)
            elif isinstance(st, ast.FunctionDef):
                st = self.visit_FunctionDef(st)
            elif isinstance(st, ast.Return) and self.ret_hook:
                val = st.value if st.value is not None else ast.Constant(None)
                extra = [ast.Call(func=ast.Name('locals', ast.Load()), args=[], keywords=[])] if self.ret_locals else []
                st = ast.Return(value=ast.Call(func=ast.Name(self.ret_hook, ast.Load()), args=[val] + extra, keywords=[]))
            out.extend(pre)
            out.append(st)
            out.extend(post)
        return out


def weave(module, qualname, inserts=(), hooks=None, ret_hook=None, entry=None, ret_locals=False):
    """Returns a woven copy of module.<qualname> (top-level function).

    inserts: dicts {'where': before|after|loop_head|loop_tail, 'key': unparsed stmt or loop header, 'code': python source,
                    'nth': optional ordinal among equal keys}
    hooks:   name -> callable, added to the function's globals
    ret_hook: name of a hook called as hook(return_value) at every return of the outer function (its result is returned)
    entry:   python source executed first in the body
    Raises LookupError if an insert does not bind (the contract no longer matches the code).
    """
    node, src = get_funcdef(module, qualname)
    node.decorator_list = []
    inserts = [dict(i) for i in inserts]
    w = _Weaver(inserts, ret_hook, ret_locals)
    w.depth = 1
    w.generic_visit_body(node)
    missing = [inserts[i] for i in range(len(inserts)) if i not in w.used]
    if missing:
        raise LookupError('weave: insertion points not found in %s: %s' % (qualname, [(m['where'], m['key']) for m in missing]))
    if entry:
        doc = 1 if (node.body and isinstance(node.body[0], ast.Expr) and isinstance(getattr(node.body[0], 'value', None), ast.Constant)
                    and isinstance(node.body[0].value.value, str)) else 0
        node.body[doc:doc] = ast.parse(textwrap.dedent(entry)).body
    mod = ast.Module(body=[node], type_ignores=[])
    ast.fix_missing_locations(mod)
    ns = dict(module.__dict__)
    ns.update(hooks or {})
    code = compile(mod, '<woven %s.%s>' % (module.__name__, qualname), 'exec')
    exec(code, ns)
    f = ns[node.name]
    f.__woven__ = True
    return f


@contextlib.contextmanager
def patched(original, replacement):
    """Temporarily binds `replacement` wherever a bct module holds `original` under any name."""
    sites = []
    for mname, m in list(sys.modules.items()):
        if m is None or not (mname == 'bct' or mname.startswith('bct.')):
            continue
        for k, v in list(vars(m).items()):
            if v is original:
                sites.append((m, k))
                setattr(m, k, replacement)
    try:
        yield
    finally:
        for m, k in sites:
            setattr(m, k, original)


def unwrap(f):
    """bct functions are wrapped by due.dcite (a no-op decorator that may or may not wrap)."""
    while hasattr(f, '__wrapped__'):
        f = f.__wrapped__
    return f
