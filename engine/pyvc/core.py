"""pyvc — verification-condition generator for a subset of Python/numpy (DESIGN 2.1).

Reads the *real* source of a function from /repo on every run (ast.parse), executes it symbolically against sidecar
contracts (requires / ensures / loop invariants / abstract blocks / ghost code) and emits one proof obligation per
contract clause per path.  Obligations are z3 formulas (premises => goal); they are discharged in engine/pyvc/solve.py.

What the translation drops: decorators, docstrings, `print(...)`, `x.setflags(...)`, `from __future__` imports.
Everything else must be translated, otherwise OutOfSubset is raised and the function does not count as under contract.
"""
import re, ast, copy, itertools, fractions
import z3

INT, REAL, BOOL = z3.IntSort(), z3.RealSort(), z3.BoolSort()
A1I, A1R, A1B = z3.ArraySort(INT, INT), z3.ArraySort(INT, REAL), z3.ArraySort(INT, BOOL)
A2R, A2I = z3.ArraySort(INT, A1R), z3.ArraySort(INT, A1I)


class OutOfSubset(Exception):
    pass


class ContractError(Exception):
    """The sidecar contract does not bind to the code (loop / anchor not found)."""


# --------------------------------------------------------------------------------------------------------------------
# values
class Ref:
    __slots__ = ('oid',)

    def __init__(self, oid):
        self.oid = oid

    def __repr__(self):
        return 'Ref(%d)' % self.oid


class Obj:
    """heap array: ndim 1 or 2, z3 term (Array Int T / Array Int (Array Int T)), shape = tuple of Int exprs."""
    __slots__ = ('ndim', 'term', 'shape', 'esort', 'meta')

    def __init__(self, ndim, term, shape, esort, meta=None):
        self.ndim, self.term, self.shape, self.esort, self.meta = ndim, term, tuple(shape), esort, dict(meta or {})

    def clone(self):
        return Obj(self.ndim, self.term, self.shape, self.esort, self.meta)


class Opaque:
    def __init__(self, kind, **kw):
        self.kind = kind
        self.__dict__.update(kw)

    def __repr__(self):
        return 'Opaque(%s)' % self.kind


class TupleV(tuple):
    pass


class UnboundName(OutOfSubset):
    """a name that is not bound in the current state (in program code: Python raises UnboundLocalError / NameError there)"""


class SList:
    """Python list of arrays / scalars whose length may be symbolic (`ci.append(...)` inside a loop).  Only the slots the code
    provably addresses are tracked: slots = [(index term, value)], newest last.  An index is resolved against a slot when
    z3.simplify(index - key) is the numeral 0; a non-zero numeral means "another slot"; anything else is out of the subset
    (so a read never silently picks the wrong element).  The value is immutable (updates build a new SList bound to the same
    name); binding a list to a second name is refused, so there is no aliasing of the list object itself."""

    def __init__(self, length, slots):
        self.length, self.slots = length, list(slots)

    def find(self, idx):
        if isinstance(idx, int) and not isinstance(idx, bool) and idx < 0:
            idx = z3.simplify(to_z3(self.length, INT) + idx)          # x[-1]: counted from the end
        idx = to_z3(idx, INT)
        for pos in range(len(self.slots) - 1, -1, -1):
            key, val = self.slots[pos]
            d = z3.simplify(idx - to_z3(key, INT))
            if z3.is_int_value(d):
                if d.as_long() == 0:
                    return pos
                continue
            raise OutOfSubset('list index %s cannot be resolved against the tracked slot %s' % (idx, key))
        raise OutOfSubset('list index %s is not a tracked slot' % idx)


class AList:
    """Python list of INTEGERS (node sequences) of symbolic length: a z3 array plus a length.  Immutable value (append builds a new
    one bound to the same name); binding it to a second name is refused like for SList."""

    def __init__(self, term, length):
        self.term, self.length = term, length


class Row:
    """lazy 1-D value: length n and element function (z3 Int -> value)."""

    def __init__(self, n, fn, esort=REAL):
        self.n, self.fn, self.esort = n, fn, esort


class Mat:
    """lazy 2-D value."""

    def __init__(self, shape, fn, esort=REAL):
        self.shape, self.fn, self.esort = tuple(shape), fn, esort


class ExcV:
    def __init__(self, name, args=()):
        self.name, self.args = name, args


_fresh = itertools.count()


def fresh(prefix, sort):
    return z3.Const('%s!%d' % (prefix, next(_fresh)), sort)


def is_z3(x):
    return isinstance(x, z3.ExprRef)


def _has_lambda(t, _seen=None):
    _seen = set() if _seen is None else _seen
    if t.get_id() in _seen:
        return False
    _seen.add(t.get_id())
    if z3.is_quantifier(t):
        return t.is_lambda() or _has_lambda(t.body(), _seen)
    return any(_has_lambda(c, _seen) for c in t.children())


def _mentions(t, consts):
    ids = {c.get_id() for c in consts}
    seen, todo = set(), [t]
    while todo:
        u = todo.pop()
        if u.get_id() in seen:
            continue
        seen.add(u.get_id())
        if u.get_id() in ids:
            return True
        todo.extend([u.body()] if z3.is_quantifier(u) else u.children())
    return False


def to_z3(v, want=None):
    """python/z3 scalar -> z3 expr (Int, Real or Bool)."""
    if isinstance(v, bool):
        e = z3.BoolVal(v)
    elif isinstance(v, int):
        e = z3.IntVal(v)
    elif isinstance(v, float):
        if v != v or v in (float('inf'), float('-inf')):
            raise OutOfSubset('non-finite float constant')
        fr = fractions.Fraction(repr(v)) if 'e' not in repr(v) and 'E' not in repr(v) else fractions.Fraction(v).limit_denominator(10 ** 30)
        e = z3.RealVal(str(fr))
    elif isinstance(v, fractions.Fraction):
        e = z3.RealVal(str(v))
    elif is_z3(v):
        e = v
    else:
        raise OutOfSubset('cannot convert %r to a scalar' % (v,))
    if want is not None and e.sort() != want:
        if want == REAL and e.sort() == INT:
            e = z3.ToReal(e)
        elif want == REAL and e.sort() == BOOL:
            e = z3.If(e, z3.RealVal(1), z3.RealVal(0))
        elif want == INT and e.sort() == BOOL:
            e = z3.If(e, z3.IntVal(1), z3.IntVal(0))
        elif want == BOOL:
            e = truth(e)
        elif want == INT and e.sort() == REAL:
            raise OutOfSubset('real used where int is required')
    return e


def truth(v):
    """Python/numpy truthiness of a scalar."""
    if isinstance(v, bool):
        return z3.BoolVal(v)
    if v is None:
        return z3.BoolVal(False)
    if isinstance(v, (int, float)):
        return z3.BoolVal(bool(v))
    if is_z3(v):
        if v.sort() == BOOL:
            return v
        if v.sort() == INT:
            return v != 0
        if v.sort() == REAL:
            return v != 0
    if isinstance(v, (AList, SList)):
        return to_z3(v.length, INT) > 0           # a list is true iff it is non-empty
    if isinstance(v, (Ref, Opaque, str)):
        raise OutOfSubset('truthiness of %r' % (v,))
    raise OutOfSubset('truthiness of %r' % (v,))


def int_valued(e):
    """if the real term e is syntactically an integer-valued expression (to_real of an int term, its negation, an integer
    numeral), returns that Int term, else None."""
    if z3.is_app_of(e, z3.Z3_OP_TO_REAL):
        return e.arg(0)
    if z3.is_app_of(e, z3.Z3_OP_ITE):
        a, b = int_valued(e.arg(1)), int_valued(e.arg(2))
        return z3.If(e.arg(0), a, b) if a is not None and b is not None else None
    if z3.is_app_of(e, z3.Z3_OP_UMINUS):
        t = int_valued(e.arg(0))
        return None if t is None else -t
    if z3.is_rational_value(e) and e.denominator_as_long() == 1:
        return z3.IntVal(e.numerator_as_long())
    if z3.is_app_of(e, z3.Z3_OP_MUL) and e.num_args() == 2:
        a, b = int_valued(e.arg(0)), int_valued(e.arg(1))
        if a is not None and b is not None:
            return a * b
    return None


def num2(a, b):
    """coerce two scalars to a common arithmetic sort."""
    a, b = to_z3(a), to_z3(b)
    if a.sort() == BOOL:
        a = to_z3(a, INT)
    if b.sort() == BOOL:
        b = to_z3(b, INT)
    if a.sort() != b.sort():
        a, b = to_z3(a, REAL), to_z3(b, REAL)
    return a, b


# --------------------------------------------------------------------------------------------------------------------
# spec functions (uninterpreted, axiomatised by store-triggered update axioms; justified in engine/lean/VerifLemmas.lean)
Ffun = z3.Function('F', REAL, REAL)                    # arbitrary weight statistic with F(0) = 0
# 1-D (row) statistics over indices [0, n)
cnt1 = z3.Function('cnt1', A1R, INT, INT)               # #{y < n : r[y] != 0}
pos1 = z3.Function('pos1', A1R, INT, INT)               # #{y < n : r[y] > 0}
neg1 = z3.Function('neg1', A1R, INT, INT)
sum1 = z3.Function('sum1', A1R, INT, REAL)              # sum_{y<n} r[y]
sumF1 = z3.Function('sumF1', A1R, INT, REAL)            # sum_{y<n} F(r[y])
sumFp1 = z3.Function('sumFp1', A1R, INT, REAL)          # sum over positive entries of F
sumFn1 = z3.Function('sumFn1', A1R, INT, REAL)
dot1 = z3.Function('dot1', A1R, A1R, INT, REAL)         # sum_{y<n} d[y]*r[y]
# column statistics and totals of a matrix (rows are the outer array)
ccnt = z3.Function('ccnt', A2R, INT, INT, INT)          # ccnt(M, y, n) = #{x < n : M[x][y] != 0}
cpos = z3.Function('cpos', A2R, INT, INT, INT)
cneg = z3.Function('cneg', A2R, INT, INT, INT)
csum = z3.Function('csum', A2R, INT, INT, REAL)
totF = z3.Function('totF', A2R, INT, REAL)              # sum_{x,y<n} F(M[x][y])
totFp = z3.Function('totFp', A2R, INT, REAL)
totFn = z3.Function('totFn', A2R, INT, REAL)
dot2 = z3.Function('dot2', A2R, A2R, INT, REAL)         # sum_{x,y<n} D[x][y]*R[x][y]
dset = z3.Function('dset', A2R, A1B, INT, INT, INT)     # dset(M, P, v, n) = #{u < n : P[u] and M[u][v] != 0}
rset = z3.Function('rset', A2R, A1B, INT, INT, INT)     # rset(M, P, v, n) = #{u < n : P[u] and M[v][u] != 0}
wset = z3.Function('wset', A2R, A1B, INT, INT, REAL)    # wset(M, P, v, n) = sum_{u < n, P[u]} M[u][v]
cntb = z3.Function('cntb', A1B, INT, INT)              # #{q < n : b[q]}
modsum = z3.Function('modsum', A2R, A1I, INT, INT, INT, REAL)    # modsum(W, ci, x, m, n)  = sum_{y<n, ci[y]=m+1} W[x][y]
modsumT = z3.Function('modsumT', A2R, A1I, INT, INT, INT, REAL)  # modsumT(W, ci, x, m, n) = sum_{y<n, ci[y]=m+1} W[y][x]
degsum = z3.Function('degsum', A2R, A1I, INT, INT, REAL)         # degsum(W, ci, m, n)  = sum_{x<n, ci[x]=m+1} rowsum(W, x)   (module out-degree)
degsumT = z3.Function('degsumT', A2R, A1I, INT, INT, REAL)       # degsumT(W, ci, m, n) = sum_{x<n, ci[x]=m+1} colsum(W, x)   (module in-degree)
frow = z3.Function('frow', INT, INT, INT)        # frow(i, ncols), fcol(i, ncols): cell denoted by the flat (row-major) position i
fcol = z3.Function('fcol', INT, INT, INT)
fvalid = z3.Function('fvalid', INT, INT, INT, BOOL)  # fvalid(i, nrows, ncols): i is a valid flat position (0 <= i < nrows*ncols)
mdot = z3.Function('mdot', A2R, A2R, A2R)               # the matrix product, as a value (uninterpreted: only congruence and the mpw equations are used)
mpw = z3.Function('mpw', A2R, INT, A2R)                  # mpw(G, d) = G^d:  mpw(G, 1) = G,  mpw(G, d+1) = mdot(mpw(G, d), G)
wd = z3.Function('wd', A2R, INT, INT, REAL)               # wd(G, x, y): minimum total length over walks from x to y (meaningful when y is reachable from x)
msq = z3.Function('msq', A2R, A1I, INT, INT, INT, REAL)     # msq(W, c, x, k, n) = sum_{m < k} modsum(W, c, x, m, n)^2
pathsum = z3.Function('pathsum', A2R, A1I, INT, REAL)   # pathsum(M, p, k) = sum_{t < k-1} M[p[t]][p[t+1]]  (k nodes, k-1 steps)
agg = z3.Function('agg', A2R, A1I, INT, INT, INT, REAL)          # agg(W, ci, a, b, n) = sum_{x,y<n, ci[x]=a+1, ci[y]=b+1} W[x][y]
tsum = z3.Function('tsum', A2R, INT, REAL)                       # sum of all entries
trace1 = z3.Function('trace1', A2R, INT, REAL)
sumdot = z3.Function('sumdot', A2R, A2R, INT, REAL)              # sum of all entries of the matrix product X.Y (m x m)
walk = z3.Function('walk', A2R, INT, INT, INT, BOOL)            # walk(G, x, y, m): there is a walk of exactly m >= 1 connections from x to y in G
sdist = z3.Function('sdist', A2R, INT, INT, INT)                 # length of a shortest walk from x to y (>= 1), 0 if there is none
splitz = z3.Function('splitz', A2R, INT, INT, INT, INT)          # Skolem: the node reached after k steps of a shortest walk x -> y
umul = z3.Function('umul', REAL, REAL, REAL)                     # product of two non-constant reals, uninterpreted (contracts with nonlinear='uf')
udiv = z3.Function('udiv', REAL, REAL, REAL)                     # quotient by a non-constant real, uninterpreted
Qrawg = z3.Function('Qrawg', A2R, A1I, REAL, REAL, INT, REAL)      # sum_{x,y same module} (M[x][y] - gamma*kout[x]*kin[y]/sd), explicit divisor sd
QrawB = z3.Function('QrawB', A2R, A1I, INT, REAL)                 # sum_{x,y<n} B[x][y] [c[x] = c[y]] for an arbitrary kernel B
Qmod = z3.Function('Qmod', A2R, A1I, REAL, INT, REAL)            # modularity (1/s) sum_{x,y} (W[x][y] - gamma k_out[x] k_in[y] / s) [ci[x] = ci[y]]
isperm = z3.Function('isperm', A1I, INT, BOOL)          # p restricted to [0,n) is a bijection of [0,n)
ixperm = z3.Function('ixperm', A2R, A1I, A2R)           # M[np.ix_(p, p)]
allclose_sym = z3.Function('allclose_T', A2R, INT, BOOL)   # np.allclose(M, M.T)


def rcnt(M, x, n):
    return cnt1(z3.Select(M, x), n)


def rpos(M, x, n):
    return pos1(z3.Select(M, x), n)


def rneg(M, x, n):
    return neg1(z3.Select(M, x), n)


def rsum(M, x, n):
    return sum1(z3.Select(M, x), n)


def b2i(b):
    return z3.If(b, z3.IntVal(1), z3.IntVal(0))


def store2(M, x, y, v):
    return z3.Store(M, x, z3.Store(z3.Select(M, x), y, v))


def spec_axioms():
    """Universally quantified facts about the spec functions: a finite sum / count after a single-entry update of a row, and
    after replacing one row of a matrix; sums over a permuted index set.  Code-independent mathematics (Lean: VerifLemmas)."""
    M, D = z3.Consts('M_ D_', A2R)
    r, d = z3.Consts('r_ d_', A1R)
    p = z3.Const('p_', A1I)
    x, y, yy, n = z3.Ints('x_ y_ yy_ n_')
    v = z3.Real('v_')
    ax = [Ffun(z3.RealVal(0)) == 0]
    iny = z3.And(0 <= y, y < n)
    inx = z3.And(0 <= x, x < n)
    Sr = z3.Store(r, y, v)
    oldr = z3.Select(r, y)
    for f, w in ((cnt1, lambda t: b2i(t != 0)), (pos1, lambda t: b2i(t > 0)), (neg1, lambda t: b2i(t < 0))):
        ax.append(z3.ForAll([r, y, v, n], z3.Implies(iny, f(Sr, n) == f(r, n) + w(v) - w(oldr)), patterns=[f(Sr, n)]))
    ax.append(z3.ForAll([r, y, v, n], z3.Implies(iny, sum1(Sr, n) == sum1(r, n) + v - oldr), patterns=[sum1(Sr, n)]))
    ax.append(z3.ForAll([r, y, v, n], z3.Implies(iny, sumF1(Sr, n) == sumF1(r, n) + Ffun(v) - Ffun(oldr)), patterns=[sumF1(Sr, n)]))
    ax.append(z3.ForAll([r, y, v, n], z3.Implies(iny, sumFp1(Sr, n) == sumFp1(r, n) + z3.If(v > 0, Ffun(v), 0) - z3.If(oldr > 0, Ffun(oldr), 0)), patterns=[sumFp1(Sr, n)]))
    ax.append(z3.ForAll([r, y, v, n], z3.Implies(iny, sumFn1(Sr, n) == sumFn1(r, n) + z3.If(v < 0, Ffun(v), 0) - z3.If(oldr < 0, Ffun(oldr), 0)), patterns=[sumFn1(Sr, n)]))
    # products of two symbolic reals are kept uninterpreted (umul), in distributed form: d[y]*v - d[y]*r[y]
    ax.append(z3.ForAll([d, r, y, v, n], z3.Implies(iny, dot1(d, Sr, n) == dot1(d, r, n) + umul(z3.Select(d, y), v) - umul(z3.Select(d, y), oldr)), patterns=[dot1(d, Sr, n)]))
    _ra = z3.Real('ra0_')
    ax.append(z3.ForAll([_ra], z3.And(umul(_ra, z3.RealVal(0)) == 0, umul(z3.RealVal(0), _ra) == 0), patterns=[umul(_ra, z3.RealVal(0)), umul(z3.RealVal(0), _ra)]))
    # replacing row x of M by r
    SM = z3.Store(M, x, r)
    oldrow = z3.Select(M, x)
    for f, w in ((ccnt, lambda t: b2i(t != 0)), (cpos, lambda t: b2i(t > 0)), (cneg, lambda t: b2i(t < 0))):
        ax.append(z3.ForAll([M, x, r, yy, n], z3.Implies(inx, f(SM, yy, n) == f(M, yy, n) + w(z3.Select(r, yy)) - w(z3.Select(oldrow, yy))), patterns=[f(SM, yy, n)]))
    ax.append(z3.ForAll([M, x, r, yy, n], z3.Implies(inx, csum(SM, yy, n) == csum(M, yy, n) + z3.Select(r, yy) - z3.Select(oldrow, yy)), patterns=[csum(SM, yy, n)]))
    ax.append(z3.ForAll([M, x, r, n], z3.Implies(inx, totF(SM, n) == totF(M, n) + sumF1(r, n) - sumF1(oldrow, n)), patterns=[totF(SM, n)]))
    ax.append(z3.ForAll([M, x, r, n], z3.Implies(inx, totFp(SM, n) == totFp(M, n) + sumFp1(r, n) - sumFp1(oldrow, n)), patterns=[totFp(SM, n)]))
    ax.append(z3.ForAll([M, x, r, n], z3.Implies(inx, totFn(SM, n) == totFn(M, n) + sumFn1(r, n) - sumFn1(oldrow, n)), patterns=[totFn(SM, n)]))
    ax.append(z3.ForAll([D, M, x, r, n], z3.Implies(inx, dot2(D, SM, n) == dot2(D, M, n) + dot1(z3.Select(D, x), r, n) - dot1(z3.Select(D, x), oldrow, n)), patterns=[dot2(D, SM, n)]))
    # node-to-module sums and module degrees under a single label change (Lean: modsum_update, degsum_update)
    c = z3.Const('c_', A1I)
    u, l, m, a, b = z3.Ints('u_ l_ m_ a_ b_')
    gam = z3.Real('g_')
    Sc = z3.Store(c, u, l)
    inu = z3.And(0 <= u, u < n)
    for f, cell in ((modsum, lambda: z3.Select(z3.Select(M, x), u)), (modsumT, lambda: z3.Select(z3.Select(M, u), x))):
        ax.append(z3.ForAll([M, c, u, l, x, m, n], z3.Implies(inu, f(M, Sc, x, m, n) == f(M, c, x, m, n) + z3.If(l == m + 1, cell(), 0) - z3.If(z3.Select(c, u) == m + 1, cell(), 0)),
                            patterns=[f(M, Sc, x, m, n)]))
    ax.append(z3.ForAll([M, c, u, l, m, n], z3.Implies(inu, degsum(M, Sc, m, n) == degsum(M, c, m, n) + z3.If(l == m + 1, sum1(z3.Select(M, u), n), 0) - z3.If(z3.Select(c, u) == m + 1, sum1(z3.Select(M, u), n), 0)),
                        patterns=[degsum(M, Sc, m, n)]))
    ax.append(z3.ForAll([M, c, u, l, m, n], z3.Implies(inu, degsumT(M, Sc, m, n) == degsumT(M, c, m, n) + z3.If(l == m + 1, csum(M, u, n), 0) - z3.If(z3.Select(c, u) == m + 1, csum(M, u, n), 0)),
                        patterns=[degsumT(M, Sc, m, n)]))
    # GAIN LEMMA (Lean: Qraw_move + nm_modularity, DESIGN Appendix A): moving node u to a different module l changes s*Q by
    #   (out-part) + (in-part)   for an arbitrary (also asymmetric) W with total weight s != 0
    ku_o, ku_i = sum1(z3.Select(M, u), n), csum(M, u, n)
    s_ = tsum(M, n)
    cu = z3.Select(c, u)
    wuu = z3.Select(z3.Select(M, u), u)
    out_part = (modsum(M, c, u, l - 1, n) - modsum(M, c, u, cu - 1, n) + wuu) - udiv(umul(umul(gam, ku_o), degsumT(M, c, l - 1, n) - degsumT(M, c, cu - 1, n) + ku_i), s_)
    in_part = (modsumT(M, c, u, l - 1, n) - modsumT(M, c, u, cu - 1, n) + wuu) - udiv(umul(umul(gam, ku_i), degsum(M, c, l - 1, n) - degsum(M, c, cu - 1, n) + ku_o), s_)
    # products / quotients of two symbolic reals are kept uninterpreted (umul/udiv) with the shape the code computes them in
    ax.append(z3.ForAll([M, c, u, l, gam, n], z3.Implies(z3.And(inu, l != cu, s_ != 0), Qmod(M, Sc, gam, n) - Qmod(M, c, gam, n) == udiv(out_part + in_part, s_)),
                        patterns=[Qmod(M, Sc, gam, n)]))
    sd = z3.Real('sd_')
    out_g = (modsum(M, c, u, l - 1, n) - modsum(M, c, u, cu - 1, n) + wuu) - udiv(umul(umul(gam, ku_o), degsumT(M, c, l - 1, n) - degsumT(M, c, cu - 1, n) + ku_i), sd)
    in_g = (modsumT(M, c, u, l - 1, n) - modsumT(M, c, u, cu - 1, n) + wuu) - udiv(umul(umul(gam, ku_i), degsum(M, c, l - 1, n) - degsum(M, c, cu - 1, n) + ku_o), sd)
    ax.append(z3.ForAll([M, c, u, l, gam, sd, n], z3.Implies(z3.And(inu, l != cu), Qrawg(M, Sc, gam, sd, n) - Qrawg(M, c, gam, sd, n) == out_g + in_g),
                        patterns=[Qrawg(M, Sc, gam, sd, n)]))
    # arbitrary kernel B (Lean: Qraw_move): moving u to a different module l
    ax.append(z3.ForAll([M, c, u, l, n], z3.Implies(z3.And(inu, l != cu), QrawB(M, Sc, n) - QrawB(M, c, n) ==
                                                    (modsum(M, c, u, l - 1, n) - modsum(M, c, u, cu - 1, n) + wuu) + (modsumT(M, c, u, l - 1, n) - modsumT(M, c, u, cu - 1, n) + wuu)),
                        patterns=[QrawB(M, Sc, n)]))
    ra, rb = z3.Reals('ra_ rb_')
    ax.append(z3.ForAll([ra, rb], z3.Implies(z3.And(ra > 0, rb > 0), udiv(ra, rb) > 0), patterns=[udiv(ra, rb)]))
    ax.append(z3.ForAll([ra, rb], z3.Implies(z3.And(ra >= 0, rb > 0), udiv(ra, rb) >= 0), patterns=[udiv(ra, rb)]))
    ax.append(z3.ForAll([ra, rb], umul(ra, rb) == umul(rb, ra), patterns=[umul(ra, rb)]))
    # permutation re-indexing (Lean: Equiv.sum_comp): P = M[ix_(p,p)]
    P = ixperm(M, p)
    ax.append(z3.ForAll([M, p, x, y], z3.Select(z3.Select(P, x), y) == z3.Select(z3.Select(M, z3.Select(p, x)), z3.Select(p, y)),
                        patterns=[z3.Select(z3.Select(P, x), y)]))
    for f in (cnt1, pos1, neg1, sum1, sumF1, sumFp1, sumFn1):
        ax.append(z3.ForAll([M, p, x, n], z3.Implies(z3.And(isperm(p, n), inx), f(z3.Select(P, x), n) == f(z3.Select(M, z3.Select(p, x)), n)), patterns=[f(z3.Select(P, x), n)]))
    for f in (ccnt, cpos, cneg, csum):
        ax.append(z3.ForAll([M, p, x, n], z3.Implies(z3.And(isperm(p, n), inx), f(P, x, n) == f(M, z3.Select(p, x), n)), patterns=[f(P, x, n)]))
    for f in (totF, totFp, totFn):
        ax.append(z3.ForAll([M, p, n], z3.Implies(isperm(p, n), f(P, n) == f(M, n)), patterns=[f(P, n)]))
    ax.append(z3.ForAll([p, x, n], z3.Implies(z3.And(isperm(p, n), inx), z3.And(0 <= z3.Select(p, x), z3.Select(p, x) < n)),
                        patterns=[z3.MultiPattern(isperm(p, n), z3.Select(p, x))]))
    return ax


# --------------------------------------------------------------------------------------------------------------------
class State:
    def __init__(self):
        self.env = {}
        self.heap = {}
        self.pc = []
        self.ghost = {}

    def fork(self):
        s = State()
        s.env = dict(self.env)
        s.heap = {k: v.clone() for k, v in self.heap.items()}
        s.pc = list(self.pc)
        s.ghost = dict(self.ghost)
        return s


class Obligation:
    def __init__(self, name, premises, goal, kind='vc'):
        self.name, self.premises, self.goal, self.kind = name, list(premises), goal, kind


_oid = itertools.count(1)


def alloc(state, ndim, term, shape, esort, meta=None):
    oid = next(_oid)
    state.heap[oid] = Obj(ndim, term, shape, esort, meta)
    return Ref(oid)


def arr_sort(ndim, esort):
    a = z3.ArraySort(INT, esort)
    return a if ndim == 1 else z3.ArraySort(INT, a)


def loop_key(node):
    if isinstance(node, ast.While):
        return 'while ' + ast.unparse(node.test)
    return 'for %s in %s' % (ast.unparse(node.target), ast.unparse(node.iter))


class Contract:
    """Sidecar contract of one function (see /verif/contracts/*.py)."""

    def __init__(self, module, name, params, requires=(), ensures=(), loops=None, abstract=None, ghost_after=None,
                 ghost_before=None, notes='', ensures_raises=None, setup=None, assume_after=None, stop_at=None, key=None, nonlinear=None, fragment=None, inputs=None, dot_support=False, use_fragments=None, inf_division=False, isclose_exact=False):
        self.module, self.name, self.params = module, name, params
        self.isclose_exact = isclose_exact    # np.isclose(a, b, rtol=.., atol=0) modelled as a == b (exact real arithmetic: the tolerance only absorbs rounding)
        self.inf_division = inf_division      # a/b with non-constant b: IEEE value 0 when b is the constant INF (np.inf)
        self.requires, self.ensures = list(requires), list(ensures)
        self.loops = dict(loops or {})
        self.abstract = dict(abstract or {})
        self.ghost_after = dict(ghost_after or {})
        self.ghost_before = dict(ghost_before or {})
        self.ensures_raises = list(ensures_raises or [])
        self.setup = setup
        self.assume_after = dict(assume_after or {})
        self.notes = notes
        self.stop_at = stop_at
        self.key = key or name
        self.nonlinear = nonlinear
        self.fragment = fragment
        self.use_fragments = dict(use_fragments or {})
        self.dot_support = dot_support
        self.inputs = inputs       # [(param, z3 const name, kind, size const)] for replaying solver counter-models on the real function


class Engine:
    def __init__(self, contract, funcdef, callee_contracts=None, module_consts=None):
        self.c = contract
        self.fd = funcdef
        self.obls = []
        self.callees = callee_contracts or {}
        self.used_loops = set()
        self.used_abstract = set()
        self.used_ghost = set()
        self.abstracted = []
        self.entry = None
        self.loop_path = []
        self.module_consts = module_consts or {}
        self.ret_states = []
        self.raise_states = []
        self.loop_counts = {}
        self.pure_cache = {}
        self.defs = []
        self.stmt_ord = {}
        cnt = {}
        for node in sorted((x for x in ast.walk(funcdef) if isinstance(x, ast.stmt)), key=lambda x: (x.lineno, x.col_offset)):
            if isinstance(node, ast.stmt) and not isinstance(node, ast.FunctionDef):
                k = self._key(node)
                self.stmt_ord[id(node)] = '%s#%d' % (k, cnt.get(k, 0))
                cnt[k] = cnt.get(k, 0) + 1
        from . import npspec
        self.np = npspec

    @staticmethod
    def _key(node):
        if isinstance(node, (ast.For, ast.While)):
            return loop_key(node)
        if isinstance(node, ast.If):
            return 'if ' + ast.unparse(node.test)
        return ast.unparse(node)

    def _lookup(self, table, node, key):
        ko = self.stmt_ord.get(id(node))
        if ko is not None and ko in table:
            return ko
        if key in table:
            return key
        # anchors may be shell-style patterns (`CIJ.flat[*] = *`): the ghost code is then attached to the statement whatever its
        # operands are, so that an edit of the operands is judged by the obligations instead of leaving the contract unbound
        import fnmatch
        for k in table:
            if ('*' in k) and fnmatch.fnmatchcase(key, k.replace('[', '[[]')):
                return k
        return None

    # ---- purification of array terms that flow into uninterpreted spec functions -----------------------------------
    def pure(self, term):
        """terms containing lambdas cannot be used in quantifier patterns: replace by a constant with a pointwise definition
        (a conservative extension; the definitions are premises of every obligation). Cached by term identity."""
        if not _has_lambda(term):
            return term
        bound = [v for fr in getattr(self, 'bound_stack', []) for v in fr]
        if bound and _mentions(term, bound):
            # a definition "for all x, y: t[x][y] == term[x][y]" would turn the contract's bound variable into a free constant
            # (the obligation then talks about an unrelated matrix and cannot be proved): beta-reduce instead, refuse otherwise
            red = z3.simplify(term)
            if _has_lambda(red):
                raise ContractError('matrix term depends on a quantified variable and does not reduce to a lambda-free term: %s' % str(term)[:200])
            return red
        key = term.get_id()
        if key in self.pure_cache:
            return self.pure_cache[key][1]
        t = fresh('def', term.sort())
        if isinstance(term.sort().range(), z3.ArraySortRef):
            x, y = z3.Ints('x!p y!p')
            self.defs.append(z3.ForAll([x, y], z3.Select(z3.Select(t, x), y) == z3.simplify(z3.Select(z3.Select(term, x), y)), patterns=[z3.Select(z3.Select(t, x), y)]))
        else:
            q = z3.Int('q!p')
            self.defs.append(z3.ForAll([q], z3.Select(t, q) == z3.simplify(z3.Select(term, q)), patterns=[z3.Select(t, q)]))
        self.pure_cache[key] = (term, t)     # keep the term alive so that its id is not reused
        return t

    # ---- obligations ---------------------------------------------------------------------------
    def oblige(self, state, name, goal, kind='vc'):
        if kind == 'safety' and getattr(self, 'in_spec', 0):
            return
        self.obls.append(Obligation('%s/%s' % (self.c.key, name), state.pc, goal, kind))

    # ---- expression evaluation -----------------------------------------------------------------
    def ev(self, node, st):
        m = getattr(self, 'ev_' + type(node).__name__, None)
        if m is None:
            raise OutOfSubset('expression %s: %s' % (type(node).__name__, ast.unparse(node)))
        return m(node, st)

    def ev_Constant(self, node, st):
        return node.value

    def ev_Name(self, node, st):
        if node.id in st.env:
            v = st.env[node.id]
            if isinstance(v, Opaque) and v.kind == 'maybe_bound':
                # bound on one branch of an earlier `if` only: reading it is safe where that branch was taken (else UnboundLocalError)
                self.oblige(st, 'bound/%s' % node.id, v.cond, kind='safety')
                return v.val
            return v
        if node.id in st.ghost:
            return st.ghost[node.id]
        if node.id in self.module_consts:
            return self.module_consts[node.id]
        if node.id in ('True', 'False', 'None'):
            return {'True': True, 'False': False, 'None': None}[node.id]
        if node.id == 'INF':
            return z3.Real('INF')
        if node.id in ('np', 'numpy'):
            return Opaque('np')
        if node.id in SPEC_BUILTINS or node.id in ('range', 'len', 'int', 'float', 'abs', 'min', 'max', 'print', 'tuple', 'isinstance', 'BCTParamError',
                                                    'ValueError', 'KeyError', 'TypeError', 'NotImplementedError', 'bool', 'list'):
            return Opaque('builtin', name=node.id)
        if node.id in self.callees:
            return Opaque('callee', name=node.id)
        raise UnboundName('unknown name %s' % node.id)

    def ev_Tuple(self, node, st):
        return TupleV(self.ev(e, st) for e in node.elts)

    def ev_List(self, node, st):
        if not node.elts:
            return SList(0, [])
        return self.ev_Tuple(node, st)

    def ev_UnaryOp(self, node, st):
        v = self.ev(node.operand, st)
        if isinstance(node.op, ast.Not):
            return z3.Not(truth(v)) if is_z3(v) else (not v)
        if isinstance(node.op, ast.USub):
            if isinstance(v, (Row, Mat, Ref)):
                return self.np.elementwise(self, st, lambda a: -to_z3(a), v)
            return -v if not is_z3(v) else -to_z3(v)
        if isinstance(node.op, ast.UAdd):
            return v
        raise OutOfSubset('unary op')

    def ev_BoolOp(self, node, st):
        # Python `a or b` returns an operand; only its use in boolean context is supported.  Short-circuit evaluation: operand k is
        # evaluated under the assumption that the earlier operands did not decide the result (its safety obligations -- index bounds,
        # "this local is bound" -- get that assumption as a premise); a concretely decided prefix stops the evaluation.
        is_and = isinstance(node.op, ast.And)
        ts = []
        for v in node.values:
            if ts:
                guard = z3.And(*ts) if is_and else z3.Not(z3.Or(*ts))
                gs = z3.simplify(guard)
                if z3.is_false(gs):
                    break
                sub = st if z3.is_true(gs) else None
            else:
                guard, sub = None, st
            try:
                if sub is None:
                    npc = len(st.pc)
                    st.pc.append(guard)
                    try:
                        val = self.ev(v, st)
                    finally:
                        del st.pc[npc:]
                else:
                    val = self.ev(v, sub)
            except UnboundName as e:
                if guard is None:
                    raise
                # the operand reads a local that is unbound on this path: Python evaluates it only if the earlier operands did not
                # decide the result, so "they did decide it" is a safety obligation here and the operand contributes nothing
                self.oblige(st, 'bound/short-circuit:%s' % ast.unparse(v)[:30], z3.Not(guard), kind='safety')
                break
            t = truth(val) if (is_z3(val) or isinstance(val, (bool, int, float)) or val is None) else val
            if isinstance(t, (Ref, Row, Mat)):
                raise OutOfSubset('boolean operator on arrays')
            ts.append(t)
        return z3.And(*ts) if is_and else z3.Or(*ts)

    def ev_Compare(self, node, st):
        left = self.ev(node.left, st)
        res = []
        for op, rn in zip(node.ops, node.comparators):
            right = self.ev(rn, st)
            res.append(self.compare(op, left, right, st))
            left = right
        if len(res) == 1:
            return res[0]
        return z3.And(*[truth(r) for r in res])

    def compare(self, op, a, b, st):
        if isinstance(op, (ast.In, ast.NotIn)):
            if isinstance(b, (tuple, list)) and not isinstance(b, Opaque) and all(isinstance(x, str) for x in b) and (isinstance(a, str) or (isinstance(a, Opaque) and a.kind == 'strsym')):
                if isinstance(a, str):
                    r = a in b
                    return r if isinstance(op, ast.In) else (not r)
                r = z3.Or(*[a.eq(x) for x in b])
                return r if isinstance(op, ast.In) else z3.Not(r)
            conc = lambda x: isinstance(x, (bool, int, str)) or x is None
            if isinstance(b, (tuple, list)) and not isinstance(b, Opaque) and conc(a) and all(conc(x) for x in b):
                r = a in tuple(b)          # concrete Python values on both sides: Python's own membership (False == 0, True == 1)
                return r if isinstance(op, ast.In) else (not r)
            raise OutOfSubset('membership test')
        if isinstance(op, (ast.Is, ast.IsNot)):
            if b is None or a is None:
                other = a if b is None else b
                if isinstance(other, Opaque) and other.kind == 'maybe_none':
                    r = other.isnone
                else:
                    r = (other is None)
                return (z3.Not(r) if is_z3(r) else (not r)) if isinstance(op, ast.IsNot) else r
            raise OutOfSubset('is')
        if any(isinstance(t_, Opaque) and t_.kind == 'maybe_none' for t_ in (a, b)):
            # ordering / equality with a value that may be None: a TypeError in Python if it is None (safety obligation), else its value
            def unwrap(t_):
                if isinstance(t_, Opaque) and t_.kind == 'maybe_none':
                    self.oblige(st, 'notnone/%s' % getattr(t_, 'name', 'value'), z3.Not(t_.isnone), kind='safety')
                    return t_.val
                return t_
            a, b = unwrap(a), unwrap(b)
        if isinstance(op, ast.Eq) and isinstance(a, Ref) and st.heap[a.oid].ndim == 1 and st.heap[a.oid].esort == INT and not isinstance(b, (Ref, Row, Mat, TupleV)):
            return self.np.eq_mask(self, st, a, b)
        if isinstance(a, (Ref, Row, Mat)) or isinstance(b, (Ref, Row, Mat)):
            return self.np.elementwise2(self, st, lambda x, y: self.compare(op, x, y, st), a, b, esort=BOOL)
        if isinstance(a, str) or isinstance(b, str):
            if isinstance(a, str) and isinstance(b, str):
                r = (a == b)
                return r if isinstance(op, ast.Eq) else (not r)
            if isinstance(a, Opaque) and a.kind == 'strsym' or isinstance(b, Opaque) and b.kind == 'strsym':
                sym, lit = (a, b) if isinstance(a, Opaque) else (b, a)
                r = sym.eq(lit)
                return r if isinstance(op, ast.Eq) else z3.Not(r)
            return isinstance(op, ast.NotEq)
        if isinstance(a, Opaque) and a.kind == 'strsym':
            r = a.eq(b)
            return r if isinstance(op, ast.Eq) else z3.Not(r)
        if a is None or b is None:
            r = (a is None and b is None)
            return r if isinstance(op, ast.Eq) else (not r)
        if isinstance(a, TupleV) or isinstance(b, TupleV):
            raise OutOfSubset('tuple comparison')
        if not is_z3(a) and not is_z3(b):
            return {ast.Eq: a == b, ast.NotEq: a != b, ast.Lt: a < b, ast.LtE: a <= b, ast.Gt: a > b, ast.GtE: a >= b}[type(op)]
        x, y = to_z3(a), to_z3(b)
        if x.sort() == BOOL and y.sort() == BOOL:
            return {ast.Eq: x == y, ast.NotEq: x != y}[type(op)]
        x, y = num2(x, y)
        return {ast.Eq: x == y, ast.NotEq: x != y, ast.Lt: x < y, ast.LtE: x <= y, ast.Gt: x > y, ast.GtE: x >= y}[type(op)]

    def ev_IfExp(self, node, st):
        c = truth(self.ev(node.test, st))
        a, b = self.ev(node.body, st), self.ev(node.orelse, st)
        if z3.is_true(c):
            return a
        if z3.is_false(c):
            return b
        a, b = num2(a, b)
        return z3.If(c, a, b)

    def binop(self, op, a, b, st):
        if isinstance(a, (Ref, Row, Mat)) or isinstance(b, (Ref, Row, Mat)):
            return self.np.elementwise2(self, st, lambda x, y: self.binop(op, x, y, st), a, b)
        if not is_z3(a) and not is_z3(b) and isinstance(a, (int, float)) and isinstance(b, (int, float)):
            if isinstance(op, ast.Add): return a + b
            if isinstance(op, ast.Sub): return a - b
            if isinstance(op, ast.Mult): return a * b
            if isinstance(op, ast.Div):
                return fractions.Fraction(a) / fractions.Fraction(b) if b != 0 else self._divzero()
            if isinstance(op, ast.FloorDiv): return a // b
            if isinstance(op, ast.Mod): return a % b
            if isinstance(op, ast.Pow): return a ** b
        if isinstance(a, fractions.Fraction) or isinstance(b, fractions.Fraction):
            pass
        if isinstance(op, ast.Mult) and (is_z3(a) or is_z3(b)):
            za, zb = (to_z3(a) if not isinstance(a, bool) else z3.BoolVal(a)), (to_z3(b) if not isinstance(b, bool) else z3.BoolVal(b))
            if za.sort() == BOOL and zb.sort() == BOOL:
                return z3.And(za, zb)
            if za.sort() == BOOL and zb.sort() != BOOL:
                return z3.If(za, zb, to_z3(0, zb.sort()))
            if zb.sort() == BOOL and za.sort() != BOOL:
                return z3.If(zb, za, to_z3(0, za.sort()))
        x, y = num2(a, b)
        if isinstance(op, ast.Add): return x + y
        if isinstance(op, ast.Sub): return x - y
        if getattr(self.c, 'nonlinear', None) == 'uf' and isinstance(op, (ast.Mult, ast.Div)):
            xr, yr = to_z3(x, REAL), to_z3(y, REAL)
            xc, yc = z3.is_rational_value(z3.simplify(xr)), z3.is_rational_value(z3.simplify(yr))
            if isinstance(op, ast.Mult) and not xc and not yc and x.sort() == REAL or isinstance(op, ast.Mult) and not xc and not yc and y.sort() == REAL:
                return umul(xr, yr)
            if isinstance(op, ast.Div) and not yc:
                return udiv(xr, yr)
        if isinstance(op, ast.Mult): return x * y
        if isinstance(op, ast.Div):
            yr = to_z3(y, REAL)
            if _mentions(yr, [z3.Real('INF')]) or (getattr(self.c, 'inf_division', False) and not z3.is_rational_value(z3.simplify(yr))):
                # np.inf is the real constant INF; IEEE division of a finite value by infinity is exactly 0 (not 1/INF > 0)
                xr_ = z3.simplify(to_z3(x, REAL))
                if getattr(self.c, 'inf_division', False) == 'ieee' and z3.is_rational_value(xr_) and xr_.numerator_as_long() > 0:
                    # IEEE: a positive constant divided by zero is +infinity (numpy warns, or not under np.errstate(divide='ignore'))
                    return z3.If(yr == z3.Real('INF'), z3.RealVal(0), z3.If(yr == 0, z3.Real('INF'), xr_ / yr))
                return z3.If(yr == z3.Real('INF'), z3.RealVal(0), to_z3(x, REAL) / yr)
            return to_z3(x, REAL) / yr
        if isinstance(op, ast.FloorDiv):
            if x.sort() == INT:
                return x / y       # z3 int division is floor for positive divisor (documented assumption: divisor > 0)
            raise OutOfSubset('floor division of reals')
        if isinstance(op, ast.Mod):
            if x.sort() == INT:
                return x % y
            if isinstance(b, int) and b == 1:
                return x - z3.ToReal(z3.ToInt(x))     # float % 1 = x - floor(x)
            raise OutOfSubset('mod of reals')
        if isinstance(op, ast.Pow):
            if isinstance(b, int) and 0 <= b <= 4:
                r = to_z3(1, x.sort())
                for _ in range(b):
                    r = r * x
                return r
            if getattr(self.c, 'nonlinear', None) == 'uf':
                return upow(to_z3(x, REAL), to_z3(y, REAL))      # an uninterpreted power: nothing is known about it
            raise OutOfSubset('power')
        raise OutOfSubset('binary operator %s' % type(op).__name__)

    def _divzero(self):
        raise OutOfSubset('constant division by zero')

    def ev_BinOp(self, node, st):
        return self.binop(node.op, self.ev(node.left, st), self.ev(node.right, st), st)

    def ev_Attribute(self, node, st):
        base = self.ev(node.value, st)
        if isinstance(base, Opaque) and base.kind == 'np':
            if node.attr == 'inf':
                # +infinity is modelled as a real constant INF about which the contract states what it needs (e.g. INF > n)
                return z3.Real('INF')
            return Opaque('npfn', name=node.attr)
        if isinstance(base, Opaque) and base.kind == 'npfn' and base.name == 'random':
            raise OutOfSubset('np.random use')
        if isinstance(base, (Ref, Row, Mat)):
            if node.attr == 'T':
                return self.np.transpose(self, st, base)
            if node.attr == 'size':
                return self.np.size(self, st, base)
            if node.attr == 'shape':
                sh = self.np.shape(self, st, base)
                return TupleV(sh)
            if node.attr == 'flat':
                return Opaque('flat', base=base)
            return Opaque('method', obj=base, name=node.attr)
        if isinstance(base, Opaque) and base.kind in ('rng',):
            return Opaque('method', obj=base, name=node.attr)
        if isinstance(base, Opaque) and base.kind == 'extmod':
            return Opaque('extmod', name=base.name + '.' + node.attr)
        raise OutOfSubset('attribute %s' % ast.unparse(node))

    def ev_Subscript(self, node, st):
        base = self.ev(node.value, st)
        if isinstance(base, Opaque) and base.kind == 'range':
            # range(a, b)[i] / range(a, b, -1)[i] (the step must be the literal 1 or -1): start + i * step, i within the length
            if isinstance(node.slice, ast.Slice):
                raise OutOfSubset('slice of a range')
            a = base.args
            lo, hi = (0, a[0]) if len(a) == 1 else (a[0], a[1])
            step = a[2] if len(a) == 3 else 1
            if step not in (1, -1) or isinstance(step, bool):
                raise OutOfSubset('range step %r' % (step,))
            lo, hi = to_z3(lo, INT), to_z3(hi, INT)
            ln = (hi - lo) if step == 1 else (lo - hi)
            idx = to_z3(self.ev(node.slice, st), INT)
            self.oblige(st, 'bounds/range:%s' % ast.unparse(node)[:24], z3.And(idx >= 0, idx < ln), kind='safety')
            return z3.simplify(lo + idx) if step == 1 else z3.simplify(lo - idx)
        if isinstance(base, AList):
            if isinstance(node.slice, ast.Slice):
                sl = node.slice
                if sl.upper is not None or sl.step is not None or sl.lower is None:
                    raise OutOfSubset('slice of a list other than lst[k:]')
                k = self.ev(sl.lower, st)
                if not (isinstance(k, int) and not isinstance(k, bool) and k >= 0):
                    raise OutOfSubset('lst[k:] with a non-literal k')
                ln = to_z3(base.length, INT)
                # lst[k:] as a NAMED array with a defining axiom (positions stay plain indices in later terms; cf. a[::-1])
                t_ = fresh('lsl', A1I)
                q_ = z3.Int('q!ls')
                st.pc.append(z3.ForAll([q_], z3.Select(t_, q_) == z3.Select(base.term, q_ + k), patterns=[z3.Select(t_, q_)]))
                return AList(t_, z3.simplify(z3.If(ln >= k, ln - k, 0)))
            raw = self.ev(node.slice, st)
            if isinstance(raw, int) and not isinstance(raw, bool) and raw < 0:
                raw = z3.simplify(to_z3(base.length, INT) + raw)
            idx = to_z3(raw, INT)
            self.oblige(st, 'bounds/list:%s' % ast.unparse(node)[:24], z3.And(idx >= 0, idx < to_z3(base.length, INT)), kind='safety')
            return z3.Select(base.term, idx)
        if isinstance(base, SList):
            if isinstance(node.slice, ast.Slice):
                raise OutOfSubset('slice of a list')
            raw = self.ev(node.slice, st)
            if isinstance(raw, int) and not isinstance(raw, bool) and raw < 0:
                raw = z3.simplify(to_z3(base.length, INT) + raw)
            idx = to_z3(raw, INT)
            self.oblige(st, 'bounds/list:%s' % ast.unparse(node)[:24], z3.And(idx >= 0, idx < to_z3(base.length, INT)), kind='safety')
            return base.slots[base.find(idx)][1]
        return self.np.getitem(self, st, base, node.slice)

    def ev_Call(self, node, st):
        if isinstance(node.func, ast.Attribute) and isinstance(node.func.value, ast.Name) and isinstance(st.env.get(node.func.value.id), AList):
            lst = st.env[node.func.value.id]
            if node.func.attr != 'append' or len(node.args) != 1 or node.keywords:
                raise OutOfSubset('list method %s' % ast.unparse(node)[:40])
            v = self.ev(node.args[0], st)
            if not ((is_z3(v) and v.sort() == INT) or (isinstance(v, int) and not isinstance(v, bool))):
                raise OutOfSubset('non-integer element appended to a list of integers')
            st.ghost['_append_last'] = (lst, to_z3(v, INT))
            st.env[node.func.value.id] = AList(z3.Store(lst.term, to_z3(lst.length, INT), to_z3(v, INT)), z3.simplify(to_z3(lst.length, INT) + 1))
            return None
        if isinstance(node.func, ast.Attribute) and isinstance(node.func.value, ast.Name) and isinstance(st.env.get(node.func.value.id), SList):
            lst = st.env[node.func.value.id]
            if node.func.attr != 'append' or len(node.args) != 1 or node.keywords:
                raise OutOfSubset('list method %s' % ast.unparse(node)[:40])
            v = self.ev(node.args[0], st)
            if isinstance(v, (Row, Mat)):
                v = self.np.materialise(self, st, v)
            if isinstance(v, SList) or not (isinstance(v, Ref) or is_z3(v) or isinstance(v, (int, float, fractions.Fraction))):
                raise OutOfSubset('list element %r' % (v,))
            st.env[node.func.value.id] = SList(z3.simplify(to_z3(lst.length, INT) + 1), lst.slots + [(to_z3(lst.length, INT), v)])
            return None
        f = self.ev(node.func, st)
        if isinstance(f, Opaque) and f.kind == 'builtin' and f.name in SPEC_BUILTINS:
            return SPEC_BUILTINS[f.name](self, st, node)
        args = [self.ev(a, st) for a in node.args]
        kw = {k.arg: self.ev(k.value, st) for k in node.keywords}
        if isinstance(f, Opaque):
            if f.kind == 'npfn':
                return self.np.call(self, st, f.name, args, kw, node)
            if f.kind == 'method':
                return self.np.method(self, st, f.obj, f.name, args, kw, node)
            if f.kind == 'builtin':
                return self.builtin(st, f.name, args, kw, node)
            if f.kind == 'callee':
                return self.callees[f.name](self, st, args, kw, node)
            if f.kind == 'extmod':
                spec = self.np.EXT_SPECS.get(f.name)
                if spec is None:
                    raise OutOfSubset('library routine %s has no specification' % f.name)
                return spec(self, st, args, kw, node)
        raise OutOfSubset('call %s' % ast.unparse(node))

    def builtin(self, st, name, args, kw, node):
        if name == 'len':
            if isinstance(args[0], (SList, AList)):
                return args[0].length
            return self.np.shape(self, st, args[0])[0]
        if name == 'range':
            return Opaque('range', args=args)
        if name == 'int':
            v = args[0]
            if isinstance(v, int):
                return v
            if isinstance(v, (float, fractions.Fraction)):
                return int(v)
            e = to_z3(v)
            if e.sort() == INT:
                return e
            t = int_valued(e)
            if t is not None:
                return t
            return z3.If(e >= 0, z3.ToInt(e), -z3.ToInt(-e))
        if name == 'float':
            return to_z3(args[0], REAL) if is_z3(args[0]) else float(args[0])
        if name == 'abs':
            e = to_z3(args[0])
            return z3.If(e >= 0, e, -e)
        if name in ('BCTParamError', 'ValueError', 'KeyError', 'TypeError', 'NotImplementedError'):
            return ExcV(name, args)
        if name == 'print':
            return None
        if name == 'tuple':
            return TupleV(args[0]) if isinstance(args[0], (tuple, list)) else args[0]
        if name == 'list':
            a0 = args[0]
            if isinstance(a0, Opaque) and a0.kind == 'range' and len(a0.args) == 1:
                r_ = Row(a0.args[0], lambda q: q, INT)        # list(range(n)): the positions 0..n-1 (used as an index vector only)
                r_.identity = True
                return r_
            raise OutOfSubset('list(...) of this argument')
        raise OutOfSubset('builtin %s' % name)

    # ---- statements ------------------------------------------------------------------------------
    def block(self, stmts, st):
        """returns list of (state, outcome)."""
        live = [st]
        done = []
        i = 0
        while i < len(stmts):
            s = stmts[i]
            uf = self._fragment_use_at(stmts, i)
            nxt = []
            for cur in live:
                res = self.use_fragment(stmts[i:uf[1] + 1], cur, uf[0]) if uf else self.stmt(s, cur)
                for s2, out in res:
                    if out == 'fall':
                        nxt.append(s2)
                    else:
                        done.append((s2, out))
            live = nxt
            i = uf[1] + 1 if uf else i + 1
            if not live:
                break
        return [(s, 'fall') for s in live] + done

    # ---- modular use of a proved fragment contract --------------------------------------------------------------------
    def _skey(self, node):
        return loop_key(node) if isinstance(node, (ast.For, ast.While)) else ('if ' + ast.unparse(node.test) if isinstance(node, ast.If) else ast.unparse(node))

    def _fragment_use_at(self, stmts, i):
        uses = getattr(self.c, 'use_fragments', None)
        if not uses:
            return None
        for key, spec in uses.items():
            k0, k1 = spec['contract'].fragment
            if self._skey(stmts[i]) == k0 or self.stmt_ord.get(id(stmts[i])) == k0:
                for j in range(i, len(stmts)):
                    if self._skey(stmts[j]) == k1 or self.stmt_ord.get(id(stmts[j])) == k1:
                        return spec, j, key
                raise ContractError('fragment end %r not found after %r' % (k1, k0))
        return None

    def use_fragment(self, stmts, st, spec):
        """The statements stmts are exactly the fragment of THIS function that the contract spec['contract'] verifies from an
        arbitrary entry state (its setup + requires).  Here: (1) the entry state is checked against that setup (same names, ranks,
        element sorts, shapes) and each `requires` clause becomes an obligation of the caller; (2) the syntactic write set of the
        statements is havocked; (3) the fragment's `ensures` are assumed.  The fragment's own obligations are discharged by the
        same check run (its contract is listed next to this one); nothing is assumed about the fragment that it does not prove."""
        F = spec['contract']
        key = F.key
        if (F.module, F.name) != (self.c.module, self.c.name):
            raise ContractError('fragment contract %s is about another function' % key)
        self.used_fragments = getattr(self, 'used_fragments', set()) | {key}
        # (1) entry typing
        fs = State()
        F.setup(self, fs)
        consts = {}
        for nm, v in fs.env.items():
            if is_z3(v) and z3.is_const(v):
                consts[v.get_id()] = nm
        problems = []
        for nm, v in fs.env.items():
            cv = st.env.get(nm)
            if isinstance(v, Ref):
                fo = fs.heap[v.oid]
                if not isinstance(cv, Ref):
                    problems.append('%s is not an array at the call site' % nm)
                    continue
                co = st.heap[cv.oid]
                if co.ndim != fo.ndim or co.esort != fo.esort:
                    problems.append('%s: rank/sort differ' % nm)
                for fd_, cd in zip(fo.shape, co.shape):
                    fd_ = to_z3(fd_, INT)
                    if fd_.get_id() in consts:
                        want = to_z3(st.env.get(consts[fd_.get_id()]), INT)
                    elif z3.is_int_value(fd_):
                        want = fd_
                    else:
                        problems.append('%s: shape term %s of the fragment setup is not a declared scalar' % (nm, fd_))
                        continue
                    if not z3.simplify(to_z3(cd, INT) - want).eq(z3.IntVal(0)):
                        problems.append('%s: shape %s differs from %s' % (nm, cd, want))
            elif isinstance(v, Opaque):
                if not (isinstance(cv, Opaque) and cv.kind == v.kind):
                    problems.append('%s is not %s at the call site' % (nm, v.kind))
            elif is_z3(v):
                if cv is None or isinstance(cv, (Ref, SList, Opaque, TupleV)):
                    problems.append('%s is not a scalar at the call site' % nm)
                elif v.sort() == INT and to_z3(cv).sort() != INT:
                    problems.append('%s: Int expected' % nm)
            else:
                problems.append('setup value of %s not understood' % nm)
        self.obls.append(Obligation('%s/use[%s]/entry-state-matches-fragment-setup' % (self.c.key, key), [], z3.BoolVal(not problems), kind='frame'))
        if problems:
            raise ContractError('use of fragment %s: %s' % (key, '; '.join(problems)))
        if spec.get('ghost_before'):
            self.run_ghost(spec['ghost_before'], st)
        # names bound for the evaluation of the fragment's clauses take precedence over program variables of the same name
        # (the fragment's ghost n0 is the level size, the function has its own variable n0)
        binds = {g: self.ev_str(src, st) for g, src in spec.get('bind', {}).items()}
        saved = dict(st.ghost)
        shadow = {g: st.env.pop(g) for g in binds if g in st.env}
        st.ghost.update(binds)
        try:
            for name, src in F.requires:
                self.oblige(st, 'use[%s]/requires/%s' % (key, name), truth(self.ev_str(src, st)))
        finally:
            st.ghost = saved
            st.env.update(shadow)
        # (2) havoc of the write set; arrays mutated in place must be allocated inside the fragment
        names, stores = self.write_set(stmts)
        fresh_inside = self.fresh_alloc_names(stmts)
        # arrays declared by the fragment's setup may be updated in place by it (they are its interface state): their objects are
        # havocked below; every other array stored into must be allocated inside the fragment
        owned = sorted(n_ for n_ in stores if n_ not in fresh_inside and isinstance(fs.env.get(n_), Ref))
        bad = sorted(n_ for n_ in stores if n_ not in fresh_inside and n_ not in owned)
        self.obls.append(Obligation('%s/use[%s]/frame' % (self.c.key, key), [], z3.BoolVal(not bad), kind='frame'))
        if bad:
            raise ContractError('fragment %s stores into %s, which is not allocated inside it' % (key, bad))
        self.abstracted.append({'function': self.c.name, 'block': 'fragment ' + key, 'havocked': sorted(names | stores),
                                'replaced_by': 'the ensures of contract %s (proved separately from the same source lines)' % key})
        s2 = st.fork()
        for nm in sorted(names | stores):
            if nm in owned and nm not in names:
                o_ = s2.heap[s2.env[nm].oid]
                # updated in place: same object, arbitrary contents.  Another name bound to the same object would see the update
                # too; such aliasing of an interface array is refused
                if any(isinstance(v_, Ref) and v_.oid == s2.env[nm].oid and k_ != nm for k_, v_ in s2.env.items()):
                    raise ContractError('fragment %s updates %s in place and the call site holds an alias of it' % (key, nm))
                o_.term = fresh('fr_' + nm, o_.term.sort())
                o_.meta = {}
                continue
            s2.env.pop(nm, None)
        for nm, (kind, *dims) in spec.get('declare', {}).items():
            if nm not in names | stores:
                raise ContractError('declared result %s is not written by the fragment' % nm)
            shp = tuple(self.ev_str(d, s2) for d in dims)
            if kind == 'int1':
                s2.env[nm] = alloc(s2, 1, fresh('fr_' + nm, A1I), shp, INT)
            elif kind == 'real1':
                s2.env[nm] = alloc(s2, 1, fresh('fr_' + nm, A1R), shp, REAL)
            elif kind == 'mat':
                s2.env[nm] = alloc(s2, 2, fresh('fr_' + nm, A2R), shp, REAL)
            elif kind == 'int':
                s2.env[nm] = fresh('fr_' + nm, INT)
            elif kind == 'bool':
                s2.env[nm] = fresh('fr_' + nm, BOOL)
            else:
                raise ContractError('declare kind %s' % kind)
        outs = []
        if any(isinstance(x, ast.Raise) for s_ in stmts for x in ast.walk(s_)):
            s3 = s2.fork()
            outs.append((s3, ('raise', ExcV('BCTParamError', ()))))
        # (3) assume the ensures
        post = {g: self.ev_str(src, s2) for g, src in spec.get('bind_post', {}).items()}
        s2.ghost.update(binds)
        s2.ghost.update(post)
        shadow = {g: s2.env.pop(g) for g in list(binds) + list(post) if g in s2.env}
        for name, src in F.ensures:
            s2.pc.append(truth(self.ev_str(src, s2)))
        s2.env.update(shadow)
        for g in list(binds) + list(post):
            if g in saved:
                s2.ghost[g] = saved[g]
            else:
                s2.ghost.pop(g, None)
        if spec.get('ghost_after'):
            self.run_ghost(spec['ghost_after'], s2)
        return [(s2, 'fall')] + outs

    def stmt(self, node, st):
        key = loop_key(node) if isinstance(node, (ast.For, ast.While)) else ('if ' + ast.unparse(node.test) if isinstance(node, ast.If) else ast.unparse(node))
        if self.c.stop_at is not None and key == self.c.stop_at:
            self.stopped = True
            return [(st, ('return', None))]
        kb = self._lookup(self.c.ghost_before, node, key)
        if kb is not None:
            self.used_ghost.add(('before', kb))
            self.run_ghost(self.c.ghost_before[kb], st)
        kab = self._lookup(self.c.abstract, node, key)
        if kab is not None and self.c.abstract[kab].get('assume_not_taken') and isinstance(node, ast.If):
            # PATH ASSUMPTION (recorded as such, never silent): the verification is restricted to executions on which this `if` is not
            # taken; the branch body is not examined at all, its `else` part (if any) is executed normally.
            self.used_abstract.add(kab)
            st.pc.append(z3.Not(truth(self.ev(node.test, st))))
            self.abstracted.append({'function': self.c.name, 'block': kab[:80], 'assumed_not_taken': True, 'havocked': [], 'mutated_in_place': [], 'fresh_inside': []})
            res = self.block(node.orelse, st) if node.orelse else [(st, 'fall')]
        elif kab is not None:
            self.used_abstract.add(kab)
            res = self.abstract_block(node, st, self.c.abstract[kab], kab)
        else:
            m = getattr(self, 'st_' + type(node).__name__, None)
            if m is None:
                raise OutOfSubset('statement %s: %s' % (type(node).__name__, ast.unparse(node)[:60]))
            if isinstance(node, (ast.Assign, ast.AugAssign, ast.Expr, ast.Return)) and not getattr(self, 'in_spec', 0):
                # a simple statement that reads a local which is not bound on this path raises UnboundLocalError in Python: the
                # path ends with that exception (no ensures clause applies to it; it shows up in the raise paths of the contract)
                s_try = st.fork()
                try:
                    res = m(node, s_try)
                    st.env, st.heap, st.pc, st.ghost = s_try.env, s_try.heap, s_try.pc, s_try.ghost
                    res = [(st if s_ is s_try else s_, o) for s_, o in res]
                except UnboundName as e:
                    self.unbound_reads = getattr(self, 'unbound_reads', []) + ['%s: %s' % (ast.unparse(node)[:60], e)]
                    res = [(st, ('raise', ExcV('UnboundLocalError', ())))]
            else:
                res = m(node, st)
        ka = self._lookup(self.c.ghost_after, node, key)
        kas = self._lookup(self.c.assume_after, node, key)
        if ka is not None or kas is not None:
            for kk in (ka, kas):
                if kk is not None:
                    self.used_ghost.add(('after', kk))
            for s2, out in res:
                if out == 'fall':
                    if ka is not None:
                        self.run_ghost(self.c.ghost_after[ka], s2)
                    if kas is not None:
                        for clause in self.c.assume_after[kas]:
                            s2.pc.append(truth(self.ev_str(clause, s2)))
        return res

    def run_ghost(self, code, st):
        for g in ast.parse(code).body:
            if isinstance(g, ast.Expr) and isinstance(g.value, ast.Call) and isinstance(g.value.func, ast.Name) and g.value.func.id == 'check':
                # check('name', expr): intermediate assertion (cut): proved as its own obligation, then available as a premise
                self.in_spec = getattr(self, 'in_spec', 0) + 1
                try:
                    goal = truth(self.ev(g.value.args[1], st))
                finally:
                    self.in_spec -= 1
                self.nchecks = getattr(self, 'nchecks', 0) + 1
                self.oblige(st, 'cut/%s/c%d' % (g.value.args[0].value, self.nchecks), goal)
                st.pc.append(goal)
                continue
            if isinstance(g, ast.Expr) and isinstance(g.value, ast.Call) and isinstance(g.value.func, ast.Name) and g.value.func.id == 'assume':
                self.in_spec = getattr(self, 'in_spec', 0) + 1
                try:
                    for a in g.value.args:
                        st.pc.append(truth(self.ev(a, st)))
                finally:
                    self.in_spec -= 1
                continue
            outs = self.stmt(g, st) if not isinstance(g, ast.Assign) else None
            if outs is None:
                # ghost assignment: target is a ghost name
                self.in_spec = getattr(self, 'in_spec', 0) + 1
                try:
                    val = self.ev(g.value, st)
                finally:
                    self.in_spec -= 1
                if isinstance(val, (Row, Mat)):
                    val = self.np.materialise(self, st, val)
                for t in g.targets:
                    if isinstance(t, ast.Name):
                        st.ghost[t.id] = val
                    else:
                        raise OutOfSubset('ghost store')

    def ev_str(self, src, st):
        """evaluates a contract clause; index-bounds obligations are not generated for specification text."""
        self.in_spec = getattr(self, 'in_spec', 0) + 1
        try:
            return self.ev(ast.parse(src, mode='eval').body, st)
        finally:
            self.in_spec -= 1

    def st_Expr(self, node, st):
        v = node.value
        if isinstance(v, ast.Constant):
            return [(st, 'fall')]
        if isinstance(v, ast.Call):
            fn = ast.unparse(v.func)
            if fn == 'print' or fn.endswith('.setflags'):
                return [(st, 'fall')]
            r = self.ev(v, st)
            if isinstance(r, list):      # call with forking outcome
                return r
            return [(st, 'fall')]
        raise OutOfSubset('expression statement')

    def st_ImportFrom(self, node, st):
        for a in node.names:
            if (a.asname or a.name) == 'round' and a.name == 'teachers_round':
                continue          # `round` then denotes teachers_round (callee contract registered under both names)
            if a.name in self.callees and a.asname in (None, a.name):
                continue
            if node.module == 'scipy' and a.name in ('linalg', 'stats') and a.asname is None:
                st.env[a.name] = Opaque('extmod', name=a.name)       # only the routines with a spec in npspec.EXT_SPECS can be called
                continue
            raise OutOfSubset('import %s' % ast.unparse(node))
        return [(st, 'fall')]

    def st_FunctionDef(self, node, st):
        # a nested function definition: only allowed when the contract supplies a callee contract for it (its body is verified by its
        # own contract, `<outer>.<inner>`); a nested def without one is out of the subset
        if node.name in self.callees:
            return [(st, 'fall')]
        raise OutOfSubset('nested function %s without a callee contract' % node.name)

    def st_With(self, node, st):
        # `with np.errstate(...):` only changes how floating-point warnings are reported: the body is executed as it stands
        if len(node.items) == 1 and node.items[0].optional_vars is None and ast.unparse(node.items[0].context_expr).startswith('np.errstate('):
            return self.block(node.body, st)
        raise OutOfSubset('with statement')

    def st_Pass(self, node, st):
        return [(st, 'fall')]

    def st_Assign(self, node, st):
        # numpy basic slicing returns a VIEW: `x = W[u, :]` followed by a write to W would be seen through x.  The encoding gives
        # slices value semantics, so binding a bare basic slice of an array to a name is refused (no function under contract does it)
        v0 = node.value
        if isinstance(v0, ast.Subscript) and isinstance(v0.value, ast.Name) and any(isinstance(t, ast.Name) for t in node.targets):
            sl = v0.slice
            parts = sl.elts if isinstance(sl, ast.Tuple) else [sl]
            if any(isinstance(p_, ast.Slice) for p_ in parts) and not any(isinstance(p_, (ast.Compare, ast.Call, ast.List)) for p_ in parts):
                base = self.ev(v0.value, st)
                if isinstance(base, Ref):
                    raise OutOfSubset('a basic slice (numpy view) is bound to a name: %s' % ast.unparse(node)[:60])
        val = self.ev(node.value, st)
        if isinstance(node.value, ast.List) and node.value.elts and len(node.targets) == 1 and isinstance(node.targets[0], ast.Name) and self._is_grown(node.targets[0].id):
            # `ci = [None, start]` followed by `ci.append(...)` somewhere in the function: a list object, not an index tuple
            elems = []
            for e in val:
                if isinstance(e, (Row, Mat)):
                    e = self.np.materialise(self, st, e)
                if not (e is None or isinstance(e, Ref) or is_z3(e) or isinstance(e, (int, float, fractions.Fraction))):
                    raise OutOfSubset('list element %r' % (e,))
                elems.append(e)
            stored_into = any(isinstance(n_, (ast.Assign, ast.AugAssign)) and any(isinstance(t_, ast.Subscript) and isinstance(t_.value, ast.Name) and t_.value.id == node.targets[0].id
                                                                                    for t_ in (n_.targets if isinstance(n_, ast.Assign) else [n_.target])) for n_ in ast.walk(self.fd))
            if not stored_into and all((is_z3(e) and e.sort() == INT) or (isinstance(e, int) and not isinstance(e, bool)) for e in elems):
                t_ = fresh('lst', A1I)          # a list of integers: array model, every element addressable
                for k_, e in enumerate(elems):
                    t_ = z3.Store(t_, k_, to_z3(e, INT))
                val = AList(t_, z3.IntVal(len(elems)))
            else:
                val = SList(len(elems), [(z3.IntVal(k_), e) for k_, e in enumerate(elems)])
        if isinstance(val, (SList, AList)) and isinstance(node.value, (ast.Name, ast.Subscript, ast.Attribute)) \
                and not (isinstance(node.value, ast.Subscript) and isinstance(node.value.slice, ast.Slice)):        # a slice is a new list
            raise OutOfSubset('a list object is bound to a second name: %s' % ast.unparse(node)[:60])
        if isinstance(val, Fork):
            out = []
            for cond, v, exc in val.branches:
                s2 = st.fork()
                s2.pc.append(cond)
                if exc is not None:
                    out.append((s2, ('raise', exc)))
                else:
                    for t in node.targets:
                        self.assign(t, v, s2)
                    out.append((s2, 'fall'))
            return out
        for t in node.targets:
            self.assign(t, val, st)
        return [(st, 'fall')]

    def assign(self, target, val, st):
        if isinstance(target, ast.Name):
            if isinstance(val, (Row, Mat)):
                val = self.np.materialise(self, st, val)
            st.env[target.id] = val
        elif isinstance(target, (ast.Tuple, ast.List)):
            vals = self.np.unpack(self, st, val, len(target.elts))
            for t, v in zip(target.elts, vals):
                self.assign(t, v, st)
        elif isinstance(target, ast.Subscript):
            base = self.ev(target.value, st)
            if isinstance(base, SList):
                if not isinstance(target.value, ast.Name) or isinstance(target.slice, ast.Slice):
                    raise OutOfSubset('store into a nested list / list slice')
                if isinstance(val, (Row, Mat)):
                    val = self.np.materialise(self, st, val)
                idx = to_z3(self.ev(target.slice, st), INT)
                self.oblige(st, 'bounds/liststore:%s' % ast.unparse(target)[:24], z3.And(idx >= 0, idx < to_z3(base.length, INT)), kind='safety')
                pos = base.find(idx)
                slots = list(base.slots)
                slots[pos] = (slots[pos][0], val)
                st.env[target.value.id] = SList(base.length, slots)
                return
            self.np.setitem(self, st, base, target.slice, val, target)
        else:
            raise OutOfSubset('assignment target')

    def st_AugAssign(self, node, st):
        if isinstance(node.target, ast.Name):
            cur = st.env.get(node.target.id, st.ghost.get(node.target.id))
            rhs = self.ev(node.value, st)
            if isinstance(cur, Ref):
                # in-place update of the array object
                self.np.inplace(self, st, cur, node.op, rhs)
                return [(st, 'fall')]
            st.env[node.target.id] = self.binop(node.op, cur, rhs, st)
            return [(st, 'fall')]
        if isinstance(node.target, ast.Subscript):
            cur = self.ev(node.target, st)
            rhs = self.ev(node.value, st)
            val = self.binop(node.op, cur, rhs, st)
            base = self.ev(node.target.value, st)
            self.np.setitem(self, st, base, node.target.slice, val, node.target)
            return [(st, 'fall')]
        raise OutOfSubset('augmented assignment target')

    def st_If(self, node, st):
        c = self.ev(node.test, st)
        c = truth(c)
        out = []
        npc = len(st.pc)
        b1 = b2 = None
        if not z3.is_false(z3.simplify(c)):
            s1 = st.fork()
            s1.pc.append(c)
            b1 = self.block(node.body, s1)
            out += b1
        if not z3.is_true(z3.simplify(c)):
            s2 = st.fork()
            s2.pc.append(z3.Not(c))
            b2 = self.block(node.orelse, s2) if node.orelse else [(s2, 'fall')]
            out += b2
        # join: if each branch falls through with exactly one state, merge the two states (keeps the number of paths linear)
        if b1 is not None and b2 is not None:
            f1 = [s_ for s_, o in b1 if o == 'fall']
            f2 = [s_ for s_, o in b2 if o == 'fall']
            if len(f1) == 1 and len(f2) == 1:
                m = self.merge_states(c, f1[0], f2[0], npc)
                if m is not None:
                    return [(m, 'fall')] + [(s_, o) for s_, o in b1 + b2 if o != 'fall']
        return out

    def merge_states(self, c, a, b, npc):
        """state a holds under c, b under not c; both extend a common prefix pc[:npc]. Returns the merged state or None."""
        if a.pc[:npc] != b.pc[:npc] and not all(x.eq(y) for x, y in zip(a.pc[:npc], b.pc[:npc])):
            return None
        m = a.fork()
        m.pc = list(a.pc[:npc])
        ea = z3.And(*a.pc[npc + 1:]) if len(a.pc) > npc + 1 else None
        eb = z3.And(*b.pc[npc + 1:]) if len(b.pc) > npc + 1 else None
        if ea is not None:
            m.pc.append(z3.Implies(c, ea))
        if eb is not None:
            m.pc.append(z3.Implies(z3.Not(c), eb))

        def mval(x, y):
            if x is y:
                return x
            if is_z3(x) and is_z3(y) and x.eq(y):
                return x
            if isinstance(x, Ref) and isinstance(y, Ref) and x.oid == y.oid:
                return x
            if (is_z3(x) or isinstance(x, (bool, int, float, fractions.Fraction))) and (is_z3(y) or isinstance(y, (bool, int, float, fractions.Fraction))):
                if not is_z3(x) and not is_z3(y) and x == y and type(x) == type(y):
                    return x
                zx, zy = to_z3(x), to_z3(y)
                if zx.sort() == BOOL and zy.sort() == BOOL:
                    return z3.If(c, zx, zy)
                zx, zy = num2(zx, zy)
                return z3.If(c, zx, zy)
            if isinstance(x, str) and x == y:
                return x
            if x is None and y is None:
                return None
            if isinstance(x, AList) and isinstance(y, AList):
                return AList(z3.If(c, x.term, y.term), z3.If(c, to_z3(x.length, INT), to_z3(y.length, INT)))
            raise _NoMerge()
        try:
            for table in ('env', 'ghost'):
                ta, tb = getattr(a, table), getattr(b, table)
                keys = set(ta) | set(tb)
                res = {}
                for k in keys:
                    if k in ta and k in tb:
                        res[k] = mval(ta[k], tb[k])
                    elif table == 'env':
                        # a local bound on one side only stays readable, guarded by the branch condition (reading it elsewhere is an
                        # UnboundLocalError in Python: the read emits that condition as a safety obligation)
                        v1 = ta[k] if k in ta else tb[k]
                        if isinstance(v1, Opaque) and v1.kind == 'maybe_bound':
                            raise _NoMerge()
                        res[k] = Opaque('maybe_bound', cond=(c if k in ta else z3.Not(c)), val=v1)
                    # ghost names bound on one side only are dropped
                setattr(m, table, res)
            heap = {}
            for oid in set(a.heap) | set(b.heap):
                if oid in a.heap and oid in b.heap:
                    oa, ob = a.heap[oid], b.heap[oid]
                    o = oa.clone()
                    if not oa.term.eq(ob.term):
                        o.term = z3.If(c, oa.term, ob.term)
                        o.meta = {}
                    if any(not (to_z3(p, INT)).eq(to_z3(q, INT)) for p, q in zip(oa.shape, ob.shape)):
                        raise _NoMerge()
                    heap[oid] = o
                else:
                    heap[oid] = (a.heap.get(oid) or b.heap.get(oid)).clone()
            m.heap = heap
        except _NoMerge:
            return None
        return m

    def _is_grown(self, name):
        cache = self.__dict__.setdefault('_grown', {})
        if name not in cache:
            cache[name] = any(isinstance(n, ast.Call) and isinstance(n.func, ast.Attribute) and n.func.attr == 'append' and isinstance(n.func.value, ast.Name) and n.func.value.id == name
                              for n in ast.walk(self.fd))
        return cache[name]

    def st_Return(self, node, st):
        val = self.ev(node.value, st) if node.value is not None else None
        return [(st, ('return', val))]

    def st_Raise(self, node, st):
        exc = self.ev(node.exc, st) if node.exc is not None else ExcV('reraise')
        return [(st, ('raise', exc))]

    def st_Break(self, node, st):
        return [(st, 'break')]

    def st_Continue(self, node, st):
        return [(st, 'continue')]

    # ---- loops -----------------------------------------------------------------------------------
    def st_While(self, node, st):
        return self.loop(node, st)

    def st_For(self, node, st):
        return self.loop(node, st)

    def write_set(self, stmts):
        names, stores = set(), set()
        if not hasattr(self, 'list_store_idx'):
            self.list_store_idx = {}

        class V(ast.NodeVisitor):
            def visit_Assign(s, n):
                for t in n.targets:
                    s.tgt(t)
                s.generic_visit(n)

            def visit_AugAssign(s, n):
                if isinstance(n.target, ast.Name):
                    names.add(n.target.id)
                    stores.add(n.target.id)     # may be an in-place array update
                else:
                    s.tgt(n.target)
                s.generic_visit(n)

            def visit_For(s, n):
                s.tgt(n.target)
                s.generic_visit(n)

            def tgt(s, t):
                if isinstance(t, ast.Name):
                    names.add(t.id)
                elif isinstance(t, (ast.Tuple, ast.List)):
                    for e in t.elts:
                        s.tgt(e)
                elif isinstance(t, ast.Subscript):
                    b, first = t.value, t
                    while isinstance(b, (ast.Subscript, ast.Attribute)):
                        first = b
                        b = b.value
                    if isinstance(b, ast.Name):
                        stores.add(b.id)
                        # for a list of arrays (`ci[h][mask] = v`): which element is written (used by havoc to keep the others)
                        if isinstance(first, ast.Subscript) and first is not t:
                            self.list_store_idx.setdefault(b.id, []).append(first.slice)

            def visit_Call(s, n):
                fn = ast.unparse(n.func)
                if fn in ('np.fill_diagonal', 'np.put', 'np.place', 'np.copyto') and n.args and isinstance(n.args[0], ast.Name):
                    stores.add(n.args[0].id)
                if isinstance(n.func, ast.Attribute) and n.func.attr in ('sort', 'fill', 'resize', 'put', 'itemset') and isinstance(n.func.value, ast.Name):
                    stores.add(n.func.value.id)
                if isinstance(n.func, ast.Attribute) and n.func.attr in ('append', 'extend', 'insert', 'pop', 'remove', 'clear') and isinstance(n.func.value, ast.Name) and n.func.value.id != 'np':
                    names.add(n.func.value.id)       # (np.append is a function of the numpy module, not a list method)
                s.generic_visit(n)
        for s_ in stmts:
            V().visit(s_)
        return names, stores

    def havoc(self, st, names, stores, ghosts=(), spec=None):
        spec = spec or {}
        for nm in sorted(stores):
            v = st.env.get(nm)
            if isinstance(v, Ref):
                o = st.heap[v.oid]
                o.term = fresh('hv_' + nm, o.term.sort())
                o.meta = {}
            elif isinstance(v, SList) and nm not in names:
                # an element array of the list is written in place: havoc the addressed element(s); if the index expression is
                # itself modified in the loop (or is not a tracked slot), every tracked element is havocked
                hit = set()
                for sl in self.list_store_idx.get(nm, [None]):
                    try:
                        if sl is None or any(isinstance(x, ast.Name) and x.id in names for x in ast.walk(sl)):
                            raise OutOfSubset('index modified')
                        hit.add(v.find(self.ev(sl, st)))
                    except OutOfSubset:
                        hit = set(range(len(v.slots)))
                        break
                for pos in hit:
                    e = v.slots[pos][1]
                    if isinstance(e, Ref):
                        o = st.heap[e.oid]
                        o.term = fresh('hv_' + nm, o.term.sort())
                        o.meta = {}
        lists = spec.get('lists', {})
        shapes = spec.get('shapes', {})
        later = []
        # arrays first bound INSIDE the loop body and read after the loop (or in a later iteration): at the head of an arbitrary
        # iteration they are arbitrary arrays of the declared rank/shape; the invariant may speak about them only under a guard
        # that is concretely false before the first iteration
        declared = set()
        for nm, (kind, *dims) in spec.get('declare', {}).items():
            if nm in st.env and not isinstance(st.env[nm], TupleV):
                continue
            if nm not in names:
                raise ContractError('declared loop-carried name %s is not assigned in the loop' % nm)
            shp = []
            for d in dims:
                if d == '?':           # a length that is only known through the invariant
                    k_ = fresh('hv_len_' + nm, INT)
                    st.pc.append(k_ >= 0)
                    shp.append(k_)
                else:
                    shp.append(self.ev_str(d, st))
            shp = tuple(shp)
            if kind == 'mat':
                st.env[nm] = alloc(st, 2, fresh('hv_' + nm, A2R), shp, REAL)
            elif kind == 'int1':
                st.env[nm] = alloc(st, 1, fresh('hv_' + nm, A1I), shp, INT)
            else:
                raise ContractError('declare kind %s' % kind)
            declared.add(nm)
        for nm in sorted(names):
            if nm in declared:
                continue
            v = st.env.get(nm)
            if v is None and nm not in st.env:
                continue
            if isinstance(v, Opaque) and v.kind == 'maybe_bound':
                st.env.pop(nm, None)
                continue
            if isinstance(v, Ref):
                # the name is re-bound in the loop body (e.g. `nPATH = np.dot(nPATH, G)`): at the head of an arbitrary iteration it
                # denotes an arbitrary array of the same shape and element sort -- a NEW object (other names keep their objects).
                # If the shape itself changes between iterations (`W = W1` with W1 of the new size) the loop contract declares it
                # (spec 'shapes': name -> tuple of expressions, evaluated after the scalars have been havocked)
                later.append(nm)
                continue
            if isinstance(v, SList):
                later.append(nm)
                continue
            if isinstance(v, AList):
                ln_ = fresh('hv_len_' + nm, INT)
                st.pc.append(ln_ >= 0)
                st.env[nm] = AList(fresh('hv_' + nm, A1I), ln_)
                continue
            if is_z3(v):
                st.env[nm] = fresh('hv_' + nm, v.sort())
            elif isinstance(v, bool):
                st.env[nm] = fresh('hv_' + nm, BOOL)
            elif isinstance(v, int):
                st.env[nm] = fresh('hv_' + nm, INT)
            elif isinstance(v, (float, fractions.Fraction)):
                st.env[nm] = fresh('hv_' + nm, REAL)
            elif isinstance(v, TupleV) or v is None or isinstance(v, (Opaque, str)):
                st.env.pop(nm, None) if not isinstance(v, Opaque) else None
        for nm in later:
            v = st.env[nm]
            if isinstance(v, Ref):
                o = st.heap[v.oid]
                shp = tuple(self.ev_str(e, st) for e in shapes[nm]) if nm in shapes else o.shape
                if len(shp) != o.ndim:
                    raise ContractError('shape declaration of %s has the wrong rank' % nm)
                st.env[nm] = alloc(st, o.ndim, fresh('hv_' + nm, o.term.sort()), shp, o.esort)
            else:
                # list that grows in the loop: at the head of an arbitrary iteration its length is the declared expression (the
                # clause len(name) == expr is an invariant obligation like any other) and only its LAST element is known to exist
                if nm not in lists or not v.slots:
                    raise ContractError('list %s is modified in a loop: the loop contract must declare its length (spec lists)' % nm)
                decl = lists[nm]
                lnsrc, ntrail = (decl, 1) if isinstance(decl, str) else decl     # 'h + 1'  or  ('h + 1', number of trailing elements known to exist)
                ln = z3.simplify(to_z3(self.ev_str(lnsrc, st), INT))
                last = v.slots[-1][1]
                slots = []
                for back in range(ntrail, 0, -1):
                    if isinstance(last, Ref):
                        o = st.heap[last.oid]
                        e = alloc(st, o.ndim, fresh('hv_' + nm, o.term.sort()), o.shape, o.esort)
                    else:
                        e = fresh('hv_' + nm, BOOL if to_z3(last).sort() == BOOL else REAL)     # a list of numbers: reals (ints embed)
                    slots.append((z3.simplify(ln - back), e))
                st.env[nm] = SList(ln, slots)
        for g in ghosts:
            v = st.ghost.get(g)
            if is_z3(v):
                st.ghost[g] = fresh('hv_' + g, v.sort())
            elif isinstance(v, Ref):
                o = st.heap[v.oid]
                st.ghost[g] = alloc(st, o.ndim, fresh('hv_' + g, o.term.sort()), o.shape, o.esort)

    def inv_clauses(self, spec, st, extra=None):
        """evaluates the invariant clauses in state st -> list of (name, Bool)."""
        out = []
        env_save = dict(st.ghost)
        if extra:
            st.ghost.update(extra)
        try:
            for name, src in spec['inv']:
                out.append((name, truth(self.ev_str(src, st))))
        finally:
            st.ghost = env_save
        return out

    def loop(self, node, st):
        key = loop_key(node)
        cnt = self.loop_counts.get(key, 0)
        spec = self.c.loops.get(key) or self.c.loops.get(self.stmt_ord.get(id(node), ''))     # key, or key#k with k the ordinal in source order
        self.loop_counts[key] = cnt + 1
        pkey = None
        if spec is None:
            # loop keys may be fnmatch patterns (`for k in range(*`): a changed loop header is then verified against the invariant
            # instead of being reported as a contract that no longer binds
            import fnmatch
            cands = [k for k in self.c.loops if any(ch in k for ch in '*?') and fnmatch.fnmatchcase(key, k)]
            if len(cands) == 1:
                pkey, spec = cands[0], self.c.loops[cands[0]]
        if spec is None:
            raise ContractError('no invariant for loop `%s` in %s' % (key, self.c.name))
        self.used_loops.add(pkey if pkey is not None else (key if key in self.c.loops else self.stmt_ord.get(id(node), key)))
        lname = spec.get('name', key)
        names, stores = self.write_set(node.body + ([node] if isinstance(node, ast.For) else []))
        ghosts = spec.get('ghosts', ())
        is_for = isinstance(node, ast.For)
        results = []
        # iteration space of a for loop
        if is_for:
            it = self.ev(node.iter, st)
            if isinstance(it, Opaque) and it.kind == 'range':
                a = it.args
                lo, hi = (0, a[0]) if len(a) == 1 else (a[0], a[1])
                if len(a) == 3:
                    raise OutOfSubset('range with step')
                lo, hi = to_z3(lo, INT), to_z3(hi, INT)
                elem = lambda t: lo + t
                count = z3.If(hi > lo, hi - lo, 0)
            elif isinstance(it, (Ref, Row)) or (isinstance(it, (tuple, list)) and not isinstance(it, Opaque) and it):
                if isinstance(it, (tuple, list)):
                    it = self.np.as_row(self, st, it)
                n_ = self.np.shape(self, st, it)[0]
                count = to_z3(n_, INT)
                itv = it
                elem = lambda t: self.np.index1(self, st_cur[0], itv, t)
            else:
                raise OutOfSubset('for over %r' % (it,))
        # 0. the havoc at the head of the arbitrary iteration gives every array name that the body re-binds its OWN fresh object:
        # sound only if, wherever control reaches the head, such a name does not share its object with another name
        # A name that every iteration re-binds to a fresh value before it is read, that the invariant does not mention and that is not
        # used after the loop, is dead at the head: sharing an object with it is harmless (`W = W1` at the end of a body that starts
        # the next round with `W1 = np.zeros(...)`).
        inv_src = ' '.join(src for _, src in spec['inv'])
        end_line = max(getattr(x, 'end_lineno', 0) or 0 for x in ast.walk(node))
        used_after = {x.id for x in ast.walk(self.fd) if isinstance(x, ast.Name) and getattr(x, 'lineno', 0) > end_line}

        def dead_at_head(nm):
            if nm in used_after or re.search(r'\b%s\b' % re.escape(nm), inv_src):
                return False
            for stt in node.body:
                if isinstance(stt, ast.Assign) and len(stt.targets) == 1 and isinstance(stt.targets[0], ast.Name) and stt.targets[0].id == nm \
                        and not any(isinstance(x, ast.Name) and x.id == nm for x in ast.walk(stt.value)):
                    return True
                if any(isinstance(x, ast.Name) and x.id == nm for x in ast.walk(stt)):
                    return False
            return False
        dead = {nm for nm in names if dead_at_head(nm)}

        def alias_free(state):
            refs = {}
            for k_, v_ in state.env.items():
                if isinstance(v_, Ref) and k_ not in dead:
                    refs.setdefault(v_.oid, []).append(k_)
            return sorted(k_ for k_ in names if k_ not in dead and isinstance(state.env.get(k_), Ref) and len(refs[state.env[k_].oid]) > 1)
        bad0 = alias_free(st)
        self.obls.append(Obligation('%s/%s/establish/REBOUND-ARRAYS-not-aliased' % (self.c.key, lname), [], z3.BoolVal(not bad0), kind='frame'))
        # 1. establish
        for cname, g in self.inv_clauses(spec, st, {'_it': z3.IntVal(0)} if is_for else None):
            self.oblige(st, '%s/establish/%s' % (lname, cname), g)
        # zero-iteration fast path for `for` loops: state unchanged (gives exact identity when nothing is requested)
        if is_for:
            s0 = st.fork()
            s0.pc.append(count <= 0)
            results.append((s0, 'fall'))
        else:
            c0 = truth(self.ev(node.test, st))
            if not z3.is_true(z3.simplify(c0)):
                s0 = st.fork()
                s0.pc.append(z3.Not(c0))
                results.append((s0, 'fall'))
        # 2. arbitrary iteration
        body_st = st.fork()
        if is_for:
            body_st.pc.append(count > 0)
        self.havoc(body_st, names, stores, ghosts, spec)
        itc = fresh('it', INT) if is_for else None
        for cname, g in self.inv_clauses(spec, body_st, {'_it': itc} if is_for else None):
            body_st.pc.append(g)
        exit_st = body_st.fork()
        if is_for:
            body_st.pc += [itc >= 0, itc < count]
            st_cur = [body_st]
            self.assign(node.target, elem(itc), body_st)
        else:
            c = truth(self.ev(node.test, body_st))
            body_st.pc.append(c)
        pnum = 0
        gb = self.c.ghost_before.get('body:' + key)
        if gb:
            self.used_ghost.add(('before', 'body:' + key))
            self.run_ghost(gb, body_st)
        ga = self.c.ghost_after.get('body:' + key)
        for s2, out in self.block(node.body, body_st):
            pnum += 1
            if ga and out in ('fall', 'continue'):
                self.used_ghost.add(('after', 'body:' + key))
                self.run_ghost(ga, s2)
            if out in ('fall', 'continue'):
                badp = alias_free(s2)
                self.obls.append(Obligation('%s/%s/preserve/REBOUND-ARRAYS-not-aliased/p%d' % (self.c.key, lname, pnum), list(s2.pc) if badp else [],
                                            z3.Not(z3.And(*s2.pc)) if badp else z3.BoolVal(True), kind='frame'))
                for cname, g in self.inv_clauses(spec, s2, {'_it': itc + 1} if is_for else None):
                    self.oblige(s2, '%s/preserve/%s/p%d' % (lname, cname, pnum), g)
            elif out == 'break':
                results.append((s2, 'fall'))
            else:
                results.append((s2, out))
        # 3. normal exit
        if is_for:
            exit_st.pc.append(count > 0)
            # invariant at _it = count
            ex2 = exit_st     # invariant already assumed at itc; add the instance at count
            for cname, g in self.inv_clauses(spec, ex2, {'_it': count}):
                ex2.pc.append(g)
            # the loop variable keeps its last value; leave it havocked
            results.append((ex2, 'fall'))
        else:
            c = truth(self.ev(node.test, exit_st))
            if not z3.is_true(z3.simplify(c)):
                exit_st.pc.append(z3.Not(c))
                results.append((exit_st, 'fall'))
        if node.orelse:
            raise OutOfSubset('loop else')
        return results

    # ---- abstraction of a block --------------------------------------------------------------------
    def abstract_block(self, node, st, spec, key):
        """Replace a statement by a havoc of its syntactic write set. spec: dict(fresh=[names created inside and mutated in
        place], protects=[names that must not be written], assume=[clauses about the result]).  Frame obligations are
        syntactic and recorded as obligations of kind 'frame'."""
        names, stores = self.write_set([node])
        protects = set(spec.get('protects', ()))
        # names mutated in place must be allocated inside the block from a fresh-storage expression
        fresh_inside = self.fresh_alloc_names([node])
        bad_store = sorted(n for n in stores if n not in fresh_inside and not spec.get('allow_store', {}).get(n))
        bad_names = sorted(n for n in names | stores if n in protects)
        ok = not bad_store and not bad_names
        self.obls.append(Obligation('%s/abstract[%s]/frame' % (self.c.name, key[:40]), [], z3.BoolVal(ok), kind='frame'))
        self.abstracted.append({'function': self.c.name, 'block': key[:80], 'havocked': sorted(names | stores),
                                'mutated_in_place': sorted(stores), 'fresh_inside': sorted(fresh_inside)})
        s2 = st.fork()
        for nm in sorted(names | stores):
            sort = spec.get('sorts', {}).get(nm)
            if sort == 'bool':
                s2.env[nm] = fresh('ab_' + nm, BOOL)
            elif sort == 'int':
                s2.env[nm] = fresh('ab_' + nm, INT)
            elif sort == 'real':
                s2.env[nm] = fresh('ab_' + nm, REAL)
            elif sort and sort.startswith('mat'):
                nn = self.ev_str(sort.split(':')[1], s2)
                s2.env[nm] = alloc(s2, 2, fresh('ab_' + nm, A2R), (nn, nn), REAL)
            else:
                v = s2.env.get(nm)
                if is_z3(v):
                    s2.env[nm] = fresh('ab_' + nm, v.sort())
                elif isinstance(v, bool):
                    s2.env[nm] = fresh('ab_' + nm, BOOL)
                else:
                    # bound to an unknown value: it can be passed on (returned, assigned), any other use is outside the subset.
                    # (Leaving the name unbound would make a later read look like the program's own UnboundLocalError.)
                    s2.env[nm] = Opaque('havoc', name=nm)
        for clause in spec.get('assume', ()):
            s2.pc.append(truth(self.ev_str(clause, s2)))
        return [(s2, 'fall')]

    def fresh_alloc_names(self, stmts):
        FRESH_CALLS = {'np.zeros', 'np.ones', 'np.array', 'np.eye', 'np.tile', 'np.append', 'np.where', 'np.mod', 'np.arange', 'np.logical_not', 'np.any'}
        out = set()

        class V(ast.NodeVisitor):
            def visit_Assign(s, n):
                v = n.value
                ok = False
                if isinstance(v, ast.Call):
                    fn = ast.unparse(v.func)
                    if fn in FRESH_CALLS or fn.endswith('.copy'):
                        ok = True
                if isinstance(v, (ast.BinOp, ast.UnaryOp)):
                    ok = True         # numpy arithmetic always allocates its result
                if isinstance(v, ast.Constant):
                    ok = True         # a scalar: `it = 0; it += 1` re-binds the name, nothing is shared
                if ok:
                    for t in n.targets:
                        if isinstance(t, ast.Name):
                            out.add(t.id)
                s.generic_visit(n)
        for s_ in stmts:
            V().visit(s_)
        return out

    # ---- driver ------------------------------------------------------------------------------------
    def run(self):
        st = State()
        if self.c.setup:
            self.c.setup(self, st)
        else:
            raise ContractError('contract has no setup')
        self.entry = st.fork()
        for name, src in self.c.requires:
            st.pc.append(truth(self.ev_str(src, st)))
        body = self.fd.body
        if body and isinstance(body[0], ast.Expr) and isinstance(body[0].value, ast.Constant) and isinstance(body[0].value.value, str):
            body = body[1:]
        if getattr(self.c, 'fragment', None):
            # verify a contiguous run of statements of one block (e.g. one hierarchy level of a Louvain routine) from an
            # arbitrary state described by the contract's setup + requires (those are ASSUMPTIONS about the fragment's entry)
            k0, k1 = self.c.fragment
            found = None
            for node in ast.walk(self.fd):
                for field in ('body', 'orelse'):
                    lst = getattr(node, field, None)
                    if isinstance(lst, list):
                        keys = [self.stmt_ord.get(id(x), '') for x in lst]
                        plain = [self._key(x) if isinstance(x, ast.stmt) else '' for x in lst]
                        for i0, (a, b) in enumerate(zip(keys, plain)):
                            if k0 in (a, b):
                                for i1 in range(i0, len(lst)):
                                    if k1 in (keys[i1], plain[i1]):
                                        found = lst[i0:i1 + 1]
                                        break
                            if found:
                                break
                    if found:
                        break
                if found:
                    break
            if not found:
                raise ContractError('fragment %r .. %r not found in %s' % (k0, k1, self.c.name))
            body = found
        self.entry_premises = list(st.pc)
        self.canaries = []
        outs = self.block(body, st)
        nret = 0
        for s2, out in outs:
            if out == 'fall':
                out = ('return', None)
            if isinstance(out, tuple) and out[0] == 'return':
                nret += 1
                self.canaries.append(('return-path-r%d-reachable' % nret, list(s2.pc)))
                s2.ghost['_result'] = out[1]
                for name, src in self.c.ensures:
                    self.oblige(s2, 'ensures/%s/r%d' % (name, nret), truth(self.ev_str(src, s2)))
            elif isinstance(out, tuple) and out[0] == 'raise':
                s2.ghost['_raised'] = out[1].name if isinstance(out[1], ExcV) else 'Exception'
                for name, src in self.c.ensures_raises:
                    self.oblige(s2, 'raises/%s/x%d' % (name, nret), truth(self.ev_str(src, s2)))
            else:
                raise OutOfSubset('loop control outside loop')
        if self.c.ensures and nret == 0 and self.c.stop_at is None and not getattr(self, 'stopped', False):
            # vacuity guard: postconditions are stated but no path returns normally, so none of them would ever be checked
            self.obls.append(Obligation('%s/ensures/NO-NORMAL-RETURN-PATH' % self.c.key, [], z3.BoolVal(False), kind='vc'))
        # every contract element must have been bound
        missing = [k for k in self.c.loops if k not in self.used_loops and ('#' in k or k.split('#')[0] not in self.used_loops)]
        missing += [k for k in self.c.abstract if k not in self.used_abstract]
        missing += ['use_fragment:' + k for k, sp in self.c.use_fragments.items() if sp['contract'].key not in getattr(self, 'used_fragments', set())]
        missing += [k for k in list(self.c.ghost_after) + list(self.c.assume_after) if ('after', k) not in self.used_ghost]
        missing += [k for k in self.c.ghost_before if ('before', k) not in self.used_ghost]
        if self.c.stop_at is not None and not getattr(self, 'stopped', False):
            missing.append('stop_at:' + self.c.stop_at)
        if missing:
            raise ContractError('contract elements of %s did not bind to the code: %s' % (self.c.name, missing))
        return self.obls


class _NoMerge(Exception):
    pass


class Fork:
    """value-level fork: list of (condition, value, exception)."""

    def __init__(self, branches):
        self.branches = branches


# --------------------------------------------------------------------------------------------------------------------
# spec-language builtins usable in contract clauses
def _sb_forall(eng, st, node):
    lam = node.args[0]
    if not isinstance(lam, ast.Lambda):
        raise ContractError('forall needs a lambda')
    names = [a.arg for a in lam.args.args]
    vs = [fresh('q_' + n, REAL if n.startswith('real_') else INT) for n in names]      # bound variables named real_* range over the reals
    saved = {n: st.ghost.get(n) for n in names}
    for n, v in zip(names, vs):
        st.ghost[n] = v
    shadow = {n: st.env.pop(n) for n in names if n in st.env}
    pats = None
    if not hasattr(eng, 'bound_stack'):
        eng.bound_stack = []
    eng.bound_stack.append(vs)
    try:
        body = truth(eng.ev(lam.body, st))
        for kw in node.keywords:
            if kw.arg == 'pattern':
                pv = eng.ev(kw.value, st)
                pv = list(pv) if isinstance(pv, (tuple, list)) else [pv]
                pats = [z3.MultiPattern(*[to_z3(t) for t in pv])] if len(pv) > 1 else [to_z3(pv[0])]
    finally:
        eng.bound_stack.pop()
        for n in names:
            if saved[n] is None:
                st.ghost.pop(n, None)
            else:
                st.ghost[n] = saved[n]
        st.env.update(shadow)
    if pats is not None:
        try:
            return z3.ForAll(vs, body, patterns=pats)
        except z3.Z3Exception:
            pass        # e.g. the pattern contains a lambda term: let the solver infer patterns
    return z3.ForAll(vs, body)


def _sb_exists(eng, st, node):
    lam = node.args[0]
    if not isinstance(lam, ast.Lambda):
        raise ContractError('exists needs a lambda')
    names = [a.arg for a in lam.args.args]
    vs = [fresh('e_' + n, INT) for n in names]
    saved = {n: st.ghost.get(n) for n in names}
    for n, v in zip(names, vs):
        st.ghost[n] = v
    shadow = {n: st.env.pop(n) for n in names if n in st.env}
    if not hasattr(eng, 'bound_stack'):
        eng.bound_stack = []
    eng.bound_stack.append(vs)
    try:
        body = truth(eng.ev(lam.body, st))
    finally:
        eng.bound_stack.pop()
        for n in names:
            if saved[n] is None:
                st.ghost.pop(n, None)
            else:
                st.ghost[n] = saved[n]
        st.env.update(shadow)
    return z3.Exists(vs, body)


def _sb_implies(eng, st, node):
    a = truth(eng.ev(node.args[0], st))
    if z3.is_false(z3.simplify(a)):
        return z3.BoolVal(True)          # antecedent concretely false: the consequent is not evaluated (it may be ill-typed there)
    return z3.Implies(a, truth(eng.ev(node.args[1], st)))


def _sb_iff(eng, st, node):
    a, b = [truth(eng.ev(x, st)) for x in node.args]
    return a == b


def _sb_And(eng, st, node):
    return z3.And(*[truth(eng.ev(x, st)) for x in node.args])


def _sb_Or(eng, st, node):
    return z3.Or(*[truth(eng.ev(x, st)) for x in node.args])


def _sb_inr(eng, st, node):
    v = to_z3(eng.ev(node.args[0], st), INT)
    hi = to_z3(eng.ev(node.args[1], st), INT)
    return z3.And(v >= 0, v < hi)


def _sb_arg(eng, st, node):
    """arg('R'): the value of parameter R at function entry (objects: their entry-time contents)."""
    nm = node.args[0].value
    sa = st.ghost.get('_stub_args')
    if sa is not None:
        # inside a callee stub generated from contract clauses: the callee's parameter at ITS entry = the actual argument at the call
        v = sa[nm]
        return Opaque('snapshot', obj=st.heap[v.oid]) if isinstance(v, Ref) else v
    v = eng.entry.env[nm]
    if isinstance(v, Ref):
        o = eng.entry.heap[v.oid]
        return Opaque('snapshot', obj=o)
    return v


def _term2(eng, st, v):
    if isinstance(v, Opaque) and v.kind == 'snapshot':
        return eng.pure(v.obj.term)
    if isinstance(v, Ref):
        return eng.pure(st.heap[v.oid].term)
    if isinstance(v, Mat):
        return eng.pure(st.heap[eng.np.materialise(eng, st, v).oid].term)
    raise ContractError('matrix expected, got %r' % (v,))


def _mk_specfn(fn, nidx):
    def sb(eng, st, node):
        M = _term2(eng, st, eng.ev(node.args[0], st))
        rest = [to_z3(eng.ev(a, st), INT) for a in node.args[1:]]
        return fn(M, *rest)
    return sb


def _sb_dot2(eng, st, node):
    D = _term2(eng, st, eng.ev(node.args[0], st))
    R = _term2(eng, st, eng.ev(node.args[1], st))
    return dot2(D, R, to_z3(eng.ev(node.args[2], st), INT))


def _sb_isperm(eng, st, node):
    v = eng.ev(node.args[0], st)
    t = eng.pure(v.obj.term if isinstance(v, Opaque) else st.heap[v.oid].term)
    return isperm(t, to_z3(eng.ev(node.args[1], st), INT))


def _sb_snapshot(eng, st, node):
    v = eng.ev(node.args[0], st)
    if isinstance(v, Ref):
        return Opaque('snapshot', obj=st.heap[v.oid].clone())
    return v


def _sb_argref(eng, st, node):
    return eng.entry.env[node.args[0].value]


def _sb_lam1(eng, st, node):
    """lam1(lambda q: expr, n): the 1-D array (length n) whose q-th entry is expr."""
    lam = node.args[0]
    nm = lam.args.args[0].arg
    n = eng.ev(node.args[1], st)

    def fn(q):
        saved = st.ghost.get(nm)
        shadow = st.env.pop(nm, None)
        st.ghost[nm] = q
        try:
            return eng.ev(lam.body, st)
        finally:
            if saved is None:
                st.ghost.pop(nm, None)
            else:
                st.ghost[nm] = saved
            if shadow is not None:
                st.env[nm] = shadow
    probe = fn(z3.Int('q!probe'))
    srt = BOOL if (isinstance(probe, bool) or (is_z3(probe) and probe.sort() == BOOL)) else (REAL if (is_z3(probe) and probe.sort() == REAL) or isinstance(probe, float) else INT)
    return eng.np.materialise(eng, st, Row(n, (lambda q: truth(fn(q))) if srt == BOOL else fn, srt))


def _sb_lam2(eng, st, node):
    """lam2(lambda a, b: expr, m): the m x m real matrix whose (a, b) entry is expr."""
    lam = node.args[0]
    na, nb = lam.args.args[0].arg, lam.args.args[1].arg
    m = eng.ev(node.args[1], st)

    def fn(a, b):
        saved = {k: st.ghost.get(k) for k in (na, nb)}
        shadow = {k: st.env.pop(k) for k in (na, nb) if k in st.env}
        st.ghost[na], st.ghost[nb] = a, b
        try:
            return eng.ev(lam.body, st)
        finally:
            for k in (na, nb):
                if saved[k] is None:
                    st.ghost.pop(k, None)
                else:
                    st.ghost[k] = saved[k]
            st.env.update(shadow)
    return eng.np.materialise(eng, st, Mat((m, m), fn, REAL))


def _sb_unique_witness(eng, st, node):
    """unique_witness(t): a position whose rank under the most recent np.unique(..., return_inverse=True) is t."""
    wit = st.ghost.get('unique_witness_last')
    if wit is None:
        raise ContractError('no np.unique call seen')
    return wit(to_z3(eng.ev(node.args[0], st), INT))


def _term1r(eng, st, v):
    if isinstance(v, Row):
        v = eng.np.materialise(eng, st, v)
    if isinstance(v, Ref):
        return eng.pure(st.heap[v.oid].term)
    if isinstance(v, Opaque) and v.kind == 'snapshot':
        return eng.pure(v.obj.term)
    raise ContractError('1-D real array expected, got %r' % (v,))


def _term1b(eng, st, v):
    if isinstance(v, Ref):
        return eng.pure(st.heap[v.oid].term)
    if isinstance(v, Row):
        return eng.pure(st.heap[eng.np.materialise(eng, st, v).oid].term)
    if isinstance(v, Opaque) and v.kind == 'snapshot':
        return eng.pure(v.obj.term)
    raise ContractError('1-D array expected, got %r' % (v,))


def _sb_dset(fn):
    def sb(eng, st, node):
        M = _term2(eng, st, eng.ev(node.args[0], st))
        P = _term1b(eng, st, eng.ev(node.args[1], st))
        return fn(M, P, to_z3(eng.ev(node.args[2], st), INT), to_z3(eng.ev(node.args[3], st), INT))
    return sb


def _sb_cntb(eng, st, node):
    return cntb(_term1b(eng, st, eng.ev(node.args[0], st)), to_z3(eng.ev(node.args[1], st), INT))


def _masked(C, A, M, n):
    x, y = z3.Ints('x!l y!l')
    return z3.ForAll([x, y], z3.Implies(z3.And(x >= 0, x < n, y >= 0, y < n),
                                        z3.Select(z3.Select(C, x), y) == z3.If(z3.And(z3.Select(A, x), z3.Select(A, y)), z3.Select(z3.Select(M, x), y), 0)))


def _sb_lemma_masked_degree(eng, st, node):
    """LEMMA (code-independent, Lean: masked_degree): if C is M with the rows and columns outside A zeroed then, for every
    node v, the column count / row count / column sum of C at v is that of M restricted to A if v is in A, and 0 otherwise."""
    C = _term2(eng, st, eng.ev(node.args[0], st))
    A = _term1b(eng, st, eng.ev(node.args[1], st))
    M = _term2(eng, st, eng.ev(node.args[2], st))
    n = to_z3(eng.ev(node.args[3], st), INT)
    v = z3.Int('v!l')
    concl = z3.ForAll([v], z3.Implies(z3.And(v >= 0, v < n), z3.And(
        ccnt(C, v, n) == z3.If(z3.Select(A, v), dset(M, A, v, n), 0),
        cnt1(z3.Select(C, v), n) == z3.If(z3.Select(A, v), rset(M, A, v, n), 0),
        csum(C, v, n) == z3.If(z3.Select(A, v), wset(M, A, v, n), 0))),
        patterns=[ccnt(C, v, n), cnt1(z3.Select(C, v), n), csum(C, v, n)])
    return z3.Implies(_masked(C, A, M, n), concl)


def _sb_lemma_degree_monotone(eng, st, node):
    """LEMMA (Lean: restricted_degree_mono): P subset Q => the degree restricted to P is at most the degree restricted to Q
    (counts; and sums when all weights are non-negative)."""
    M = _term2(eng, st, eng.ev(node.args[0], st))
    P = _term1b(eng, st, eng.ev(node.args[1], st))
    Q = _term1b(eng, st, eng.ev(node.args[2], st))
    n = to_z3(eng.ev(node.args[3], st), INT)
    u, v = z3.Ints('u!l v!l')
    x, y = z3.Ints('x!l y!l')
    sub = z3.ForAll([u], z3.Implies(z3.And(u >= 0, u < n, z3.Select(P, u)), z3.Select(Q, u)))
    nonneg = z3.ForAll([x, y], z3.Implies(z3.And(x >= 0, x < n, y >= 0, y < n), z3.Select(z3.Select(M, x), y) >= 0))
    concl = z3.ForAll([v], z3.Implies(z3.And(v >= 0, v < n), z3.And(dset(M, P, v, n) <= dset(M, Q, v, n), rset(M, P, v, n) <= rset(M, Q, v, n),
                                                                      z3.Implies(nonneg, wset(M, P, v, n) <= wset(M, Q, v, n)))),
                      patterns=[dset(M, P, v, n), rset(M, P, v, n), wset(M, P, v, n)])
    return z3.Implies(sub, concl)


def _sb_member(eng, st, node):
    """member(ff, q): q occurs in the index array ff (for the result of np.where(mask): q in range and mask[q])."""
    v = eng.ev(node.args[0], st)
    q = to_z3(eng.ev(node.args[1], st), INT)
    o = st.heap[v.oid]
    wc, wn = o.meta.get('where_cond1'), o.meta.get('where_n')
    if wc is not None:
        return z3.And(q >= 0, q < to_z3(wn, INT), truth(wc(q)))
    t = z3.Int('t!mem')
    return z3.Exists([t], z3.And(t >= 0, t < to_z3(o.shape[0], INT), z3.Select(o.term, t) == q))


def _term1i(eng, st, v):
    if isinstance(v, Ref):
        return eng.pure(st.heap[v.oid].term)
    if isinstance(v, Opaque) and v.kind == 'snapshot':
        return eng.pure(v.obj.term)
    if isinstance(v, Row):
        return eng.pure(st.heap[eng.np.materialise(eng, st, v).oid].term)
    raise ContractError('1-D int array expected, got %r' % (v,))


def _mk_mod(fn, nint):
    def sb(eng, st, node):
        M = _term2(eng, st, eng.ev(node.args[0], st))
        c = _term1i(eng, st, eng.ev(node.args[1], st))
        rest = [to_z3(eng.ev(a, st), INT) for a in node.args[2:]]
        return fn(M, c, *rest)
    return sb


def _sb_Qmod(eng, st, node):
    M = _term2(eng, st, eng.ev(node.args[0], st))
    c = _term1i(eng, st, eng.ev(node.args[1], st))
    return Qmod(M, c, to_z3(eng.ev(node.args[2], st), REAL), to_z3(eng.ev(node.args[3], st), INT))


def _sb_lemma_modularity(eng, st, node):
    """Code-independent facts about node-to-module sums, module degrees, the aggregated matrix and modularity (Lean: modsum_empty, modsumT_empty, degsum_empty, degsumT_empty, knm_row_total, knm_col_total, agg_symm; table in engine/lean/README.md),
    instantiated for the given network W, label vector ci and size n.  Returned as one conjunction of implications.
      total:   labels in 1..n            => sum_m modsum(W,ci,x,m) = rowsum(W,x), sum_m modsumT(W,ci,x,m) = colsum(W,x)
      column:  sum_x modsum(W,ci,x,m) = degsumT(W,ci,m)  and  sum_x modsumT(W,ci,x,m) = degsum(W,ci,m)
      empty:   no node carries label m+1 => modsum = modsumT = 0 for every node, degsum = degsumT = 0
      symm:    W symmetric               => modsumT = modsum, degsumT = degsum, colsum = rowsum, agg(a,b) = agg(b,a)
    The statements about `knm`-like matrices are phrased for an arbitrary matrix K that agrees with modsum cell by cell."""
    W = _term2(eng, st, eng.ev(node.args[0], st))
    c = _term1i(eng, st, eng.ev(node.args[1], st))
    n = to_z3(eng.ev(node.args[2], st), INT)
    x, y, m, a, b = z3.Ints('x!m y!m m!m a!m b!m')
    inx, iny, inm = z3.And(x >= 0, x < n), z3.And(y >= 0, y < n), z3.And(m >= 0, m < n)
    sym = z3.ForAll([x, y], z3.Implies(z3.And(inx, iny), z3.Select(z3.Select(W, x), y) == z3.Select(z3.Select(W, y), x)))
    out = []
    single = z3.ForAll([y], z3.Implies(iny, z3.Select(c, y) == y + 1))
    out.append(z3.Implies(single, z3.And(
        z3.ForAll([x, m], z3.Implies(z3.And(inx, inm), modsum(W, c, x, m, n) == z3.Select(z3.Select(W, x), m)), patterns=[modsum(W, c, x, m, n)]),
        z3.ForAll([x, m], z3.Implies(z3.And(inx, inm), modsumT(W, c, x, m, n) == z3.Select(z3.Select(W, m), x)), patterns=[modsumT(W, c, x, m, n)]),
        z3.ForAll([m], z3.Implies(inm, degsum(W, c, m, n) == sum1(z3.Select(W, m), n)), patterns=[degsum(W, c, m, n)]),
        z3.ForAll([m], z3.Implies(inm, degsumT(W, c, m, n) == csum(W, m, n)), patterns=[degsumT(W, c, m, n)]))))
    nolabel = z3.ForAll([y], z3.Implies(iny, z3.Select(c, y) != m + 1))
    out.append(z3.ForAll([x, m], z3.Implies(nolabel, modsum(W, c, x, m, n) == 0), patterns=[modsum(W, c, x, m, n)]))
    out.append(z3.ForAll([x, m], z3.Implies(nolabel, modsumT(W, c, x, m, n) == 0), patterns=[modsumT(W, c, x, m, n)]))
    out.append(z3.ForAll([m], z3.Implies(nolabel, degsum(W, c, m, n) == 0), patterns=[degsum(W, c, m, n)]))
    out.append(z3.ForAll([m], z3.Implies(nolabel, degsumT(W, c, m, n) == 0), patterns=[degsumT(W, c, m, n)]))
    out.append(z3.Implies(sym, z3.And(
        z3.ForAll([x, m], z3.Implies(inx, modsumT(W, c, x, m, n) == modsum(W, c, x, m, n)), patterns=[modsumT(W, c, x, m, n)]),
        z3.ForAll([m], degsumT(W, c, m, n) == degsum(W, c, m, n), patterns=[degsumT(W, c, m, n)]),
        z3.ForAll([x], z3.Implies(inx, csum(W, x, n) == sum1(z3.Select(W, x), n)), patterns=[csum(W, x, n)]),
        z3.ForAll([a, b], agg(W, c, a, b, n) == agg(W, c, b, a, n), patterns=[agg(W, c, a, b, n)]))))
    return z3.And(*out)


def _sb_lemma_knm_sums(eng, st, node):
    """LEMMA (Lean: knm_row_total, knm_col_total): if K agrees cell by cell with the node-to-module sums of (W, ci) and all
    labels lie in 1..n, then the row sums of K are the row sums of W and the column sums of K are the module in-degrees;
    the transposed statement for node-to-module sums of incoming weight.  lemma_knm_sums(K, W, ci, n, 'out'|'in')."""
    K = _term2(eng, st, eng.ev(node.args[0], st))
    W = _term2(eng, st, eng.ev(node.args[1], st))
    c = _term1i(eng, st, eng.ev(node.args[2], st))
    n = to_z3(eng.ev(node.args[3], st), INT)
    kind = node.args[4].value if len(node.args) > 4 else 'out'
    x, m, y = z3.Ints('x!k m!k y!k')
    inx, inm = z3.And(x >= 0, x < n), z3.And(m >= 0, m < n)
    f = modsum if kind == 'out' else modsumT
    hyp = z3.And(z3.ForAll([x, m], z3.Implies(z3.And(inx, inm), z3.Select(z3.Select(K, x), m) == f(W, c, x, m, n))),
                 z3.ForAll([y], z3.Implies(z3.And(y >= 0, y < n), z3.And(z3.Select(c, y) >= 1, z3.Select(c, y) <= n))))
    rowtot = (lambda xx: sum1(z3.Select(W, xx), n)) if kind == 'out' else (lambda xx: csum(W, xx, n))
    coltot = (lambda mm: degsumT(W, c, mm, n)) if kind == 'out' else (lambda mm: degsum(W, c, mm, n))
    concl = z3.And(z3.ForAll([x], z3.Implies(inx, sum1(z3.Select(K, x), n) == rowtot(x)), patterns=[sum1(z3.Select(K, x), n)]),
                   z3.ForAll([m], z3.Implies(inm, csum(K, m, n) == coltot(m)), patterns=[csum(K, m, n)]))
    return z3.Implies(hyp, concl)


def _sb_lemma_relabel(eng, st, node):
    """LEMMA (Lean: Q_relabel): modularity depends on the labels only through the equality pattern.
    lemma_relabel(W, c1, c2, gamma, n): (forall y,z<n: c1[y]==c1[z] <-> c2[y]==c2[z]) => Q(W,c1) == Q(W,c2)."""
    W = _term2(eng, st, eng.ev(node.args[0], st))
    c1 = _term1i(eng, st, eng.ev(node.args[1], st))
    c2 = _term1i(eng, st, eng.ev(node.args[2], st))
    g = to_z3(eng.ev(node.args[3], st), REAL)
    n = to_z3(eng.ev(node.args[4], st), INT)
    y, zz = z3.Ints('y!r z!r')
    hyp = z3.ForAll([y, zz], z3.Implies(z3.And(y >= 0, y < n, zz >= 0, zz < n), (z3.Select(c1, y) == z3.Select(c1, zz)) == (z3.Select(c2, y) == z3.Select(c2, zz))))
    return z3.Implies(hyp, Qmod(W, c1, g, n) == Qmod(W, c2, g, n))


def _sb_lemma_agg_compose(eng, st, node):
    """LEMMA (Lean: agg_compose_smt = agg_comp + tot_agg + Q_agg_comp): aggregation composes.
    lemma_agg_compose(W0, cur, Wl, p, new, gamma, N0, n): if Wl is the n x n aggregate of W0 under the labels cur (1..n) and
    new[x] == p[cur[x]-1] for every original node x, then the aggregate of Wl under p is the aggregate of W0 under new (cell by
    cell, for every pair of 0-based labels), both matrices have the same total, and Q(Wl, p) == Q(W0, new)."""
    W0 = _term2(eng, st, eng.ev(node.args[0], st))
    cur = _term1i(eng, st, eng.ev(node.args[1], st))
    Wl = _term2(eng, st, eng.ev(node.args[2], st))
    p_ = _term1i(eng, st, eng.ev(node.args[3], st))
    new = _term1i(eng, st, eng.ev(node.args[4], st))
    g = to_z3(eng.ev(node.args[5], st), REAL)
    N0 = to_z3(eng.ev(node.args[6], st), INT)
    n = to_z3(eng.ev(node.args[7], st), INT)
    a, b, x = z3.Ints('a!c b!c x!c')
    hyp = z3.And(z3.ForAll([a, b], z3.Implies(z3.And(a >= 0, a < n, b >= 0, b < n), z3.Select(z3.Select(Wl, a), b) == agg(W0, cur, a, b, N0))),
                 z3.ForAll([x], z3.Implies(z3.And(x >= 0, x < N0), z3.And(z3.Select(cur, x) >= 1, z3.Select(cur, x) <= n,
                                                                          z3.Select(new, x) == z3.Select(p_, z3.Select(cur, x) - 1)))))
    concl = z3.And(z3.ForAll([a, b], agg(Wl, p_, a, b, n) == agg(W0, new, a, b, N0), patterns=[agg(Wl, p_, a, b, n)]),
                   tsum(Wl, n) == tsum(W0, N0), Qmod(Wl, p_, g, n) == Qmod(W0, new, g, N0))
    return z3.Implies(hyp, concl)


def _sb_lemma_agg_compose_g(eng, st, node):
    """LEMMA (Lean: agg_compose_g_smt = agg_comp + Qrawg_agg_comp): aggregation composes, explicit-divisor quality.
    lemma_agg_compose_g(W0, cur, Wl, p, new, gamma, sd, N0, n): hypotheses as lemma_agg_compose; conclusion: the aggregate of Wl under p is the
    aggregate of W0 under new, and Qrawg(Wl, p, gamma, sd) == Qrawg(W0, new, gamma, sd) for the given divisor sd."""
    W0 = _term2(eng, st, eng.ev(node.args[0], st))
    cur = _term1i(eng, st, eng.ev(node.args[1], st))
    Wl = _term2(eng, st, eng.ev(node.args[2], st))
    p_ = _term1i(eng, st, eng.ev(node.args[3], st))
    new = _term1i(eng, st, eng.ev(node.args[4], st))
    g = to_z3(eng.ev(node.args[5], st), REAL)
    sd = to_z3(eng.ev(node.args[6], st), REAL)
    N0 = to_z3(eng.ev(node.args[7], st), INT)
    n = to_z3(eng.ev(node.args[8], st), INT)
    a, b, x = z3.Ints('a!c b!c x!c')
    hyp = z3.And(z3.ForAll([a, b], z3.Implies(z3.And(a >= 0, a < n, b >= 0, b < n), z3.Select(z3.Select(Wl, a), b) == agg(W0, cur, a, b, N0))),
                 z3.ForAll([x], z3.Implies(z3.And(x >= 0, x < N0), z3.And(z3.Select(cur, x) >= 1, z3.Select(cur, x) <= n,
                                                                          z3.Select(new, x) == z3.Select(p_, z3.Select(cur, x) - 1)))))
    concl = z3.And(z3.ForAll([a, b], agg(Wl, p_, a, b, n) == agg(W0, new, a, b, N0), patterns=[agg(Wl, p_, a, b, n)]),
                   Qrawg(Wl, p_, g, sd, n) == Qrawg(W0, new, g, sd, N0))
    return z3.Implies(hyp, concl)


def _sb_lemma_qg_from_aggregate(eng, st, node):
    """LEMMA (Lean: qg_from_aggregate_smt): if w is the m x m aggregate of W under labels c (1..m) then
    trace(w) - (gamma * sum(w.w)) / sd is the un-normalised quality Qrawg(W, c, gamma, sd).  lemma_qg_from_aggregate(w, W, c, gamma, sd, m, n)."""
    w = _term2(eng, st, eng.ev(node.args[0], st))
    W = _term2(eng, st, eng.ev(node.args[1], st))
    c = _term1i(eng, st, eng.ev(node.args[2], st))
    g = to_z3(eng.ev(node.args[3], st), REAL)
    sd = to_z3(eng.ev(node.args[4], st), REAL)
    m = to_z3(eng.ev(node.args[5], st), INT)
    n = to_z3(eng.ev(node.args[6], st), INT)
    a, b, y = z3.Ints('a!q b!q y!q')
    hyp = z3.And(z3.ForAll([a, b], z3.Implies(z3.And(a >= 0, a < m, b >= 0, b < m), z3.Select(z3.Select(w, a), b) == agg(W, c, a, b, n))),
                 z3.ForAll([y], z3.Implies(z3.And(y >= 0, y < n), z3.And(z3.Select(c, y) >= 1, z3.Select(c, y) <= m))))
    return z3.Implies(hyp, trace1(w, m) - udiv(umul(g, sumdot(w, w, m)), sd) == Qrawg(W, c, g, sd, n))


def _sb_lemma_Qrawg_def(eng, st, node):
    """LEMMA (Lean: Qrawg_def_sum_symm, the definition of Qrawg unfolded for a symmetric matrix): if K[x][y] is the kernel
    W[x][y] - (gamma * (k[x] * k[y])) / sd on same-label pairs and 0 elsewhere, with k the row sums of the symmetric W, then the sum of K is
    Qrawg(W, c, gamma, sd).  lemma_Qrawg_def(K, W, c, k, gamma, sd, n); products / quotients in the arithmetic mode of the contract."""
    K = _term2(eng, st, eng.ev(node.args[0], st))
    Wv = eng.ev(node.args[1], st)
    W = _term2(eng, st, Wv)
    c = _term1i(eng, st, eng.ev(node.args[2], st))
    kv = eng.ev(node.args[3], st)
    kt = eng.pure(st.heap[kv.oid].term if isinstance(kv, Ref) else st.heap[eng.np.materialise(eng, st, kv).oid].term)
    g = to_z3(eng.ev(node.args[4], st), REAL)
    sd = to_z3(eng.ev(node.args[5], st), REAL)
    n = to_z3(eng.ev(node.args[6], st), INT)
    x, y = z3.Ints('x!qd y!qd')
    inxy = z3.And(x >= 0, x < n, y >= 0, y < n)
    prod = eng.binop(ast.Mult(), z3.Select(kt, x), z3.Select(kt, y), st)
    kern = z3.Select(z3.Select(W, x), y) - to_z3(eng.binop(ast.Div(), eng.binop(ast.Mult(), g, prod, st), sd, st), REAL)
    hyp = z3.And(z3.ForAll([x, y], z3.Implies(inxy, z3.Select(z3.Select(W, x), y) == z3.Select(z3.Select(W, y), x))),
                 z3.ForAll([x], z3.Implies(z3.And(x >= 0, x < n), z3.Select(kt, x) == sum1(z3.Select(W, x), n))),
                 z3.ForAll([x, y], z3.Implies(inxy, z3.Select(z3.Select(K, x), y) == z3.If(z3.Select(c, x) == z3.Select(c, y), kern, z3.RealVal(0)))))
    return z3.Implies(hyp, tsum(K, n) == Qrawg(W, c, g, sd, n))


def _sb_lemma_QrawB_def(eng, st, node):
    """DEFINITION (Lean: Q_eq_Qraw for the shape of Qraw, which is this double sum by rfl): K[x][y] == (B[x][y] if c[x] == c[y] else 0) for all cells => tsum(K) == QrawB(B, c).  lemma_QrawB_def(K, B, c, n)."""
    K = _term2(eng, st, eng.ev(node.args[0], st))
    B = _term2(eng, st, eng.ev(node.args[1], st))
    c = _term1i(eng, st, eng.ev(node.args[2], st))
    n = to_z3(eng.ev(node.args[3], st), INT)
    x, y = z3.Ints('x!bd y!bd')
    hyp = z3.ForAll([x, y], z3.Implies(z3.And(x >= 0, x < n, y >= 0, y < n), z3.Select(z3.Select(K, x), y) == z3.If(z3.Select(c, x) == z3.Select(c, y), z3.Select(z3.Select(B, x), y), z3.RealVal(0))))
    return z3.Implies(hyp, tsum(K, n) == QrawB(B, c, n))


def _sb_lemma_trace_agg(eng, st, node):
    """LEMMA (Lean: trace_agg): the trace of the module-by-module aggregate is the within-module total.
    lemma_trace_agg(w, B, c, m, n): w[a][b] == agg(B, c, a, b, n) (a, b < m), labels in 1..m  =>  trace(w) == QrawB(B, c, n)."""
    w = _term2(eng, st, eng.ev(node.args[0], st))
    B = _term2(eng, st, eng.ev(node.args[1], st))
    c = _term1i(eng, st, eng.ev(node.args[2], st))
    m = to_z3(eng.ev(node.args[3], st), INT)
    n = to_z3(eng.ev(node.args[4], st), INT)
    a, b, y = z3.Ints('a!ta b!ta y!ta')
    hyp = z3.And(z3.ForAll([a, b], z3.Implies(z3.And(a >= 0, a < m, b >= 0, b < m), z3.Select(z3.Select(w, a), b) == agg(B, c, a, b, n))),
                 z3.ForAll([y], z3.Implies(z3.And(y >= 0, y < n), z3.And(z3.Select(c, y) >= 1, z3.Select(c, y) <= m))))
    return z3.Implies(hyp, trace1(w, m) == QrawB(B, c, n))


def _sb_lemma_relabel_B(eng, st, node):
    """LEMMA (Lean: Qraw_relabel): QrawB depends on the labels only through the equality pattern.  lemma_relabel_B(B, c1, c2, n)."""
    B = _term2(eng, st, eng.ev(node.args[0], st))
    c1 = _term1i(eng, st, eng.ev(node.args[1], st))
    c2 = _term1i(eng, st, eng.ev(node.args[2], st))
    n = to_z3(eng.ev(node.args[3], st), INT)
    y, zz = z3.Ints('y!r z!r')
    hyp = z3.ForAll([y, zz], z3.Implies(z3.And(y >= 0, y < n, zz >= 0, zz < n), (z3.Select(c1, y) == z3.Select(c1, zz)) == (z3.Select(c2, y) == z3.Select(c2, zz))))
    return z3.Implies(hyp, QrawB(B, c1, n) == QrawB(B, c2, n))


def _sb_lemma_agg_compose_B(eng, st, node):
    """LEMMA (Lean: agg_comp + Qraw_agg_comp): aggregation composes, arbitrary kernel.  lemma_agg_compose_B(B0, cur, Bl, p, new, N0, n):
    hypotheses as lemma_agg_compose; conclusion: agg(Bl, p) == agg(B0, new) cell by cell and QrawB(Bl, p) == QrawB(B0, new)."""
    B0 = _term2(eng, st, eng.ev(node.args[0], st))
    cur = _term1i(eng, st, eng.ev(node.args[1], st))
    Bl = _term2(eng, st, eng.ev(node.args[2], st))
    p_ = _term1i(eng, st, eng.ev(node.args[3], st))
    new = _term1i(eng, st, eng.ev(node.args[4], st))
    N0 = to_z3(eng.ev(node.args[5], st), INT)
    n = to_z3(eng.ev(node.args[6], st), INT)
    a, b, x = z3.Ints('a!c b!c x!c')
    hyp = z3.And(z3.ForAll([a, b], z3.Implies(z3.And(a >= 0, a < n, b >= 0, b < n), z3.Select(z3.Select(Bl, a), b) == agg(B0, cur, a, b, N0))),
                 z3.ForAll([x], z3.Implies(z3.And(x >= 0, x < N0), z3.And(z3.Select(cur, x) >= 1, z3.Select(cur, x) <= n,
                                                                          z3.Select(new, x) == z3.Select(p_, z3.Select(cur, x) - 1)))))
    concl = z3.And(z3.ForAll([a, b], agg(Bl, p_, a, b, n) == agg(B0, new, a, b, N0), patterns=[agg(Bl, p_, a, b, n)]),
                   QrawB(Bl, p_, n) == QrawB(B0, new, N0))
    return z3.Implies(hyp, concl)


def _sb_lemma_Q_from_kernel(eng, st, node):
    """LEMMA (Lean: Q_from_symmetrised_kernel): if Bo is the symmetrised modularity kernel of W, Bo[x][y] == (K[x][y] + K[y][x]) / 2 with
    K[x][y] = W[x][y] - (gamma * (rowsum(W, x) * colsum(W, y))) / s and s == tsum(W), then QrawB(Bo, c) / s == Qmod(W, c, gamma).
    lemma_Q_from_kernel(Bo, W, c, gamma, s, n); products / quotients in the arithmetic mode of the contract."""
    Bo = _term2(eng, st, eng.ev(node.args[0], st))
    W = _term2(eng, st, eng.ev(node.args[1], st))
    c = _term1i(eng, st, eng.ev(node.args[2], st))
    g = to_z3(eng.ev(node.args[3], st), REAL)
    s_ = to_z3(eng.ev(node.args[4], st), REAL)
    n = to_z3(eng.ev(node.args[5], st), INT)
    x, y = z3.Ints('x!qk y!qk')

    def K(a, b):
        prod = eng.binop(ast.Mult(), sum1(z3.Select(W, a), n), csum(W, b, n), st)
        return z3.Select(z3.Select(W, a), b) - to_z3(eng.binop(ast.Div(), eng.binop(ast.Mult(), g, prod, st), s_, st), REAL)
    hyp = z3.And(s_ == tsum(W, n),
                 z3.ForAll([x, y], z3.Implies(z3.And(x >= 0, x < n, y >= 0, y < n), z3.Select(z3.Select(Bo, x), y) == (K(x, y) + K(y, x)) / 2)))
    return z3.Implies(hyp, to_z3(eng.binop(ast.Div(), QrawB(Bo, c, n), s_, st), REAL) == Qmod(W, c, g, n))


def _sb_lemma_ext_B(eng, st, node):
    """EXTENSIONALITY (Lean: congruence; arrays are functions on the index type, so cellwise-equal matrices are equal): if B1 and B2 agree on
    every cell in range then QrawB, agg and modsum of them agree for the labels c.  lemma_ext_B(B1, B2, c, n)."""
    B1 = _term2(eng, st, eng.ev(node.args[0], st))
    B2 = _term2(eng, st, eng.ev(node.args[1], st))
    c = _term1i(eng, st, eng.ev(node.args[2], st))
    n = to_z3(eng.ev(node.args[3], st), INT)
    x, y, a, b = z3.Ints('x!eb y!eb a!eb b!eb')
    hyp = z3.ForAll([x, y], z3.Implies(z3.And(x >= 0, x < n, y >= 0, y < n), z3.Select(z3.Select(B1, x), y) == z3.Select(z3.Select(B2, x), y)))
    concl = z3.And(QrawB(B1, c, n) == QrawB(B2, c, n),
                   z3.ForAll([a, b], agg(B1, c, a, b, n) == agg(B2, c, a, b, n), patterns=[agg(B1, c, a, b, n)]),
                   z3.ForAll([x, a], z3.Implies(z3.And(x >= 0, x < n), modsum(B1, c, x, a, n) == modsum(B2, c, x, a, n)), patterns=[modsum(B1, c, x, a, n)]))
    return z3.Implies(hyp, concl)


def _alist(v):
    if not isinstance(v, AList):
        raise ContractError('list of integers expected')
    return v


def _sb_pathsum(eng, st, node):
    """pathsum(M, lst): the sum of M along the consecutive pairs of the node list lst."""
    M = _term2(eng, st, eng.ev(node.args[0], st))
    l_ = _alist(eng.ev(node.args[1], st))
    return pathsum(M, l_.term, to_z3(l_.length, INT))


def _sb_lemma_pathsum(eng, st, node):
    """DEFINITION (Lean: pathsum_one, pathsum_append): a one-node path has sum 0; appending node v to a path of k >= 1 nodes adds
    M[last][v] and leaves the sum of the first k nodes unchanged.  lemma_pathsum(M, before, v): `before` is the list before the append."""
    M = _term2(eng, st, eng.ev(node.args[0], st))
    l_ = _alist(eng.ev(node.args[1], st))
    v = to_z3(eng.ev(node.args[2], st), INT)
    p, k = l_.term, to_z3(l_.length, INT)
    return z3.And(pathsum(M, p, z3.IntVal(1)) == 0,
                  z3.Implies(k >= 1, pathsum(M, z3.Store(p, k, v), k + 1) == pathsum(M, p, k) + z3.Select(z3.Select(M, z3.Select(p, k - 1)), v)))


def _sb_lemma_pathsum_append(eng, st, node):
    """DEFINITION (Lean: pathsum_append), instantiated for the most recent `lst.append(v)` whatever its operand is: with p the list of k >= 1
    nodes before the append, pathsum(M, p ++ [v]) == pathsum(M, p) + M[p[k-1]][v].  lemma_pathsum_append(M)."""
    M = _term2(eng, st, eng.ev(node.args[0], st))
    last = st.ghost.get('_append_last')
    if last is None:
        raise ContractError('no append to a list of integers seen')
    l_, v = last
    p, k = l_.term, to_z3(l_.length, INT)
    return z3.Implies(k >= 1, pathsum(M, z3.Store(p, k, v), k + 1) == pathsum(M, p, k) + z3.Select(z3.Select(M, z3.Select(p, k - 1)), v))


def _sb_mpw(eng, st, node):
    """mpw(G, d): the d-th power of the matrix G (entry = number of walks of d connections for a 0/1 matrix)."""
    G = _term2(eng, st, eng.ev(node.args[0], st))
    return Opaque('snapshot', obj=Obj(2, mpw(G, to_z3(eng.ev(node.args[1], st), INT)), (st.ghost.get('n0'), st.ghost.get('n0')), REAL))


def _sb_mateq(eng, st, node):
    """mateq(A, B): A and B are the same matrix value (extensional equality of the array terms)."""
    return _term2(eng, st, eng.ev(node.args[0], st)) == _term2(eng, st, eng.ev(node.args[1], st))


def _sb_lemma_mpw(eng, st, node):
    """DEFINITION (Lean: mpw_one, mpw_succ, mpw_succ_left): mpw(G, 1) == G and
    mpw(G, d + 1) == mdot(mpw(G, d), G) == mdot(G, mpw(G, d)) for the given d >= 1.  lemma_mpw(G, d)."""
    G = _term2(eng, st, eng.ev(node.args[0], st))
    d = to_z3(eng.ev(node.args[1], st), INT)
    return z3.And(mpw(G, z3.IntVal(1)) == G, z3.Implies(d >= 1, z3.And(mpw(G, d + 1) == mdot(mpw(G, d), G), mpw(G, d + 1) == mdot(G, mpw(G, d)))))


def _sb_lemma_nonneg_sum_zero(eng, st, node):
    """LEMMA (Lean: colsum_zero_of_nonneg, rowsum_zero_of_nonneg): in an entrywise non-negative matrix a
    column (row) whose sum is 0 consists of zeros.  lemma_nonneg_sum_zero(M, n)."""
    M = _term2(eng, st, eng.ev(node.args[0], st))
    n = to_z3(eng.ev(node.args[1], st), INT)
    x, y = z3.Ints('x!nz y!nz')
    inxy = z3.And(x >= 0, x < n, y >= 0, y < n)
    m_ = lambda a, b: z3.Select(z3.Select(M, a), b)
    hyp = z3.ForAll([x, y], z3.Implies(inxy, m_(x, y) >= 0))
    return z3.Implies(hyp, z3.And(z3.ForAll([x, y], z3.Implies(z3.And(inxy, csum(M, y, n) == 0), m_(x, y) == 0), patterns=[z3.MultiPattern(csum(M, y, n), m_(x, y))]),
                                  z3.ForAll([x, y], z3.Implies(z3.And(inxy, sum1(z3.Select(M, x), n) == 0), m_(x, y) == 0), patterns=[z3.MultiPattern(sum1(z3.Select(M, x), n), m_(x, y))])))


def _sb_lemma_walk_ends(eng, st, node):
    """LEMMA (Lean: walk_first_edge, walk_last_edge; from walk_one / walk_succ / walk_succ_prefix): a walk of m >= 1 connections from x to y
    starts with a connection out of x and ends with a connection into y.  lemma_walk_ends(G, n)."""
    G = _term2(eng, st, eng.ev(node.args[0], st))
    n = to_z3(eng.ev(node.args[1], st), INT)
    x, y, m = z3.Ints('x!we y!we m!we')
    fw = z3.Function('walkout!%d' % next(_fresh), INT, INT, INT, INT)
    lw = z3.Function('walkin!%d' % next(_fresh), INT, INT, INT, INT)
    g = lambda a, b: z3.Select(z3.Select(G, a), b)
    return z3.ForAll([x, y, m], z3.Implies(z3.And(x >= 0, x < n, y >= 0, y < n, m >= 1, walk(G, x, y, m)),
                                           z3.And(fw(x, y, m) >= 0, fw(x, y, m) < n, g(x, fw(x, y, m)) != 0, lw(x, y, m) >= 0, lw(x, y, m) < n, g(lw(x, y, m), y) != 0)),
                     patterns=[walk(G, x, y, m)])


def _sb_msq(eng, st, node):
    W = _term2(eng, st, eng.ev(node.args[0], st))
    c = _term1i(eng, st, eng.ev(node.args[1], st))
    return msq(W, c, *[to_z3(eng.ev(a, st), INT) for a in node.args[2:]])


def _sb_lemma_msq(eng, st, node):
    """DEFINITION (Lean: msq_zero, msq_succ): msq(W, c, x, 0, n) == 0 and msq(W, c, x, k + 1, n) == msq(W, c, x, k, n) + modsum(W, c, x, k, n)^2 for the
    given k >= 0 and every node x.  lemma_msq(W, c, k, n)."""
    W = _term2(eng, st, eng.ev(node.args[0], st))
    c = _term1i(eng, st, eng.ev(node.args[1], st))
    k = to_z3(eng.ev(node.args[2], st), INT)
    n = to_z3(eng.ev(node.args[3], st), INT)
    x = z3.Int('x!ms')
    sq = lambda t: eng.binop(ast.Mult(), t, t, st)
    return z3.And(z3.ForAll([x], msq(W, c, x, z3.IntVal(0), n) == 0, patterns=[msq(W, c, x, z3.IntVal(0), n)]),
                  z3.Implies(k >= 0, z3.ForAll([x], msq(W, c, x, k + 1, n) == msq(W, c, x, k, n) + to_z3(sq(modsum(W, c, x, k, n)), REAL), patterns=[msq(W, c, x, k + 1, n)])))


def _sb_lemma_msq_relabel(eng, st, node):
    """LEMMA (Lean: msq_relabel): the sum of squared node-to-module sums depends on the labels only through the partition.  lemma_msq_relabel(W, c1, c2, K1, K2, n):
    labels of c1 in 1..K1, labels of c2 in 1..K2, and c1[y] == c1[z] <=> c2[y] == c2[z] for all nodes  =>  msq(W, c1, x, K1, n) == msq(W, c2, x, K2, n) for every node x."""
    W = _term2(eng, st, eng.ev(node.args[0], st))
    c1 = _term1i(eng, st, eng.ev(node.args[1], st))
    c2 = _term1i(eng, st, eng.ev(node.args[2], st))
    K1, K2, n = [to_z3(eng.ev(a, st), INT) for a in node.args[3:6]]
    x, y, z = z3.Ints('x!mr y!mr z!mr')
    inr_ = lambda t: z3.And(t >= 0, t < n)
    hyp = z3.And(z3.ForAll([y], z3.Implies(inr_(y), z3.And(z3.Select(c1, y) >= 1, z3.Select(c1, y) <= K1, z3.Select(c2, y) >= 1, z3.Select(c2, y) <= K2))),
                 z3.ForAll([y, z], z3.Implies(z3.And(inr_(y), inr_(z)), (z3.Select(c1, y) == z3.Select(c1, z)) == (z3.Select(c2, y) == z3.Select(c2, z)))))
    return z3.Implies(hyp, z3.ForAll([x], z3.Implies(inr_(x), msq(W, c1, x, K1, n) == msq(W, c2, x, K2, n)), patterns=[msq(W, c1, x, K1, n), msq(W, c2, x, K2, n)]))


def _sb_lemma_modsum_def(eng, st, node):
    """DEFINITION (Lean: modsum_def_row): if R[x][y] == (W[x][y] if c[y] == m + 1 else 0) for all cells then the row sums of R are the node-to-module
    sums: sum1(R[x]) == modsum(W, c, x, m, n).  lemma_modsum_def(R, W, c, m, n)."""
    R = _term2(eng, st, eng.ev(node.args[0], st))
    W = _term2(eng, st, eng.ev(node.args[1], st))
    c = _term1i(eng, st, eng.ev(node.args[2], st))
    m = to_z3(eng.ev(node.args[3], st), INT)
    n = to_z3(eng.ev(node.args[4], st), INT)
    x, y = z3.Ints('x!md y!md')
    hyp = z3.ForAll([x, y], z3.Implies(z3.And(x >= 0, x < n, y >= 0, y < n), z3.Select(z3.Select(R, x), y) == z3.If(z3.Select(c, y) == m + 1, z3.Select(z3.Select(W, x), y), z3.RealVal(0))))
    return z3.Implies(hyp, z3.ForAll([x], z3.Implies(z3.And(x >= 0, x < n), sum1(z3.Select(R, x), n) == modsum(W, c, x, m, n)), patterns=[sum1(z3.Select(R, x), n)]))


def _reachw(G, a, b):
    return z3.Or(a == b, sdist(G, a, b) >= 1)


def _sb_wd(eng, st, node):
    G = _term2(eng, st, eng.ev(node.args[0], st))
    return wd(G, to_z3(eng.ev(node.args[1], st), INT), to_z3(eng.ev(node.args[2], st), INT))


def _sb_lemma_wd(eng, st, node):
    """LEMMA (Lean: wd_self, wd_nonneg, wd_relax, reachw_iff_sdist): for a matrix of non-negative connection lengths: wd(x, x) == 0; wd >= 0 on reachable
    pairs; relaxation: y reachable from x and a connection y -> z  =>  z reachable from x and wd(x, z) <= wd(x, y) + G[y][z].  lemma_wd(G, n)."""
    G = _term2(eng, st, eng.ev(node.args[0], st))
    n = to_z3(eng.ev(node.args[1], st), INT)
    x, y, z = z3.Ints('x!wd y!wd z!wd')
    g = lambda a, b: z3.Select(z3.Select(G, a), b)
    inr_ = lambda t: z3.And(t >= 0, t < n)
    hyp = z3.ForAll([x, y], z3.Implies(z3.And(inr_(x), inr_(y)), g(x, y) >= 0))
    return z3.Implies(hyp, z3.And(
        z3.ForAll([x], z3.Implies(inr_(x), wd(G, x, x) == 0), patterns=[wd(G, x, x)]),
        z3.ForAll([x, y], z3.Implies(z3.And(inr_(x), inr_(y), _reachw(G, x, y)), wd(G, x, y) >= 0), patterns=[wd(G, x, y)]),
        z3.ForAll([x, y, z], z3.Implies(z3.And(inr_(x), inr_(y), inr_(z), _reachw(G, x, y), g(y, z) != 0), z3.And(_reachw(G, x, z), wd(G, x, z) <= wd(G, x, y) + g(y, z))),
                  patterns=[z3.MultiPattern(wd(G, x, y), g(y, z))])))


swalk = z3.Function('swalk', A2R, INT, INT, INT, INT, REAL, BOOL)      # swalk(G, k, x, y, m, l): a walk x -> y of m >= 1 connections, total length l, all intermediate nodes < k
_fl_m1 = z3.Function('floyd_m1', A2R, INT, INT, INT, INT, REAL, INT)
_fl_l1 = z3.Function('floyd_l1', A2R, INT, INT, INT, INT, REAL, REAL)
_fl_m2 = z3.Function('floyd_m2', A2R, INT, INT, INT, INT, REAL, INT)
_fl_l2 = z3.Function('floyd_l2', A2R, INT, INT, INT, INT, REAL, REAL)
_fl_mw = z3.Function('floyd_mw', A2R, INT, INT, INT)


def _sb_swalk(eng, st, node):
    G = _term2(eng, st, eng.ev(node.args[0], st))
    a = [to_z3(eng.ev(x, st), INT) for x in node.args[1:5]]
    return swalk(G, a[0], a[1], a[2], a[3], to_z3(eng.ev(node.args[4 + 1], st), REAL))


def _sb_lemma_floyd(eng, st, node):
    """LEMMA (Lean: swalk_empty, swalk_insert, swalk_wd, floyd_smt): walks with restricted intermediate nodes, non-negative connection lengths.  lemma_floyd(G, n):
    (base) a walk without intermediate nodes is a single connection: swalk(G,0,x,y,m,l) => G[x][y] != 0 and l == G[x][y];
    (insert) a walk whose intermediate nodes are < k+1 either has all of them < k, or there are a walk x -> k and a walk k -> y with intermediate
    nodes < k whose lengths add up to at most l (the closed part around k is dropped: lengths are non-negative);
    (all) if y != x is reachable from x then the distance wd(G,x,y) is the length of a walk whose intermediate nodes are < n (all nodes)."""
    G = _term2(eng, st, eng.ev(node.args[0], st))
    n = to_z3(eng.ev(node.args[1], st), INT)
    x, y, k, m = z3.Ints('x!fl y!fl k!fl m!fl')
    l = z3.Real('l!fl')
    g = lambda a, b: z3.Select(z3.Select(G, a), b)
    inr_ = lambda t: z3.And(t >= 0, t < n)
    hyp = z3.ForAll([x, y], z3.Implies(z3.And(inr_(x), inr_(y)), g(x, y) >= 0))
    args = (G, k, x, y, m, l)
    return z3.Implies(hyp, z3.And(
        z3.ForAll([x, y, m, l], z3.Implies(z3.And(inr_(x), inr_(y), swalk(G, 0, x, y, m, l)), z3.And(g(x, y) != 0, l == g(x, y))), patterns=[swalk(G, 0, x, y, m, l)]),
        z3.ForAll([k, x, y, m, l], z3.Implies(z3.And(inr_(k), inr_(x), inr_(y), swalk(G, k + 1, x, y, m, l)),
                                              z3.Or(swalk(G, k, x, y, m, l),
                                                    z3.And(swalk(G, k, x, k, _fl_m1(*args), _fl_l1(*args)), swalk(G, k, k, y, _fl_m2(*args), _fl_l2(*args)), _fl_l1(*args) + _fl_l2(*args) <= l))),
                  patterns=[swalk(G, k + 1, x, y, m, l)]),
        z3.ForAll([x, y], z3.Implies(z3.And(inr_(x), inr_(y), x != y, _reachw(G, x, y)), swalk(G, n, x, y, _fl_mw(G, x, y), wd(G, x, y))), patterns=[wd(G, x, y)])))


def _sb_lemma_wd_triangle(eng, st, node):
    """LEMMA (Lean: wd_triangle, wwalk_concat): non-negative connection lengths: y reachable from x through z  =>  wd(x, y) <= wd(x, z) + wd(z, y), and reachability is transitive.
    lemma_wd_triangle(G, n)."""
    G = _term2(eng, st, eng.ev(node.args[0], st))
    n = to_z3(eng.ev(node.args[1], st), INT)
    x, y, z = z3.Ints('x!wt y!wt z!wt')
    g = lambda a, b: z3.Select(z3.Select(G, a), b)
    inr_ = lambda t: z3.And(t >= 0, t < n)
    hyp = z3.ForAll([x, y], z3.Implies(z3.And(inr_(x), inr_(y)), g(x, y) >= 0))
    return z3.Implies(hyp, z3.ForAll([x, z, y], z3.Implies(z3.And(inr_(x), inr_(y), inr_(z), _reachw(G, x, z), _reachw(G, z, y)), z3.And(_reachw(G, x, y), wd(G, x, y) <= wd(G, x, z) + wd(G, z, y))),
                                     patterns=[z3.MultiPattern(wd(G, x, z), wd(G, z, y))]))


upow = z3.Function('upow', REAL, REAL, REAL)               # x ** y, uninterpreted (contracts with nonlinear='uf')
invl = z3.Function('invl', A2R, A2R)      # invl(W): entrywise 1/w on the support of W, 0 elsewhere (the contract of bct.utils.invert, proved under C17)


def invl_axiom(M):
    x, y = z3.Ints('x!il y!il')
    r = z3.Select(z3.Select(invl(M), x), y)
    m = z3.Select(z3.Select(M, x), y)
    return z3.ForAll([x, y], r == z3.If(m != 0, 1 / m, z3.RealVal(0)), patterns=[r])


def _sb_inverse_lengths(eng, st, node):
    """inverse_lengths(W): the matrix of connection lengths 1/w on the support of W, 0 elsewhere (specification value; same term as the stub of invert)."""
    v = eng.ev(node.args[0], st)
    o = v.obj if (isinstance(v, Opaque) and v.kind == 'snapshot') else st.heap[v.oid]
    M = eng.pure(o.term)
    st.pc.append(invl_axiom(M))
    return alloc(st, 2, invl(M), o.shape, REAL)


def _sb_lemma_cells(eng, st, node):
    """LEMMA (Lean: matrix_ext_cells, wd_congr_cells, sdist_congr_cells, tot_congr_cells): two n x n matrices that agree in every cell have the same distances
    and the same total.  lemma_cells(A, B, n): A[x][y] == B[x][y] for all nodes  =>  wd, sdist agree for all nodes and tsum(A, n) == tsum(B, n)."""
    A = _term2(eng, st, eng.ev(node.args[0], st))
    B = _term2(eng, st, eng.ev(node.args[1], st))
    n = to_z3(eng.ev(node.args[2], st), INT)
    x, y = z3.Ints('x!ce y!ce')
    inr_ = lambda t: z3.And(t >= 0, t < n)
    sel = lambda M, a, b: z3.Select(z3.Select(M, a), b)
    hyp = z3.ForAll([x, y], z3.Implies(z3.And(inr_(x), inr_(y)), sel(A, x, y) == sel(B, x, y)))
    return z3.Implies(hyp, z3.And(tsum(A, n) == tsum(B, n),
                                  z3.ForAll([x, y], z3.Implies(z3.And(inr_(x), inr_(y)), z3.And(wd(A, x, y) == wd(B, x, y), sdist(A, x, y) == sdist(B, x, y))),
                                            patterns=[wd(A, x, y), wd(B, x, y), sdist(A, x, y), sdist(B, x, y)])))


def _sb_lemma_renumber(eng, st, node):
    """LEMMA (Lean: sdist_renum_cells, wd_renum_cells, tot_renum_cells, walk_renum, wwalk_renum): renumbering the nodes by a permutation.  lemma_renumber(G, H, p, n):
    p a permutation of the nodes and H[x][y] == G[p[x]][p[y]] for all nodes  =>  sdist(H, x, y) == sdist(G, p[x], p[y]), wd(H, x, y) == wd(G, p[x], p[y]) for all
    nodes, and tsum(H, n) == tsum(G, n)."""
    G = _term2(eng, st, eng.ev(node.args[0], st))
    H = _term2(eng, st, eng.ev(node.args[1], st))
    p = _term1i(eng, st, eng.ev(node.args[2], st))
    n = to_z3(eng.ev(node.args[3], st), INT)
    x, y = z3.Ints('x!rn y!rn')
    inr_ = lambda t: z3.And(t >= 0, t < n)
    sel = lambda M, a, b: z3.Select(z3.Select(M, a), b)
    px, py = z3.Select(p, x), z3.Select(p, y)
    hyp = z3.And(isperm(p, n), z3.ForAll([x, y], z3.Implies(z3.And(inr_(x), inr_(y)), sel(H, x, y) == sel(G, px, py))))
    # (isperm(p, n) reads: p restricted to [0, n) is a bijection of [0, n); injectivity and range are part of that reading)
    return z3.Implies(hyp, z3.And(tsum(H, n) == tsum(G, n),
                                  z3.ForAll([x, y], z3.Implies(z3.And(inr_(x), inr_(y)), z3.And(inr_(px), inr_(py), z3.Implies(x != y, px != py))), patterns=[z3.MultiPattern(px, py)]),
                                  z3.ForAll([x, y], z3.Implies(z3.And(inr_(x), inr_(y)), z3.And(sdist(H, x, y) == sdist(G, px, py), wd(H, x, y) == wd(G, px, py))),
                                            patterns=[sdist(H, x, y), wd(H, x, y)])))


def _rcnt_term(M, x, n):
    return cnt1(z3.Select(M, x), n)


def _sb_lemma_count_support(eng, st, node):
    """LEMMA (Lean: ccnt_congr_support, cnt1_congr_support): the numbers of non-zero entries per column / row depend only on which entries are non-zero.
    lemma_count_support(A, B, n): A[x][y] != 0 <=> B[x][y] != 0 for all cells  =>  ccnt and rcnt of A and B agree for every node."""
    A = _term2(eng, st, eng.ev(node.args[0], st))
    B = _term2(eng, st, eng.ev(node.args[1], st))
    n = to_z3(eng.ev(node.args[2], st), INT)
    x, y = z3.Ints('x!cs y!cs')
    inr_ = lambda t: z3.And(t >= 0, t < n)
    sel = lambda M, a, b: z3.Select(z3.Select(M, a), b)
    hyp = z3.ForAll([x, y], z3.Implies(z3.And(inr_(x), inr_(y)), (sel(A, x, y) != 0) == (sel(B, x, y) != 0)))
    return z3.Implies(hyp, z3.ForAll([x], z3.Implies(inr_(x), z3.And(ccnt(A, x, n) == ccnt(B, x, n), _rcnt_term(A, x, n) == _rcnt_term(B, x, n))),
                                     patterns=[ccnt(A, x, n), ccnt(B, x, n), _rcnt_term(A, x, n), _rcnt_term(B, x, n)]))


def _sb_lemma_count_diag(eng, st, node):
    """LEMMA (Lean: ccnt_diag_set, cnt1_diag_set): making every diagonal entry non-zero adds one to every column / row count.  lemma_count_diag(A, B, n):
    off the diagonal A and B have the same support, A[x][x] == 0 and B[x][x] != 0 for every node  =>  ccnt(B, x) == ccnt(A, x) + 1, rcnt(B, x) == rcnt(A, x) + 1."""
    A = _term2(eng, st, eng.ev(node.args[0], st))
    B = _term2(eng, st, eng.ev(node.args[1], st))
    n = to_z3(eng.ev(node.args[2], st), INT)
    x, y = z3.Ints('x!cd y!cd')
    inr_ = lambda t: z3.And(t >= 0, t < n)
    sel = lambda M, a, b: z3.Select(z3.Select(M, a), b)
    hyp = z3.And(z3.ForAll([x, y], z3.Implies(z3.And(inr_(x), inr_(y), x != y), (sel(A, x, y) != 0) == (sel(B, x, y) != 0))),
                 z3.ForAll([x], z3.Implies(inr_(x), z3.And(sel(A, x, x) == 0, sel(B, x, x) != 0))))
    return z3.Implies(hyp, z3.ForAll([x], z3.Implies(inr_(x), z3.And(ccnt(B, x, n) == ccnt(A, x, n) + 1, _rcnt_term(B, x, n) == _rcnt_term(A, x, n) + 1)),
                                     patterns=[ccnt(A, x, n), ccnt(B, x, n), _rcnt_term(A, x, n), _rcnt_term(B, x, n)]))


def _sb_lemma_count_sub(eng, st, node):
    """LEMMA (Lean: ccnt_le_dset, cnt_le_rset, ccnt_pos_of_witness, cnt_pos_of_witness): counting under an inclusion.  lemma_count_sub(B, M, S, n):
    every non-zero entry B[w][v] has S[w] and M[w][v] != 0  =>  ccnt(B, v) <= dset(M, S, v);  every non-zero entry B[v][w] has S[w] and M[v][w] != 0  =>
    rcnt(B, v) <= rset(M, S, v);  and (no hypothesis) a non-zero entry B[x][y] makes ccnt(B, y) >= 1 and rcnt(B, x) >= 1."""
    B = _term2(eng, st, eng.ev(node.args[0], st))
    M = _term2(eng, st, eng.ev(node.args[1], st))
    S = _term1b(eng, st, eng.ev(node.args[2], st))
    n = to_z3(eng.ev(node.args[3], st), INT)
    v, w, x, y = z3.Ints('v!cs2 w!cs2 x!cs2 y!cs2')
    inr_ = lambda t: z3.And(t >= 0, t < n)
    sel = lambda T, a, b: z3.Select(z3.Select(T, a), b)
    hc = z3.ForAll([w, v], z3.Implies(z3.And(inr_(w), inr_(v), sel(B, w, v) != 0), z3.And(z3.Select(S, w), sel(M, w, v) != 0)))
    hr = z3.ForAll([w, v], z3.Implies(z3.And(inr_(w), inr_(v), sel(B, v, w) != 0), z3.And(z3.Select(S, w), sel(M, v, w) != 0)))
    return z3.And(
        z3.Implies(hc, z3.ForAll([v], z3.Implies(inr_(v), ccnt(B, v, n) <= dset(M, S, v, n)), patterns=[ccnt(B, v, n), dset(M, S, v, n)])),
        z3.Implies(hr, z3.ForAll([v], z3.Implies(inr_(v), _rcnt_term(B, v, n) <= rset(M, S, v, n)), patterns=[_rcnt_term(B, v, n), rset(M, S, v, n)])),
        z3.ForAll([x, y], z3.Implies(z3.And(inr_(x), inr_(y), sel(B, x, y) != 0), z3.And(ccnt(B, y, n) >= 1, _rcnt_term(B, x, n) >= 1)), patterns=[sel(B, x, y)]),
        # (counts are cardinalities: natural numbers in the Lean reading)
        z3.ForAll([v], z3.And(ccnt(B, v, n) >= 0, _rcnt_term(B, v, n) >= 0), patterns=[ccnt(B, v, n), _rcnt_term(B, v, n)]))


def _sb_lemma_sum_sub(eng, st, node):
    """LEMMA (Lean: csum_le_wset, csum_pos_of_witness): column sums under an inclusion, non-negative weights.  lemma_sum_sub(B, M, S, n):
    M and B entrywise >= 0; every entry B[w][v] is M[w][v] for a row w in S, or 0  =>  csum(B, v) <= wset(M, S, v) for every node v; and a non-zero entry
    B[x][y] makes csum(B, y) > 0."""
    B = _term2(eng, st, eng.ev(node.args[0], st))
    M = _term2(eng, st, eng.ev(node.args[1], st))
    S = _term1b(eng, st, eng.ev(node.args[2], st))
    n = to_z3(eng.ev(node.args[3], st), INT)
    v, w, x, y = z3.Ints('v!ss2 w!ss2 x!ss2 y!ss2')
    inr_ = lambda t: z3.And(t >= 0, t < n)
    sel = lambda T, a, b: z3.Select(z3.Select(T, a), b)
    nonneg = lambda T: z3.ForAll([x, y], z3.Implies(z3.And(inr_(x), inr_(y)), sel(T, x, y) >= 0))
    h = z3.ForAll([w, v], z3.Implies(z3.And(inr_(w), inr_(v)), z3.Or(sel(B, w, v) == z3.If(z3.Select(S, w), sel(M, w, v), z3.RealVal(0)), sel(B, w, v) == 0)))
    return z3.And(
        z3.Implies(z3.And(nonneg(M), h), z3.ForAll([v], z3.Implies(inr_(v), csum(B, v, n) <= wset(M, S, v, n)), patterns=[csum(B, v, n), wset(M, S, v, n)])),
        z3.Implies(nonneg(B), z3.ForAll([x, y], z3.Implies(z3.And(inr_(x), inr_(y), sel(B, x, y) != 0), csum(B, y, n) > 0), patterns=[sel(B, x, y)])))


wwalkr = z3.Function('wwalkr', A2R, INT, INT, REAL, REAL, BOOL)     # wwalkr(G, x, y, m, l): m is a natural number and there is a walk x -> y of m connections and total length l


def _sb_wwalkr(eng, st, node):
    G = _term2(eng, st, eng.ev(node.args[0], st))
    a = [to_z3(eng.ev(t, st), INT) for t in node.args[1:3]]
    return wwalkr(G, a[0], a[1], to_z3(eng.ev(node.args[3], st), REAL), to_z3(eng.ev(node.args[4], st), REAL))


def _sb_lemma_wwalk(eng, st, node):
    """DEFINITION (Lean: wwalk_refl, wwalk_succ, wwalk_zero): weighted walks counted by their number of connections.  lemma_wwalk(G, n):
    wwalkr(G, x, x, 0, 0);  wwalkr(G, x, y, m, l) and G[y][z] != 0  =>  wwalkr(G, x, z, m + 1, l + G[y][z])   (the number of connections is carried as a
    real with a natural value, because the program keeps it in a float matrix)."""
    G = _term2(eng, st, eng.ev(node.args[0], st))
    n = to_z3(eng.ev(node.args[1], st), INT)
    x, y, z = z3.Ints('x!ww y!ww z!ww')
    m, l = z3.Reals('m!ww l!ww')
    inr_ = lambda t: z3.And(t >= 0, t < n)
    g = lambda a, b: z3.Select(z3.Select(G, a), b)
    return z3.And(z3.ForAll([x], z3.Implies(inr_(x), wwalkr(G, x, x, z3.RealVal(0), z3.RealVal(0))), patterns=[wwalkr(G, x, x, z3.RealVal(0), z3.RealVal(0))]),
                  z3.ForAll([x, y, z, m, l], z3.Implies(z3.And(inr_(x), inr_(y), inr_(z), wwalkr(G, x, y, m, l), g(y, z) != 0), wwalkr(G, x, z, m + 1, l + g(y, z))),
                            patterns=[z3.MultiPattern(wwalkr(G, x, y, m, l), g(y, z))]))


nbrsum = z3.Function('nbrsum', A2R, INT, INT, REAL)      # nbrsum(G, u, n) = sum of G[v][w] over all ordered pairs (v, w) of neighbours of u (G[u][v] != 0, G[u][w] != 0)


def _sb_lemma_nbrsum(eng, st, node):
    """LEMMA (Lean: nbrsum_enum, card_enum, sum_enum_pairs): the sub-matrix of G indexed by an enumeration V (length k) of exactly the neighbours of u, each once,
    sums to nbrsum(G, u, n), and k is the number of non-zero entries of row u.  lemma_nbrsum(G, V, k, u, n): V strictly increasing on [0, k), every V[e] a node with
    G[u][V[e]] != 0, every node x with G[u][x] != 0 listed  =>  tsum(ixperm(G, V), k) == nbrsum(G, u, n) and k == rcnt(G, u, n)."""
    G = _term2(eng, st, eng.ev(node.args[0], st))
    V = _term1i(eng, st, eng.ev(node.args[1], st))
    k = to_z3(eng.ev(node.args[2], st), INT)
    u = to_z3(eng.ev(node.args[3], st), INT)
    n = to_z3(eng.ev(node.args[4], st), INT)
    e, f, x = z3.Ints('e!nb f!nb x!nb')
    g = lambda a, b: z3.Select(z3.Select(G, a), b)
    ve = z3.Select(V, e)
    hyp = z3.And(k >= 0,
                 z3.ForAll([e, f], z3.Implies(z3.And(e >= 0, e < f, f < k), ve < z3.Select(V, f))),
                 z3.ForAll([e], z3.Implies(z3.And(e >= 0, e < k), z3.And(ve >= 0, ve < n, g(u, ve) != 0))),
                 z3.ForAll([x], z3.Implies(z3.And(x >= 0, x < n, g(u, x) != 0), z3.Exists([e], z3.And(e >= 0, e < k, ve == x)))))
    return z3.Implies(hyp, z3.And(tsum(ixperm(G, V), k) == nbrsum(G, u, n), k == cnt1(z3.Select(G, u), n)))


def _sb_lemma_nbrsum_renumber(eng, st, node):
    """LEMMA (Lean: nbrsum_renum_cells, cnt_renum_cells): renumbering the nodes by a permutation.  lemma_nbrsum_renumber(G, H, p, n): p a permutation and
    H[x][y] == G[p[x]][p[y]] for all nodes  =>  nbrsum(H, x, n) == nbrsum(G, p[x], n) and rcnt(H, x, n) == rcnt(G, p[x], n) for every node x."""
    G = _term2(eng, st, eng.ev(node.args[0], st))
    H = _term2(eng, st, eng.ev(node.args[1], st))
    p = _term1i(eng, st, eng.ev(node.args[2], st))
    n = to_z3(eng.ev(node.args[3], st), INT)
    x, y = z3.Ints('x!nr y!nr')
    inr_ = lambda t: z3.And(t >= 0, t < n)
    sel = lambda M, a, b: z3.Select(z3.Select(M, a), b)
    px, py = z3.Select(p, x), z3.Select(p, y)
    hyp = z3.And(isperm(p, n), z3.ForAll([x, y], z3.Implies(z3.And(inr_(x), inr_(y)), sel(H, x, y) == sel(G, px, py))))
    return z3.Implies(hyp, z3.ForAll([x], z3.Implies(inr_(x), z3.And(inr_(px), nbrsum(H, x, n) == nbrsum(G, px, n), _rcnt_term(H, x, n) == _rcnt_term(G, px, n))),
                                     patterns=[nbrsum(H, x, n), _rcnt_term(H, x, n)]))


def _sb_lemma_sdist_support(eng, st, node):
    """LEMMA (Lean: sdist_congr_support, walk_congr_support): the hop distance depends only on which entries are non-zero.  lemma_sdist_support(A, B, n):
    A[x][y] != 0 <=> B[x][y] != 0 for all nodes  =>  sdist(A, x, y) == sdist(B, x, y) for all nodes."""
    A = _term2(eng, st, eng.ev(node.args[0], st))
    B = _term2(eng, st, eng.ev(node.args[1], st))
    n = to_z3(eng.ev(node.args[2], st), INT)
    x, y = z3.Ints('x!ss y!ss')
    inr_ = lambda t: z3.And(t >= 0, t < n)
    sel = lambda M, a, b: z3.Select(z3.Select(M, a), b)
    hyp = z3.ForAll([x, y], z3.Implies(z3.And(inr_(x), inr_(y)), (sel(A, x, y) != 0) == (sel(B, x, y) != 0)))
    return z3.Implies(hyp, z3.ForAll([x, y], z3.Implies(z3.And(inr_(x), inr_(y)), sdist(A, x, y) == sdist(B, x, y)), patterns=[sdist(A, x, y), sdist(B, x, y)]))


def _sb_lemma_wd_binary(eng, st, node):
    """LEMMA (Lean: wd_binary_smt, wd_binary, wwalk_binary_len): on a 0/1 matrix every connection has length 1, so the weighted distance is the hop distance.
    lemma_wd_binary(G, n): all entries 0 or 1  =>  for x != y with sdist(G, x, y) >= 1: wd(G, x, y) == sdist(G, x, y)."""
    G = _term2(eng, st, eng.ev(node.args[0], st))
    n = to_z3(eng.ev(node.args[1], st), INT)
    x, y = z3.Ints('x!wb y!wb')
    inr_ = lambda t: z3.And(t >= 0, t < n)
    g = lambda a, b: z3.Select(z3.Select(G, a), b)
    hyp = z3.ForAll([x, y], z3.Implies(z3.And(inr_(x), inr_(y)), z3.Or(g(x, y) == 0, g(x, y) == 1)))
    return z3.Implies(hyp, z3.ForAll([x, y], z3.Implies(z3.And(inr_(x), inr_(y), x != y, sdist(G, x, y) >= 1), wd(G, x, y) == z3.ToReal(sdist(G, x, y))), patterns=[wd(G, x, y), sdist(G, x, y)]))


def _sb_lemma_dijkstra(eng, st, node):
    """LEMMA (Lean: dijkstra_step, dijkstra_exhausted, dijkstra_lower).  lemma_dijkstra(G, u, P, T, pr, n): P boolean array (permanent nodes), T real array (tentative
    values), pr integer array (a permanent predecessor attaining a finite tentative value).  Hypotheses: non-negative lengths; u in P; every
    permanent node is reachable from u; permanent nodes are no farther than reachable temporary ones; for every temporary w: T[w] <= wd(u,v) + G[v][w]
    for every permanent v with a connection v -> w, and T[w] == INF or (pr[w] permanent, connection pr[w] -> w, T[w] == wd(u,pr[w]) + G[pr[w]][w]);
    INF exceeds every wd(u,v) + G[v][w] with v permanent.  Conclusions: (step) a temporary x with T[x] != INF and T[x] <= T[w] for all temporary w
    is reachable and wd(u, x) == T[x]; (exhausted) if T[w] == INF for every temporary w then no temporary node is reachable from u."""
    G = _term2(eng, st, eng.ev(node.args[0], st))
    u = to_z3(eng.ev(node.args[1], st), INT)
    P = _term1b(eng, st, eng.ev(node.args[2], st))
    T = _term1r(eng, st, eng.ev(node.args[3], st))
    pr = _term1i(eng, st, eng.ev(node.args[4], st))
    n = to_z3(eng.ev(node.args[5], st), INT)
    INF = z3.Real('INF')
    x, v, w = z3.Ints('x!dj v!dj w!dj')
    g = lambda a, b: z3.Select(z3.Select(G, a), b)
    inr_ = lambda t: z3.And(t >= 0, t < n)
    Pm = lambda t: z3.Select(P, t)
    Tt = lambda t: z3.Select(T, t)
    hyp = z3.And(
        z3.ForAll([v, w], z3.Implies(z3.And(inr_(v), inr_(w)), g(v, w) >= 0)),
        inr_(u), Pm(u),
        z3.ForAll([v], z3.Implies(z3.And(inr_(v), Pm(v)), _reachw(G, u, v))),
        z3.ForAll([v, w], z3.Implies(z3.And(inr_(v), inr_(w), Pm(v), z3.Not(Pm(w)), _reachw(G, u, w)), wd(G, u, v) <= wd(G, u, w))),
        z3.ForAll([v, w], z3.Implies(z3.And(inr_(v), inr_(w), Pm(v), z3.Not(Pm(w)), g(v, w) != 0), z3.And(Tt(w) <= wd(G, u, v) + g(v, w), wd(G, u, v) + g(v, w) < INF))),
        z3.ForAll([w], z3.Implies(z3.And(inr_(w), z3.Not(Pm(w))), z3.Or(Tt(w) == INF, z3.And(inr_(z3.Select(pr, w)), Pm(z3.Select(pr, w)), g(z3.Select(pr, w), w) != 0,
                                                                                              Tt(w) == wd(G, u, z3.Select(pr, w)) + g(z3.Select(pr, w), w))))))
    # the conclusions are stated for an explicitly given minimum mval of the tentative values, attained at the temporary node xw
    # (no quantifier nested in an antecedent): instances of dijkstra_step / dijkstra_lower / dijkstra_exhausted
    mval = to_z3(eng.ev(node.args[6], st), REAL)
    xw = to_z3(eng.ev(node.args[7], st), INT)
    hyp = z3.And(hyp, inr_(xw), z3.Not(Pm(xw)), Tt(xw) == mval, z3.ForAll([w], z3.Implies(z3.And(inr_(w), z3.Not(Pm(w))), mval <= Tt(w))))
    step = z3.ForAll([x], z3.Implies(z3.And(inr_(x), z3.Not(Pm(x)), Tt(x) == mval, mval != INF), z3.And(_reachw(G, u, x), wd(G, u, x) == mval)), patterns=[Tt(x)])
    lower = z3.Implies(mval != INF, z3.ForAll([w], z3.Implies(z3.And(inr_(w), z3.Not(Pm(w)), _reachw(G, u, w)), mval <= wd(G, u, w)), patterns=[wd(G, u, w)]))
    exhausted = z3.Implies(mval == INF, z3.ForAll([w], z3.Implies(z3.And(inr_(w), z3.Not(Pm(w))), z3.Not(_reachw(G, u, w))), patterns=[sdist(G, u, w)]))
    return z3.Implies(hyp, z3.And(step, exhausted, lower))


def _sb_last_masked_argmin(eng, st, node):
    """the position at which the most recent np.min(M[x, mask]) is attained (Skolem constant of that call's contract)"""
    if '_masksel_argmin' not in st.ghost:
        raise ContractError('no np.min over a mask selection seen')
    return st.ghost['_masksel_argmin']


def _sb_lemma_reach_closed(eng, st, node):
    """LEMMA (Lean: reach_closed, induction on the walk length): a node set P that contains s and is closed under following connections
    contains every node reachable from s.  lemma_reach_closed(G, s, P, n) with P a boolean array."""
    G = _term2(eng, st, eng.ev(node.args[0], st))
    s_ = to_z3(eng.ev(node.args[1], st), INT)
    P = _term1b(eng, st, eng.ev(node.args[2], st))
    n = to_z3(eng.ev(node.args[3], st), INT)
    v, w = z3.Ints('v!rc w!rc')
    inv_, inw = z3.And(v >= 0, v < n), z3.And(w >= 0, w < n)
    hyp = z3.And(s_ >= 0, s_ < n, z3.Select(P, s_),
                 z3.ForAll([v, w], z3.Implies(z3.And(inv_, inw, z3.Select(P, v), z3.Select(z3.Select(G, v), w) != 0), z3.Select(P, w))))
    return z3.Implies(hyp, z3.ForAll([w], z3.Implies(z3.And(inw, sdist(G, s_, w) >= 1), z3.Select(P, w)), patterns=[sdist(G, s_, w)]))


def _sb_lemma_agg_symm(eng, st, node):
    """LEMMA (Lean: agg_symm): the aggregate of a symmetric matrix is symmetric.  lemma_agg_symm(W, c, n)."""
    W = _term2(eng, st, eng.ev(node.args[0], st))
    c = _term1i(eng, st, eng.ev(node.args[1], st))
    n = to_z3(eng.ev(node.args[2], st), INT)
    x, y, a, b = z3.Ints('x!g y!g a!g b!g')
    hyp = z3.ForAll([x, y], z3.Implies(z3.And(x >= 0, x < n, y >= 0, y < n), z3.Select(z3.Select(W, x), y) == z3.Select(z3.Select(W, y), x)))
    return z3.Implies(hyp, z3.ForAll([a, b], agg(W, c, a, b, n) == agg(W, c, b, a, n), patterns=[agg(W, c, a, b, n)]))


def _sb_lemma_agg_identity(eng, st, node):
    """LEMMA (Lean: agg_id): under singleton labels c[y] == y + 1 (y < n) the aggregate is the matrix itself.  lemma_agg_identity(W, c, n)."""
    W = _term2(eng, st, eng.ev(node.args[0], st))
    c = _term1i(eng, st, eng.ev(node.args[1], st))
    n = to_z3(eng.ev(node.args[2], st), INT)
    y, a, b = z3.Ints('y!g a!g b!g')
    hyp = z3.ForAll([y], z3.Implies(z3.And(y >= 0, y < n), z3.Select(c, y) == y + 1))
    return z3.Implies(hyp, z3.ForAll([a, b], z3.Implies(z3.And(a >= 0, a < n, b >= 0, b < n), agg(W, c, a, b, n) == z3.Select(z3.Select(W, a), b)), patterns=[agg(W, c, a, b, n)]))


def _sb_lemma_flat_count(eng, st, node):
    """LEMMA (Lean: card_offdiag_enum / card_upper_enum): an enumeration without repetition of exactly the off-diagonal (resp. strictly
    upper-triangular) cells of an n x n array has n*n - n (resp. (n*n - n)/2) entries.  lemma_flat_count(ix, n, 'offdiag'|'upper'):
    ix is the array of flat positions, its cells are (frow(ix[e], n), fcol(ix[e], n))."""
    v = eng.ev(node.args[0], st)
    if not isinstance(v, Ref):
        raise ContractError('lemma_flat_count: index array expected')
    ix = eng.pure(st.heap[v.oid].term)
    kf = to_z3(st.heap[v.oid].shape[0], INT)
    n = to_z3(eng.ev(node.args[1], st), INT)
    kind = eng.ev(node.args[2], st)
    e, f, x, y = z3.Ints('e!fc f!fc x!fc y!fc')
    r_ = lambda t: frow(z3.Select(ix, t), n)
    c_ = lambda t: fcol(z3.Select(ix, t), n)
    cond = (lambda a, b: a != b) if kind == 'offdiag' else (lambda a, b: a < b)
    fw = st.heap[v.oid].meta.get('fwid')
    if fw is not None:
        # the witness of "every such cell is enumerated" is the index function of the np.where result (same statement as an exists)
        cover = lambda xx, yy: z3.And(fw(xx, yy) >= 0, fw(xx, yy) < kf, r_(fw(xx, yy)) == xx, c_(fw(xx, yy)) == yy)
    else:
        cover = lambda xx, yy: z3.Exists([e], z3.And(e >= 0, e < kf, r_(e) == xx, c_(e) == yy))
    hyp = z3.And(kf >= 0, n >= 0,
                 z3.ForAll([e], z3.Implies(z3.And(e >= 0, e < kf), z3.And(r_(e) >= 0, r_(e) < n, c_(e) >= 0, c_(e) < n, cond(r_(e), c_(e))))),
                 z3.ForAll([e, f], z3.Implies(z3.And(e >= 0, e < f, f < kf), z3.Or(r_(e) != r_(f), c_(e) != c_(f)))),
                 z3.ForAll([x, y], z3.Implies(z3.And(x >= 0, x < n, y >= 0, y < n, cond(x, y)), cover(x, y))))
    if kind == 'offdiag':
        return z3.Implies(hyp, kf == n * n - n)
    if kind == 'upper':
        return z3.Implies(hyp, 2 * kf == n * n - n)
    raise ContractError('lemma_flat_count kind %r' % (kind,))


def _sb_lemma_image_count(eng, st, node):
    """LEMMA (Lean: tsum_indicator_of_injective_cells): if k pairwise distinct cells (r[t], c[t]), t < k, of an n x n matrix M hold 1 and
    every other cell holds 0, the sum of M is k.  lemma_image_count(M, r, c, k, n)."""
    M = _term2(eng, st, eng.ev(node.args[0], st))

    def raw1(v):      # the index rows are used in Select positions only (never in patterns): keep the lambda terms, they beta-reduce
        if isinstance(v, Row):
            v = eng.np.materialise(eng, st, v)
        if not isinstance(v, Ref):
            raise ContractError('1-D int array expected')
        return st.heap[v.oid].term
    rv = eng.ev(node.args[1], st)
    r = raw1(rv)
    c = raw1(eng.ev(node.args[2], st))
    k = to_z3(eng.ev(node.args[3], st), INT)
    n = to_z3(eng.ev(node.args[4], st), INT)
    t, u, x, y = z3.Ints('t!ic u!ic x!ic y!ic')
    w = st.heap[rv.oid].meta.get('where_idx') if isinstance(rv, Ref) and st.heap[rv.oid].meta.get('where_cond') is not None else None
    if len(node.args) > 5:
        # explicit witness w(x, y) given by the contract as a lambda of two variables (any integer expression)
        lamw = node.args[5]
        if not isinstance(lamw, ast.Lambda) or len(lamw.args.args) != 2:
            raise ContractError('lemma_image_count: the witness must be a lambda of two variables')
        wa, wb = [a_.arg for a_ in lamw.args.args]

        def w(xx, yy, lamw=lamw, wa=wa, wb=wb):
            saved = {nm_: st.ghost.get(nm_) for nm_ in (wa, wb)}
            shadow = {nm_: st.env.pop(nm_) for nm_ in (wa, wb) if nm_ in st.env}
            st.ghost[wa], st.ghost[wb] = xx, yy
            try:
                return to_z3(eng.ev(lamw.body, st), INT)
            finally:
                for nm_, v_ in saved.items():
                    if v_ is None:
                        st.ghost.pop(nm_, None)
                    else:
                        st.ghost[nm_] = v_
                st.env.update(shadow)
    extra = []
    if w is not None:
        # the rows come from a 2-D np.where: "some t enumerates the cell" is stated through its index function w, together with
        # the fact that w finds every enumerated cell (then it is equivalent to the existential form of the Lean theorem)
        hit = lambda xx, yy: z3.And(w(xx, yy) >= 0, w(xx, yy) < k, z3.Select(r, w(xx, yy)) == xx, z3.Select(c, w(xx, yy)) == yy)
        extra = [z3.ForAll([t], z3.Implies(z3.And(t >= 0, t < k), hit(z3.Select(r, t), z3.Select(c, t))))]
    else:
        hit = lambda xx, yy: z3.Exists([t], z3.And(t >= 0, t < k, z3.Select(r, t) == xx, z3.Select(c, t) == yy))
    hyp = z3.And(k >= 0, *extra,
                 z3.ForAll([t], z3.Implies(z3.And(t >= 0, t < k), z3.And(z3.Select(r, t) >= 0, z3.Select(r, t) < n, z3.Select(c, t) >= 0, z3.Select(c, t) < n))),
                 z3.ForAll([t, u], z3.Implies(z3.And(t >= 0, t < u, u < k), z3.Or(z3.Select(r, t) != z3.Select(r, u), z3.Select(c, t) != z3.Select(c, u)))),
                 z3.ForAll([x, y], z3.Implies(z3.And(x >= 0, x < n, y >= 0, y < n), z3.Select(z3.Select(M, x), y) == z3.If(hit(x, y), z3.RealVal(1), z3.RealVal(0)))))
    hyp = z3.And(hyp, n >= 0)
    return z3.Implies(hyp, tsum(M, n) == z3.ToReal(k))


def _sb_lemma_tsum_plus_transpose(eng, st, node):
    """LEMMA (Lean: tot_add_transpose): if S[x][y] == A[x][y] + A[y][x] for all cells then tsum(S) == 2 tsum(A).  lemma_tsum_plus_transpose(A, S, n)."""
    A = _term2(eng, st, eng.ev(node.args[0], st))
    S = _term2(eng, st, eng.ev(node.args[1], st))
    n = to_z3(eng.ev(node.args[2], st), INT)
    x, y = z3.Ints('x!tt y!tt')
    hyp = z3.ForAll([x, y], z3.Implies(z3.And(x >= 0, x < n, y >= 0, y < n), z3.Select(z3.Select(S, x), y) == z3.Select(z3.Select(A, x), y) + z3.Select(z3.Select(A, y), x)))
    return z3.Implies(hyp, tsum(S, n) == 2 * tsum(A, n))


def _sb_rounds_to(eng, st, node):
    """rounds_to(r, x): r is x rounded to the nearest integer, exact halves away from zero (the contract of teachers_round)."""
    r = to_z3(eng.ev(node.args[0], st), REAL)
    x = to_z3(eng.ev(node.args[1], st), REAL)
    half = z3.RealVal('1/2')
    return z3.And(z3.IsInt(r), r >= x - half, r <= x + half, z3.Implies(r - x == half, x > 0), z3.Implies(x - r == half, x < 0))


def _sb_where_index(eng, st, node):
    """where_index(i, x, y): the position of the cell (x, y) in the result (i, j) of a 2-D np.where (meaningful where the condition holds)."""
    v = eng.ev(node.args[0], st)
    w = st.heap[v.oid].meta.get('where_idx') if isinstance(v, Ref) else None
    if w is None:
        raise ContractError('where_index: not the first result of a 2-D np.where')
    return w(to_z3(eng.ev(node.args[1], st), INT), to_z3(eng.ev(node.args[2], st), INT))


def _sb_where_index1(eng, st, node):
    """where_index1(ix, x): the position of x in the result ix of a 1-D np.where / np.delete-complement (meaningful where the condition holds)."""
    v = eng.ev(node.args[0], st)
    w = st.heap[v.oid].meta.get('where_idx') if isinstance(v, Ref) else None
    if w is None or st.heap[v.oid].meta.get('where_cond1') is None:
        raise ContractError('where_index1: not the result of a 1-D np.where')
    return w(to_z3(eng.ev(node.args[1], st), INT))


def _sb_argsort_inverse(eng, st, node):
    """argsort_inverse(e): the rank of position e under the most recent np.argsort (ascending)."""
    sinv = st.ghost.get('argsort_inverse_last')
    if sinv is None:
        raise ContractError('no np.argsort call seen')
    return z3.Select(sinv, to_z3(eng.ev(node.args[0], st), INT))


def _sb_lemma_tsum_add(eng, st, node):
    """LEMMA (Lean: tot_add): S[x][y] == A[x][y] + B[x][y] for all cells => tsum(S) == tsum(A) + tsum(B).  lemma_tsum_add(A, B, S, n)."""
    A = _term2(eng, st, eng.ev(node.args[0], st))
    B = _term2(eng, st, eng.ev(node.args[1], st))
    S = _term2(eng, st, eng.ev(node.args[2], st))
    n = to_z3(eng.ev(node.args[3], st), INT)
    x, y = z3.Ints('x!ta y!ta')
    hyp = z3.ForAll([x, y], z3.Implies(z3.And(x >= 0, x < n, y >= 0, y < n), z3.Select(z3.Select(S, x), y) == z3.Select(z3.Select(A, x), y) + z3.Select(z3.Select(B, x), y)))
    return z3.Implies(hyp, tsum(S, n) == tsum(A, n) + tsum(B, n))


def _sb_lemma_tsum_int(eng, st, node):
    """LEMMA (Lean: tot_int): a matrix of integers has an integer sum.  lemma_tsum_int(M, n)."""
    M = _term2(eng, st, eng.ev(node.args[0], st))
    n = to_z3(eng.ev(node.args[1], st), INT)
    x, y = z3.Ints('x!ti y!ti')
    hyp = z3.ForAll([x, y], z3.Implies(z3.And(x >= 0, x < n, y >= 0, y < n), z3.IsInt(z3.Select(z3.Select(M, x), y))))
    return z3.Implies(hyp, z3.IsInt(tsum(M, n)))


def _sb_lemma_full_offdiag(eng, st, node):
    """LEMMA (Lean: tot_offdiag_ones): M[x][y] == 1 off the diagonal and 0 on it => tsum(M) == n*n - n.  lemma_full_offdiag(M, n)."""
    M = _term2(eng, st, eng.ev(node.args[0], st))
    n = to_z3(eng.ev(node.args[1], st), INT)
    x, y = z3.Ints('x!fo y!fo')
    hyp = z3.And(n >= 0, z3.ForAll([x, y], z3.Implies(z3.And(x >= 0, x < n, y >= 0, y < n), z3.Select(z3.Select(M, x), y) == z3.If(x != y, z3.RealVal(1), z3.RealVal(0)))))
    return z3.Implies(hyp, tsum(M, n) == z3.ToReal(n * n - n))


def _sb_lemma_relabel_g(eng, st, node):
    """LEMMA (Lean: Qraw_relabel): the un-normalised quality depends on the labels only through the equality pattern.
    lemma_relabel_g(M, c1, c2, gamma, sd, n)."""
    W = _term2(eng, st, eng.ev(node.args[0], st))
    c1 = _term1i(eng, st, eng.ev(node.args[1], st))
    c2 = _term1i(eng, st, eng.ev(node.args[2], st))
    g = to_z3(eng.ev(node.args[3], st), REAL)
    sd = to_z3(eng.ev(node.args[4], st), REAL)
    n = to_z3(eng.ev(node.args[5], st), INT)
    y, zz = z3.Ints('y!r z!r')
    hyp = z3.ForAll([y, zz], z3.Implies(z3.And(y >= 0, y < n, zz >= 0, zz < n), (z3.Select(c1, y) == z3.Select(c1, zz)) == (z3.Select(c2, y) == z3.Select(c2, zz))))
    return z3.Implies(hyp, Qrawg(W, c1, g, sd, n) == Qrawg(W, c2, g, sd, n))


def _sb_lemma_q_from_aggregate(eng, st, node):
    """LEMMA (Lean: q_from_aggregate, DESIGN Appendix A.2): if w is the module-by-module aggregate of W for labels ci in 1..m,
    X = w / s cell by cell and s = total weight != 0, then trace(w)/s - gamma * sum(X.X) is the modularity of (W, ci).
    lemma_q_from_aggregate(w, X, W, ci, gamma, s, m, n)."""
    w = _term2(eng, st, eng.ev(node.args[0], st))
    X = _term2(eng, st, eng.ev(node.args[1], st))
    W = _term2(eng, st, eng.ev(node.args[2], st))
    c = _term1i(eng, st, eng.ev(node.args[3], st))
    g = to_z3(eng.ev(node.args[4], st), REAL)
    s_ = to_z3(eng.ev(node.args[5], st), REAL)
    m = to_z3(eng.ev(node.args[6], st), INT)
    n = to_z3(eng.ev(node.args[7], st), INT)
    a, b, y = z3.Ints('a!q b!q y!q')
    inab = z3.And(a >= 0, a < m, b >= 0, b < m)
    hyp = z3.And(z3.ForAll([a, b], z3.Implies(inab, z3.And(z3.Select(z3.Select(w, a), b) == agg(W, c, a, b, n), z3.Select(z3.Select(X, a), b) == udiv(z3.Select(z3.Select(w, a), b), s_)))),
                 z3.ForAll([y], z3.Implies(z3.And(y >= 0, y < n), z3.And(z3.Select(c, y) >= 1, z3.Select(c, y) <= m))),
                 s_ == tsum(W, n), s_ != 0)
    return z3.Implies(hyp, udiv(trace1(w, m), s_) - umul(g, sumdot(X, X, m)) == Qmod(W, c, g, n))


def _sb_result_is_empty(eng, st, node):
    r = st.ghost.get('_result')
    if isinstance(r, SList):
        return isinstance(r.length, int) and r.length == 0 and not r.slots
    return isinstance(r, (list, tuple)) and len(r) == 0


def _sb_hopsint(eng, st, node):
    f = st.ghost.get('hint')
    return f(to_z3(eng.ev(node.args[0], st), INT), to_z3(eng.ev(node.args[1], st), INT))


def _sb_Qrawg(eng, st, node):
    M = _term2(eng, st, eng.ev(node.args[0], st))
    c = _term1i(eng, st, eng.ev(node.args[1], st))
    return Qrawg(M, c, to_z3(eng.ev(node.args[2], st), REAL), to_z3(eng.ev(node.args[3], st), REAL), to_z3(eng.ev(node.args[4], st), INT))


def _sb_umul(eng, st, node):
    return umul(to_z3(eng.ev(node.args[0], st), REAL), to_z3(eng.ev(node.args[1], st), REAL))


def _sb_lemma_umul_linear(eng, st, node):
    """LEMMA (real arithmetic, trivially true of multiplication; Lean: umul_sub, umul_two): umul(d, a) - umul(d, b) == umul(d, a - b)
    and umul(d, 2 * a) == 2 * umul(d, a), instantiated for the given terms.  lemma_umul_linear(d, a, b)."""
    d, a, b = [to_z3(eng.ev(x, st), REAL) for x in node.args]
    return z3.And(umul(d, a) - umul(d, b) == umul(d, a - b), umul(d, 2 * a) == 2 * umul(d, a), umul(d, 2 * b) == 2 * umul(d, b), umul(d, 2 * (a - b)) == 2 * umul(d, a - b))


def _sb_walk(eng, st, node):
    G = _term2(eng, st, eng.ev(node.args[0], st))
    return walk(G, *[to_z3(eng.ev(a, st), INT) for a in node.args[1:]])


def _sb_sdist(eng, st, node):
    G = _term2(eng, st, eng.ev(node.args[0], st))
    return sdist(G, *[to_z3(eng.ev(a, st), INT) for a in node.args[1:]])


def _sb_lemma_walks(eng, st, node):
    """Code-independent facts about walks in the graph of nonzero entries of G (n nodes) and the shortest-walk length sdist
    (Lean: walk_one, walk_succ, walk_succ_prefix, walk_sdist, walk_add, sdist_split_suffix; table in engine/lean/README.md): lemma_walks(G, n[, k]).
      base:    walk(x,y,1) <-> G[x][y] != 0
      step:    walk(x,y,m+1) <-> exists z: walk(x,z,m) and G[z][y] != 0      (witness function for ->)
      sdist:   sdist >= 0; walk(x,y,m), m >= 1 -> 1 <= sdist(x,y) <= m;  sdist(x,y) >= 1 -> walk(x,y,sdist(x,y))
      split (for the given k): sdist(x,y) > k >= 1 -> z = splitz(x,y,k) is a node, walk(x,z,k), sdist(z,y) >= 1 and
               sdist(x,z) >= 1 -> sdist(x,y) <= sdist(x,z) + (sdist(x,y) - k)  -- i.e. the k-th node of a shortest walk is at distance exactly k:
               sdist(x,z) == k unless z == x, and in that case (a closed walk) sdist(x,y) <= sdist(x,y) - k, impossible; so z != x and sdist(x,z) == k."""
    G = _term2(eng, st, eng.ev(node.args[0], st))
    n = to_z3(eng.ev(node.args[1], st), INT)
    x, y, z, m = z3.Ints('x!w y!w z!w m!w')
    inx, iny, inz = z3.And(x >= 0, x < n), z3.And(y >= 0, y < n), z3.And(z >= 0, z < n)
    mid = z3.Function('walkmid!%d' % next(_fresh), INT, INT, INT, INT)
    first = z3.Function('walkfirst!%d' % next(_fresh), INT, INT, INT, INT)
    g = lambda a, b: z3.Select(z3.Select(G, a), b)
    out = [
        z3.ForAll([x, y], z3.Implies(z3.And(inx, iny), walk(G, x, y, 1) == (g(x, y) != 0)), patterns=[walk(G, x, y, 1)]),
        z3.ForAll([x, y, m], z3.Implies(z3.And(inx, iny, m >= 1, walk(G, x, y, m + 1)),
                                        z3.And(mid(x, y, m) >= 0, mid(x, y, m) < n, walk(G, x, mid(x, y, m), m), g(mid(x, y, m), y) != 0)), patterns=[walk(G, x, y, m + 1)]),
        z3.ForAll([x, y, z, m], z3.Implies(z3.And(inx, iny, inz, m >= 1, walk(G, x, z, m), g(z, y) != 0), walk(G, x, y, m + 1)), patterns=[z3.MultiPattern(walk(G, x, z, m), g(z, y))]),
        # the same decomposition at the first connection (prefix form)
        z3.ForAll([x, y, m], z3.Implies(z3.And(inx, iny, m >= 1, walk(G, x, y, m + 1)),
                                        z3.And(first(x, y, m) >= 0, first(x, y, m) < n, g(x, first(x, y, m)) != 0, walk(G, first(x, y, m), y, m))), patterns=[walk(G, x, y, m + 1)]),
        z3.ForAll([x, y, z, m], z3.Implies(z3.And(inx, iny, inz, m >= 1, g(x, z) != 0, walk(G, z, y, m)), walk(G, x, y, m + 1)), patterns=[z3.MultiPattern(g(x, z), walk(G, z, y, m))]),
        # a shortest walk between distinct nodes repeats no node: fewer than n connections (pigeonhole; Lean: sdist_lt_card)
        z3.ForAll([x, y], z3.And(sdist(G, x, y) >= 0, z3.Implies(z3.And(inx, iny, x != y), sdist(G, x, y) <= n - 1)), patterns=[sdist(G, x, y)]),
        z3.ForAll([x, y, m], z3.Implies(z3.And(inx, iny, m >= 1, walk(G, x, y, m)), z3.And(sdist(G, x, y) >= 1, sdist(G, x, y) <= m)), patterns=[walk(G, x, y, m)]),
        z3.ForAll([x, y], z3.Implies(z3.And(inx, iny, sdist(G, x, y) >= 1), walk(G, x, y, sdist(G, x, y))), patterns=[sdist(G, x, y)]),
    ]
    if len(node.args) > 2:
        k = to_z3(eng.ev(node.args[2], st), INT)
        zz = splitz(G, x, y, k)
        out.append(z3.ForAll([x, y], z3.Implies(z3.And(inx, iny, k >= 1, sdist(G, x, y) > k),
                                                z3.And(zz >= 0, zz < n, zz != x, walk(G, x, zz, k), sdist(G, x, zz) == k,
                                                       walk(G, zz, y, sdist(G, x, y) - k))), patterns=[sdist(G, x, y)]))      # (Lean: sdist_split_suffix)
    return z3.And(*out)


def _sb_KCf(eng, st, node):
    """KCf(CIJ, k): the matrix returned by the k-core routine for bound k (abstract callee result, contracts/core_c15.py)."""
    from contracts.core_c15 import KC
    M = _term2(eng, st, eng.ev(node.args[0], st))
    return Opaque('snapshot', obj=Obj(2, KC(M, to_z3(eng.ev(node.args[1], st), REAL)), (st.ghost.get('n0'), st.ghost.get('n0')), REAL))


def _sb_KNf(eng, st, node):
    from contracts.core_c15 import KN
    M = _term2(eng, st, eng.ev(node.args[0], st))
    return KN(M, to_z3(eng.ev(node.args[1], st), REAL))


def _sb_same_object(eng, st, node):
    a, b = eng.ev(node.args[0], st), eng.ev(node.args[1], st)
    return isinstance(a, Ref) and isinstance(b, Ref) and a.oid == b.oid


def _sb_unchanged(eng, st, node):
    """unchanged('R'): the object passed as parameter R has, now, exactly its entry-time contents."""
    nm = node.args[0].value
    if st.ghost.get('_stub_args') is not None:
        return True          # a stub never writes: the callee's "argument untouched" clause holds of the model by construction
    v = eng.entry.env[nm]
    if not isinstance(v, Ref):
        return True
    return z3.BoolVal(True) if st.heap[v.oid].term.eq(eng.entry.heap[v.oid].term) else (st.heap[v.oid].term == eng.entry.heap[v.oid].term)


def _sb_result(eng, st, node):
    r = st.ghost.get('_result')
    if node.args:
        return r[node.args[0].value]
    return r


def _sb_raised(eng, st, node):
    return st.ghost.get('_raised') == node.args[0].value


def _sb_shape_is(eng, st, node):
    v = eng.ev(node.args[0], st)
    sh = eng.np.shape(eng, st, v)
    want = [to_z3(eng.ev(a, st), INT) for a in node.args[1:]]
    return z3.And(*[to_z3(s, INT) == w for s, w in zip(sh, want)]) if len(sh) == len(want) else False


SPEC_BUILTINS = {
    'forall': _sb_forall, 'implies': _sb_implies, 'iff': _sb_iff, 'And': _sb_And, 'Or': _sb_Or, 'inr': _sb_inr, 'arg': _sb_arg,
    'rcnt': _mk_specfn(rcnt, 2), 'ccnt': _mk_specfn(ccnt, 2), 'rsum': _mk_specfn(rsum, 2), 'csum': _mk_specfn(csum, 2),
    'totF': _mk_specfn(totF, 1), 'totFp': _mk_specfn(totFp, 1), 'totFn': _mk_specfn(totFn, 1),
    'rpos': _mk_specfn(rpos, 2), 'rneg': _mk_specfn(rneg, 2), 'cpos': _mk_specfn(cpos, 2), 'cneg': _mk_specfn(cneg, 2),
    'dot2': _sb_dot2, 'isperm': _sb_isperm, 'same_object': _sb_same_object, 'unchanged': _sb_unchanged,
    'snapshot': _sb_snapshot, 'argref': _sb_argref, 'lam1': _sb_lam1, 'KCf': _sb_KCf, 'KNf': _sb_KNf, 'result_is_empty': _sb_result_is_empty, 'hopsint': _sb_hopsint, 'lam2': _sb_lam2, 'unique_witness': _sb_unique_witness, 'member': _sb_member, 'dset': _sb_dset(dset), 'rset': _sb_dset(rset), 'wset': _sb_dset(wset), 'cntb': _sb_cntb,
    'modsum': _mk_mod(modsum, 3), 'modsumT': _mk_mod(modsumT, 3), 'degsum': _mk_mod(degsum, 2), 'degsumT': _mk_mod(degsumT, 2), 'agg': _mk_mod(agg, 3),
    'Qmod': _sb_Qmod, 'walk': _sb_walk, 'isint': (lambda eng, st, node: z3.IsInt(to_z3(eng.ev(node.args[0], st), REAL))), 'sdist': _sb_sdist, 'lemma_walks': _sb_lemma_walks, 'Qrawg': _sb_Qrawg, 'umul': _sb_umul, 'lemma_umul_linear': _sb_lemma_umul_linear, 'QrawB': _mk_mod(QrawB, 1), 'tsum': _mk_specfn(tsum, 1), 'csum': _mk_specfn(csum, 2), 'lemma_modularity': _sb_lemma_modularity, 'lemma_knm_sums': _sb_lemma_knm_sums, 'lemma_relabel': _sb_lemma_relabel, 'lemma_relabel_g': _sb_lemma_relabel_g, 'lemma_agg_compose': _sb_lemma_agg_compose, 'pathsum': _sb_pathsum, 'lemma_pathsum': _sb_lemma_pathsum, 'appended_value': (lambda eng, st, node: st.ghost['_append_last'][1]), 'lemma_reach_closed': _sb_lemma_reach_closed, 'Not': (lambda eng, st, node: z3.Not(truth(eng.ev(node.args[0], st)))), 'wd': _sb_wd, 'lemma_wd': _sb_lemma_wd, 'swalk': _sb_swalk, 'lemma_floyd': _sb_lemma_floyd, 'lemma_wd_triangle': _sb_lemma_wd_triangle, 'lemma_sdist_support': _sb_lemma_sdist_support, 'inverse_lengths': _sb_inverse_lengths, 'lemma_cells': _sb_lemma_cells, 'lemma_count_support': _sb_lemma_count_support, 'lemma_count_diag': _sb_lemma_count_diag, 'lemma_count_sub': _sb_lemma_count_sub, 'nbrsum': _mk_specfn(nbrsum, 2), 'lemma_nbrsum': _sb_lemma_nbrsum, 'lemma_nbrsum_renumber': _sb_lemma_nbrsum_renumber, 'wwalkr': _sb_wwalkr, 'lemma_wwalk': _sb_lemma_wwalk, 'lemma_sum_sub': _sb_lemma_sum_sub, 'lemma_renumber': _sb_lemma_renumber, 'lemma_wd_binary': _sb_lemma_wd_binary, 'lemma_dijkstra': _sb_lemma_dijkstra, 'last_masked_argmin': _sb_last_masked_argmin, 'msq': _sb_msq, 'lemma_msq': _sb_lemma_msq, 'lemma_msq_relabel': _sb_lemma_msq_relabel, 'lemma_modsum_def': _sb_lemma_modsum_def, 'lemma_walk_ends': _sb_lemma_walk_ends, 'lemma_nonneg_sum_zero': _sb_lemma_nonneg_sum_zero, 'mpw': _sb_mpw, 'mateq': _sb_mateq, 'lemma_mpw': _sb_lemma_mpw, 'lemma_pathsum_append': _sb_lemma_pathsum_append, 'lemma_ext_B': _sb_lemma_ext_B, 'lemma_Q_from_kernel': _sb_lemma_Q_from_kernel, 'lemma_QrawB_def': _sb_lemma_QrawB_def, 'lemma_trace_agg': _sb_lemma_trace_agg, 'lemma_relabel_B': _sb_lemma_relabel_B, 'lemma_agg_compose_B': _sb_lemma_agg_compose_B, 'lemma_Qrawg_def': _sb_lemma_Qrawg_def, 'lemma_agg_compose_g': _sb_lemma_agg_compose_g, 'lemma_qg_from_aggregate': _sb_lemma_qg_from_aggregate, 'lemma_flat_count': _sb_lemma_flat_count, 'unique_count': (lambda eng, st, node: st.ghost['unique_count_last']), 'rounds_to': _sb_rounds_to, 'where_index': _sb_where_index, 'where_index1': _sb_where_index1, 'argsort_inverse': _sb_argsort_inverse, 'exists': _sb_exists, 'lemma_tsum_add': _sb_lemma_tsum_add, 'lemma_tsum_int': _sb_lemma_tsum_int, 'lemma_full_offdiag': _sb_lemma_full_offdiag, 'flat_store_rows': (lambda eng, st, node: st.ghost['_flat_store'][0]), 'flat_store_cols': (lambda eng, st, node: st.ghost['_flat_store'][1]), 'flat_store_len': (lambda eng, st, node: st.ghost['_flat_store'][2]), 'lemma_tsum_plus_transpose': _sb_lemma_tsum_plus_transpose, 'lemma_image_count': _sb_lemma_image_count,
    'frow': (lambda eng, st, node: frow(to_z3(eng.ev(node.args[0], st), INT), to_z3(eng.ev(node.args[1], st), INT))), 'fcol': (lambda eng, st, node: fcol(to_z3(eng.ev(node.args[0], st), INT), to_z3(eng.ev(node.args[1], st), INT))), 'lemma_agg_symm': _sb_lemma_agg_symm, 'lemma_agg_identity': _sb_lemma_agg_identity, 'lemma_q_from_aggregate': _sb_lemma_q_from_aggregate,
    'lemma_masked_degree': _sb_lemma_masked_degree, 'lemma_degree_monotone': _sb_lemma_degree_monotone, 'result': _sb_result, 'raised': _sb_raised, 'shape_is': _sb_shape_is,
}
