"""Discharges obligations produced by core.Engine with z3 (process pool; SMT-LIB text is what crosses process borders).

An obligation is premises => goal.  `unsat` of premises and axioms and not goal = discharged.  Anything else (sat, unknown,
timeout) = open.  Vacuity guard: per function, premises and axioms of a sample of obligations must not be refutable
quickly (`unsat` of premises alone means the contract is contradictory).
"""
import os, time, hashlib, subprocess, tempfile
import z3
from . import core
from engine.par import pmap


SPEC_NAMES = ('cnt1', 'pos1', 'neg1', 'sum1', 'sumF1', 'sumFp1', 'sumFn1', 'dot1', 'ccnt', 'cpos', 'cneg', 'csum', 'totF', 'totFp', 'totFn', 'dot2',
              'isperm', 'ixperm', 'F', 'modsum', 'modsumT', 'degsum', 'degsumT', 'walk', 'sdist', 'KC', 'KN', 'Qmod', 'Qrawg', 'QrawB', 'agg', 'umul', 'udiv', 'dset', 'rset', 'wset', 'cntb', 'tsum', 'trace1', 'sumdot')


def to_smt2(premises, goal, axioms):
    s = z3.Solver()
    if axioms:
        # the spec-function axioms are only needed by obligations that mention a spec function
        t = z3.Solver()
        for p in premises:
            t.add(p)
        t.add(z3.Not(goal))
        txt = t.to_smt2()
        if not any(('(declare-fun %s ' % nm) in txt for nm in SPEC_NAMES):
            axioms = []
    for a in axioms:
        s.add(a)
    for p in premises:
        s.add(p)
    s.add(z3.Not(goal))
    return s.to_smt2()


def _model_inputs(s, ctx, spec):
    """spec: list of (param, const name, kind[, size const name]); evaluates the model of solver s -> {param: python value}."""
    m = s.model()
    out = {}

    def val(e):
        v = m.eval(e, model_completion=True)
        if z3.is_int_value(v):
            return v.as_long()
        if z3.is_rational_value(v):
            return float(v.numerator_as_long()) / float(v.denominator_as_long())
        if z3.is_true(v) or z3.is_false(v):
            return z3.is_true(v)
        if z3.is_algebraic_value(v):
            return float(v.approx(12).numerator_as_long()) / float(v.approx(12).denominator_as_long())
        raise ValueError('no concrete value for %s' % e)
    I, R, B = z3.IntSort(ctx), z3.RealSort(ctx), z3.BoolSort(ctx)
    n = None
    for item in spec:
        param, cname, kind = item[0], item[1], item[2]
        if kind == 'int':
            out[param] = val(z3.Const(cname, I))
        elif kind == 'real':
            out[param] = val(z3.Const(cname, R))
        elif kind == 'bool':
            out[param] = val(z3.Const(cname, B))
        elif kind in ('mat', 'vec', 'ivec'):
            nn = val(z3.Const(item[3], I))
            if nn > 8:
                raise ValueError('model too large to replay (n = %d)' % nn)
            if kind == 'mat':
                a = z3.Const(cname, z3.ArraySort(I, z3.ArraySort(I, R)))
                out[param] = [[val(z3.Select(z3.Select(a, z3.IntVal(i, ctx)), z3.IntVal(j, ctx))) for j in range(nn)] for i in range(nn)]
            else:
                a = z3.Const(cname, z3.ArraySort(I, R if kind == 'vec' else I))
                out[param] = [val(z3.Select(a, z3.IntVal(i, ctx))) for i in range(nn)]
    return out


def _solve(task):
    name, smt, timeout_ms, seed = task[:4]
    mspec = task[4] if len(task) > 4 else None
    t0 = time.time()
    ctx = z3.Context()
    s = z3.Solver(ctx=ctx)
    s.set('timeout', timeout_ms)
    if seed:
        s.set('random_seed', seed)
    try:
        s.from_string(smt)
        r = str(s.check())
        reason = s.reason_unknown() if r == 'unknown' else ''
        model = ''
        if r == 'sat':
            try:
                model = str(s.model())[:1500]
                if mspec:
                    import json as _json
                    model = 'INPUTS ' + _json.dumps(_model_inputs(s, ctx, mspec))
            except Exception as e:
                model = 'no replayable model: %r' % (e,)
    except z3.Z3Exception as e:
        r, reason, model = 'error', str(e)[:300], ''
    return name, r, time.time() - t0, reason, model


def _cvc5(task):
    name, smt, timeout_ms = task
    t0 = time.time()
    try:
        import cvc5  # noqa
    except Exception:
        pass
    fn = None
    try:
        with tempfile.NamedTemporaryFile('w', suffix='.smt2', delete=False, dir=os.environ.get('VERIF_SCRATCH', None)) as fh:
            fh.write('(set-logic ALL)\n' + smt)
            fn = fh.name
        p = subprocess.run(['/usr/bin/cvc5', '--tlimit=%d' % timeout_ms, fn], capture_output=True, text=True, timeout=timeout_ms / 1000 + 10)
        out = (p.stdout.strip().splitlines() or ['error'])[0]
    except Exception as e:
        out = 'error'
    finally:
        if fn and os.path.exists(fn):
            os.unlink(fn)
    return name, out, time.time() - t0


def discharge(obls, timeout_s=30, axioms=None, use_cvc5=False, escalate=True, no_escalate=None, model_spec=None):
    """obls: list of core.Obligation -> list of dict(name, status, backend, seconds, detail)."""
    axioms = core.spec_axioms() if axioms is None else axioms
    if len({o.name for o in obls}) != len(obls):
        raise core.ContractError('discharge: obligation names are not unique (results are keyed by name)')
    tasks, trivial = [], {}
    for o in obls:
        g = z3.simplify(o.goal) if z3.is_expr(o.goal) else z3.BoolVal(bool(o.goal))
        if z3.is_true(g) or ((o.kind == 'frame' or z3.is_false(g)) and not o.premises):
            trivial[o.name] = ('discharged' if z3.is_true(g) else 'open', 'syntactic', 0.0, '' if z3.is_true(g) else 'goal is literally false', o.kind)
            continue
        # (a literally false goal with premises is still sent to the solver: the path may be infeasible)
        short = bool(no_escalate and no_escalate(o.name))      # expected-open (known finding): small budget, no escalation
        tasks.append((o.name, to_smt2(o.premises, o.goal, axioms), int((min(timeout_s, 5) if short else timeout_s) * 1000), 0, model_spec(o.name) if model_spec else None))
    res = {}
    for name, r, secs, reason, model in pmap(_solve, tasks):
        res[name] = (r, secs, reason, model)
    tasks = [t[:4] for t in tasks]
    # escalation for open ones: longer budget + different seed
    if escalate:
        again = [(n, smt, int(timeout_s * 3000), 7) for (n, smt, _, _) in tasks if res[n][0] not in ('unsat',) and not (no_escalate and no_escalate(n))]
        for name, r, secs, reason, model in pmap(_solve, again):
            if r == 'unsat' or res[name][0] != 'sat':
                res[name] = (r, res[name][1] + secs, reason, model or res[name][3])
    out = []
    kinds = {o.name: o.kind for o in obls}
    for o in obls:
        if o.name in trivial:
            stt, be, secs, det, kind = trivial[o.name]
            out.append({'name': o.name, 'status': stt, 'backend': be, 'seconds': secs, 'detail': det, 'kind': kind})
            continue
        r, secs, reason, model = res[o.name]
        out.append({'name': o.name, 'status': 'discharged' if r == 'unsat' else 'open', 'backend': 'z3', 'seconds': secs,
                    'detail': '' if r == 'unsat' else ('z3: %s %s %s' % (r, reason, model)), 'kind': kinds[o.name]})
    return out


def vacuity(eng, axioms=None, timeout_s=5):
    """Canaries (goal False must NOT be provable): the requires clauses alone, and at least one return path, must not be
    refutable.  Individual infeasible paths are fine (dead branches), a function none of whose return paths is feasible is
    not."""
    axioms = core.spec_axioms() if axioms is None else axioms
    bad = []
    res = pmap(_solve, [('requires-satisfiable', to_smt2(eng.entry_premises, z3.BoolVal(False), axioms), int(timeout_s * 1000), 0)])
    if res[0][1] == 'unsat':
        bad.append('requires clauses are contradictory')
    feasible = not eng.canaries
    for i in range(0, len(eng.canaries), 16):
        chunk = [(nm, to_smt2(pc, z3.BoolVal(False), axioms), int(timeout_s * 1000), 0) for nm, pc in eng.canaries[i:i + 16]]
        if any(r[1] != 'unsat' for r in pmap(_solve, chunk)):
            feasible = True
            break
    if not feasible:
        bad.append('no return path is feasible')
    return bad
