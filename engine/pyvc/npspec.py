"""Assumed contracts of the numpy primitives used by the functions under contract (DESIGN 3; 'assumed contracts on
dependencies', cross-checked against CPython by engine/pyvc/selftest.py).  Arrays are heap objects (core.Obj) or lazy
Row/Mat values; every primitive returns fresh storage unless stated (views: `.T` of a heap matrix is modelled as a
lazy read-only value, which is sound for the functions under contract because none of them writes through a transpose).
"""
import ast, fractions
import z3
from .core import (Ref, Obj, Row, Mat, Opaque, TupleV, Fork, ExcV, OutOfSubset, ContractError, fresh, to_z3, truth, num2, is_z3, alloc,
                   INT, REAL, BOOL, A1I, A1R, A1B, A2R, A2I, arr_sort, store2, isperm, ixperm, allclose_sym, SList, int_valued)
from . import core


# ---- views of values -------------------------------------------------------------------------------------------------
def as_row(eng, st, v):
    if isinstance(v, Row):
        return v
    if isinstance(v, Opaque) and v.kind == 'snapshot' and v.obj.ndim == 1:
        o = v.obj
        t = o.term
        return Row(o.shape[0], lambda q, t=t: z3.Select(t, q), o.esort)
    if isinstance(v, Ref):
        o = st.heap[v.oid]
        if o.ndim != 1:
            raise OutOfSubset('1-D array expected')
        t = o.term
        return Row(o.shape[0], lambda q, t=t: z3.Select(t, q), o.esort)
    if isinstance(v, (tuple, list)):
        vals = [to_z3(x) for x in v]
        srt = REAL if any(x.sort() == REAL for x in vals) else (BOOL if all(x.sort() == BOOL for x in vals) else INT)
        vals = [to_z3(x, srt) for x in vals]

        def fn(q, vals=vals):
            e = vals[-1]
            for k in range(len(vals) - 2, -1, -1):
                e = z3.If(q == k, vals[k], e)
            return e
        return Row(len(vals), fn, srt)
    raise OutOfSubset('row expected, got %r' % (v,))


def as_mat(eng, st, v):
    if isinstance(v, Mat):
        return v
    if isinstance(v, Opaque) and v.kind == 'snapshot':
        o = v.obj
        t = o.term
        return Mat(o.shape, lambda x, y, t=t: z3.Select(z3.Select(t, x), y), o.esort)
    if isinstance(v, Ref):
        o = st.heap[v.oid]
        if o.ndim != 2:
            raise OutOfSubset('2-D array expected')
        t = o.term
        return Mat(o.shape, lambda x, y, t=t: z3.Select(z3.Select(t, x), y), o.esort)
    raise OutOfSubset('matrix expected, got %r' % (v,))


def ndim_of(eng, st, v):
    if isinstance(v, Row):
        return 1
    if isinstance(v, Mat):
        return 2
    if isinstance(v, Ref):
        return st.heap[v.oid].ndim
    if isinstance(v, Opaque) and v.kind == 'snapshot':
        return v.obj.ndim
    if isinstance(v, (tuple, list)):
        return 1
    return 0


def shape(eng, st, v):
    if isinstance(v, Row):
        return (v.n,)
    if isinstance(v, Mat):
        return v.shape
    if isinstance(v, Ref):
        return st.heap[v.oid].shape
    if isinstance(v, Opaque) and v.kind == 'snapshot':
        return v.obj.shape
    if isinstance(v, (tuple, list)):
        return (len(v),)
    raise OutOfSubset('shape of %r' % (v,))


def size(eng, st, v):
    sh = shape(eng, st, v)
    r = to_z3(sh[0], INT)
    for s in sh[1:]:
        r = r * to_z3(s, INT)
    return r


def define1(st, esort, fn, name='arr'):
    """1-D array value given pointwise: a lambda term (beta-reduced by z3).  Lambda terms cannot occur in quantifier patterns,
    so wherever an array is passed to an uninterpreted spec function it is first replaced by a defined constant
    (Engine.pure)."""
    q = z3.Int('q!d')
    return z3.Lambda([q], to_z3(fn(q), esort))


def define2(st, esort, fn, name='mat'):
    x, y = z3.Int('x!d'), z3.Int('y!d')
    return z3.Lambda([x], z3.Lambda([y], to_z3(fn(x, y), esort)))


def materialise(eng, st, v):
    if isinstance(v, Ref):
        return v
    if isinstance(v, Row):
        return alloc(st, 1, define1(st, v.esort, v.fn), (v.n,), v.esort, {'identity': True} if getattr(v, 'identity', False) else None)
    if isinstance(v, Mat):
        return alloc(st, 2, define2(st, v.esort, v.fn), v.shape, v.esort, {'stack2': v.stack2} if getattr(v, 'stack2', None) is not None else None)
    raise OutOfSubset('materialise %r' % (v,))


def transpose(eng, st, v):
    if ndim_of(eng, st, v) == 1:
        return v
    m = as_mat(eng, st, v)
    return Mat((m.shape[1], m.shape[0]), lambda x, y, m=m: m.fn(y, x), m.esort)


def elementwise(eng, st, f, v):
    if ndim_of(eng, st, v) == 1:
        r = as_row(eng, st, v)
        return Row(r.n, lambda q, r=r: f(r.fn(q)), r.esort)
    m = as_mat(eng, st, v)
    return Mat(m.shape, lambda x, y, m=m: f(m.fn(x, y)), m.esort)


def _res_sort(a, b, esort):
    if esort is not None:
        return esort
    sa = a.esort if isinstance(a, (Row, Mat)) else (to_z3(a).sort() if not isinstance(a, (Ref,)) else None)
    sb = b.esort if isinstance(b, (Row, Mat)) else (to_z3(b).sort() if not isinstance(b, (Ref,)) else None)
    if REAL in (sa, sb):
        return REAL
    if sa == BOOL and sb == BOOL:
        return BOOL
    return INT


def elementwise2(eng, st, f, a, b, esort=None):
    """numpy broadcasting for the shapes that occur: scalar-array, same-shape arrays, row-vs-matrix (row broadcast over rows)."""
    da, db = ndim_of(eng, st, a), ndim_of(eng, st, b)
    if da == 2 or db == 2:
        A = as_mat(eng, st, a) if da == 2 else None
        B = as_mat(eng, st, b) if db == 2 else None
        ra = as_row(eng, st, a) if da == 1 else None
        rb = as_row(eng, st, b) if db == 1 else None
        shp = (A or B).shape

        def fn(x, y):
            va = A.fn(x, y) if A else (ra.fn(y) if ra else a)
            vb = B.fn(x, y) if B else (rb.fn(y) if rb else b)
            return f(va, vb)
        srt = _res_sort(A or ra or a, B or rb or b, esort)
        return Mat(shp, fn, srt)
    ra = as_row(eng, st, a) if da == 1 else None
    rb = as_row(eng, st, b) if db == 1 else None
    n = (ra or rb).n

    def fn1(q):
        return f(ra.fn(q) if ra else a, rb.fn(q) if rb else b)
    return Row(n, fn1, _res_sort(ra or a, rb or b, esort))


def eq_mask(eng, st, arr, val):
    """`ci == c` for a heap int array ci and a scalar c: boolean row that remembers (array term, value)."""
    r = as_row(eng, st, arr)
    v = to_z3(val, INT)
    out = Row(r.n, lambda q, r=r, v=v: to_z3(r.fn(q), INT) == v, BOOL)
    out.eqmeta = (st.heap[arr.oid].term, v)
    return out


def unpack(eng, st, val, k):
    if isinstance(val, (tuple, list)) and len(val) == k:
        return list(val)
    if isinstance(val, (Ref, Row)):
        r = as_row(eng, st, val)
        return [r.fn(z3.IntVal(t)) for t in range(k)]
    raise OutOfSubset('unpack %r into %d' % (val, k))


# ---- indexing -----------------------------------------------------------------------------------------------------
def _idx_kind(eng, st, sl):
    """classify one index expression: ('int', expr) | ('all',) | ('slice', lo, hi) | ('rev',) | ('mask', row) | ('fancy', row)"""
    if isinstance(sl, ast.Slice):
        if sl.lower is None and sl.upper is None and sl.step is None:
            return ('all',)
        if sl.lower is None and sl.upper is None and isinstance(sl.step, ast.UnaryOp) and ast.unparse(sl.step) == '-1':
            return ('rev',)
        if sl.step is None:
            lo = eng.ev(sl.lower, st) if sl.lower is not None else None
            hi = eng.ev(sl.upper, st) if sl.upper is not None else None
            return ('slice', lo, hi)
        raise OutOfSubset('slice with step')
    v = eng.ev(sl, st)
    if isinstance(v, Mat) or (isinstance(v, Ref) and st.heap[v.oid].ndim == 2):
        m = as_mat(eng, st, v)
        if m.esort == BOOL:
            return ('mask2', m, v)
        raise OutOfSubset('2-D integer index array')
    if isinstance(v, Opaque) and v.kind == 'trilidx':
        return ('trilidx', v)
    if isinstance(v, TupleV) and len(v) == 1 and isinstance(v[0], Ref) and st.heap[v[0].oid].meta.get('where_cond1') is not None:
        # x[np.where(mask)]: the positions where the 1-D mask holds
        mt = st.heap[v[0].oid].meta
        return ('mask', Row(mt['where_n'], mt['where_cond1'], BOOL))
    if isinstance(v, TupleV) and len(v) == 2 and all(isinstance(t, Ref) for t in v):
        return ('pair', as_row(eng, st, v[0]), as_row(eng, st, v[1]), v)
    if isinstance(v, TupleV) and len(v) == 2 and all(isinstance(t, (Ref, Row)) for t in v):
        return ('pairrows', as_row(eng, st, v[0]), as_row(eng, st, v[1]))
    if isinstance(v, (Ref, Row)) or (isinstance(v, (tuple, list)) and not isinstance(v, Opaque)):
        if isinstance(v, (tuple, list)):
            return ('fancy', as_row(eng, st, v))
        r = as_row(eng, st, v)
        return ('mask', r) if r.esort == BOOL else ('fancy', r)
    if isinstance(v, Opaque) and v.kind == 'ix':
        return ('ix', v)
    return ('int', to_z3(v, INT))


def index1(eng, st, v, t):
    return as_row(eng, st, v).fn(to_z3(t, INT))


def bounds(eng, st, idx, n, what):
    eng.oblige(st, 'bounds/%s' % what, z3.And(idx >= 0, idx < to_z3(n, INT)), kind='safety')


def getitem(eng, st, base, sl):
    if isinstance(base, Opaque) and base.kind == 'flat':
        raise OutOfSubset('.flat read')
    if isinstance(base, (tuple, list)) and not isinstance(base, Opaque):
        k = eng.ev(sl, st)
        if isinstance(k, int):
            return base[k]
        if base and all(is_z3(e_) or isinstance(e_, (int, float)) for e_ in base) and not isinstance(sl, ast.Slice):
            return as_row(eng, st, base).fn(to_z3(k, INT))        # a short literal list of scalars read at a symbolic position
        raise OutOfSubset('tuple index')
    nd = ndim_of(eng, st, base)
    line = getattr(sl, 'lineno', 0)
    if nd == 1:
        r = as_row(eng, st, base)
        kind = _idx_kind(eng, st, sl)
        if kind[0] == 'int':
            bounds(eng, st, kind[1], r.n, 'read:%s' % ast.unparse(sl)[:24])
            return r.fn(kind[1])
        if kind[0] == 'all':
            return r
        if kind[0] == 'rev':
            # a[::-1] as a NAMED array with a defining axiom (instead of a lambda that beta-reduces to a[n-1-q]): positions of the
            # reversed array then occur as plain indices in later terms, which keeps quantifier patterns usable
            n = to_z3(r.n, INT)
            t_ = fresh('rev', arr_sort(1, r.esort))
            q_ = z3.Int('q!rv')
            st.pc.append(z3.ForAll([q_], z3.Implies(z3.And(q_ >= 0, q_ < n), z3.Select(t_, q_) == to_z3(r.fn(n - 1 - q_), r.esort)), patterns=[z3.Select(t_, q_)]))
            return alloc(st, 1, t_, (r.n,), r.esort)
        if kind[0] == 'fancy':
            f = kind[1]
            return Row(f.n, lambda q, r=r, f=f: r.fn(f.fn(q)), r.esort)
        if kind[0] == 'slice':
            n_ = to_z3(r.n, INT)
            lo = to_z3(kind[1], INT) if kind[1] is not None else z3.IntVal(0)
            hi = to_z3(kind[2], INT) if kind[2] is not None else n_
            # numpy semantics of a[lo:hi] for NON-NEGATIVE bounds: both are clamped to the length and an inverted range is empty.
            # Negative bounds count from the end; they are not modelled: non-negativity is an obligation.
            if kind[1] is not None or kind[2] is not None:
                eng.oblige(st, 'bounds/slice-nonnegative:%s' % ast.unparse(sl)[:24], z3.And(lo >= 0, hi >= 0), kind='safety')
                lo = z3.simplify(z3.If(lo <= n_, lo, n_))
                hi = z3.simplify(z3.If(hi <= n_, hi, n_))
                ln = z3.simplify(z3.If(hi >= lo, hi - lo, 0))
            else:
                ln = hi - lo
            out = Row(ln, lambda q, r=r, lo=lo: r.fn(lo + q), r.esort)
            out.slice_of = (r, lo, ln)          # lets a scatter store quantify over positions of the sliced row (no offset arithmetic)
            return out
        if kind[0] == 'mask' and isinstance(base, Ref):
            # W[mask] for W = np.where(c)[0] (ascending positions where c holds) and a mask over the positions of W: the nodes w with c(w) whose
            # position in W is selected, ascending -- again the result of an np.where over the node range, with the combined condition
            bm = st.heap[base.oid].meta or {}
            widx_, cW, nW = bm.get('where_idx'), bm.get('where_cond1'), bm.get('where_n')
            if widx_ is not None and cW is not None and nW is not None:
                mk = kind[1]
                comb = Row(nW, lambda w, cW=cW, mk=mk, widx_=widx_: z3.And(truth(cW(w)), truth(mk.fn(widx_(w)))), BOOL)
                return np_where(eng, st, [comb], {}, None)[0]
        raise OutOfSubset('1-D index kind %s' % kind[0])
    if nd == 2:
        m = as_mat(eng, st, base)
        elts = sl.elts if isinstance(sl, ast.Tuple) else None
        if elts is None:
            kind = _idx_kind(eng, st, sl)
            if kind[0] == 'ix' and getattr(kind[1].rows, 'eqmeta', None) is not None and getattr(kind[1].cols, 'eqmeta', None) is not None and isinstance(base, Ref):
                ra, rb = kind[1].rows.eqmeta, kind[1].cols.eqmeta
                if not ra[0].eq(rb[0]):
                    raise OutOfSubset('np.ix_ of masks over different label arrays')
                out = Mat(m.shape, lambda x, y: (_ for _ in ()).throw(OutOfSubset('elementwise use of a block')), m.esort)
                out.aggmeta = (eng.pure(st.heap[base.oid].term), eng.pure(ra[0]), ra[1], rb[1], m.shape[0])
                return out
            if kind[0] == 'ix':
                p, q2 = kind[1].rows, kind[1].cols
                if kind[1].same and isinstance(base, Ref) and kind[1].perm_term is not None:
                    # M[np.ix_(p, p)] with p a heap int array: spec function ixperm carries the permutation lemmas
                    M = st.heap[base.oid].term
                    return alloc(st, 2, ixperm(eng.pure(M), eng.pure(kind[1].perm_term)), (p.n, p.n), m.esort)
                return Mat((p.n, q2.n), lambda x, y, m=m, p=p, q2=q2: m.fn(p.fn(x), q2.fn(y)), m.esort)
            if kind[0] == 'int':
                bounds(eng, st, kind[1], m.shape[0], 'readrow:%s' % ast.unparse(sl)[:24])
                return Row(m.shape[1], lambda y, m=m, x=kind[1]: m.fn(x, y), m.esort)
            if kind[0] == 'mask2':
                # M[boolean matrix]: the selected entries as a 1-D array; only their SUM is modelled (np.sum of the selection)
                out = Row(fresh('nsel', INT), lambda q: (_ for _ in ()).throw(OutOfSubset('elementwise use of a 2-D mask selection')), m.esort)
                out.masksum = (m, kind[1])
                return out
            if kind[0] == 'fancy':
                f = kind[1]
                return Mat((f.n, m.shape[1]), lambda x, y, m=m, f=f: m.fn(f.fn(x), y), m.esort)
            if kind[0] == 'pair':
                f0, f1 = kind[1], kind[2]
                out = Row(f0.n, lambda q, m=m, f0=f0, f1=f1: m.fn(f0.fn(q), f1.fn(q)), m.esort)
                i_ref, j_ref = kind[3]
                mi, mj = st.heap[i_ref.oid].meta or {}, st.heap[j_ref.oid].meta or {}
                if mi.get('where_cond') is not None and mi.get('where_id') is not None and mi.get('where_id') == mj.get('where_id'):
                    # M[np.where(mask)] selects the cells where the mask holds, each once, in row-major order: the same entries as M[mask];
                    # its SUM is the sum of M over the masked cells (Lean: tot_eq_sum_enumeration_of_inj_surj for the enumeration of the cells)
                    cond = mi['where_cond']
                    out.masksum = (m, Mat(m.shape, lambda x, y, cond=cond: cond(x, y), BOOL))
                    out.masksum_base = st.heap[base.oid].term if isinstance(base, Ref) else None     # contents of the indexed matrix at the time of the read
                return out
            raise OutOfSubset('2-D single index %s' % kind[0])
        if len(elts) != 2:
            raise OutOfSubset('index arity')
        k0, k1 = _idx_kind(eng, st, elts[0]), _idx_kind(eng, st, elts[1])
        if k0[0] == 'int' and k1[0] == 'int':
            bounds(eng, st, k0[1], m.shape[0], 'read0:%s' % ast.unparse(sl)[:24])
            bounds(eng, st, k1[1], m.shape[1], 'read1:%s' % ast.unparse(sl)[:24])
            return m.fn(k0[1], k1[1])
        if k0[0] == 'int' and k1[0] == 'all':
            bounds(eng, st, k0[1], m.shape[0], 'readrow:%s' % ast.unparse(sl)[:24])
            return Row(m.shape[1], lambda y, m=m, x=k0[1]: m.fn(x, y), m.esort)
        if k0[0] == 'all' and k1[0] == 'int':
            bounds(eng, st, k1[1], m.shape[1], 'readcol:%s' % ast.unparse(sl)[:24])
            return Row(m.shape[0], lambda x, m=m, y=k1[1]: m.fn(x, y), m.esort)
        if k0[0] == 'fancy' and k1[0] == 'all':
            f = k0[1]
            return Mat((f.n, m.shape[1]), lambda x, y, m=m, f=f: m.fn(f.fn(x), y), m.esort)
        if k0[0] == 'int' and k1[0] == 'fancy':
            f = k1[1]
            return Row(f.n, lambda q, m=m, f=f, x=k0[1]: m.fn(x, f.fn(q)), m.esort)
        if k0[0] == 'fancy' and k1[0] == 'int':
            f = k0[1]
            bounds(eng, st, k1[1], m.shape[1], 'readcol:%s' % ast.unparse(sl)[:24])
            return Row(f.n, lambda q, m=m, f=f, y=k1[1]: m.fn(f.fn(q), y), m.esort)
        if k0[0] == 'int' and k1[0] == 'mask':
            # M[x, mask]: the entries of row x where the mask holds; only its size and its minimum are modelled
            mk = k1[1]
            ref_ = materialise(eng, st, Row(mk.n, lambda q, mk=mk: truth(mk.fn(q)), BOOL))
            cnt_ = core.cntb(eng.pure(st.heap[ref_.oid].term), to_z3(mk.n, INT))
            # what is used of the count: it is >= 0, it is 0 exactly when the mask holds nowhere (Lean: card_eq_zero; witness Skolemised)
            q_ = z3.Int('q!cm')
            w0 = fresh('maskwit', INT)
            st.pc.append(z3.And(cnt_ >= 0, z3.Implies(cnt_ > 0, z3.And(w0 >= 0, w0 < to_z3(mk.n, INT), truth(mk.fn(w0)))),
                                z3.Implies(cnt_ == 0, z3.ForAll([q_], z3.Implies(z3.And(q_ >= 0, q_ < to_z3(mk.n, INT)), z3.Not(truth(mk.fn(q_))))))))
            out = Row(cnt_, lambda q: (_ for _ in ()).throw(OutOfSubset('elementwise use of a mask selection')), m.esort)
            out.masksel = (Row(m.shape[1], lambda y, m=m, x=k0[1]: m.fn(x, y), m.esort), mk)
            return out
        if k0[0] == 'all' and k1[0] == 'fancy':
            f = k1[1]
            return Mat((m.shape[0], f.n), lambda x, y, m=m, f=f: m.fn(x, f.fn(y)), m.esort)
        if (k0[0] == 'all' and k1[0] == 'mask') or (k0[0] == 'mask' and k1[0] == 'all'):
            mk = k1[1] if k0[0] == 'all' else k0[1]
            if getattr(mk, 'eqmeta', None) is None or not isinstance(base, Ref):
                raise OutOfSubset('column/row selection by a mask that is not `labels == value`')
            out = Mat(m.shape, lambda x, y: (_ for _ in ()).throw(OutOfSubset('elementwise use of a mask-selected submatrix')), m.esort)
            out.selmeta = ('cols' if k0[0] == 'all' else 'rows', eng.pure(st.heap[base.oid].term), eng.pure(mk.eqmeta[0]), mk.eqmeta[1], m.shape[0])
            return out
        if k0[0] == 'fancy' and k1[0] == 'fancy':
            f0, f1 = k0[1], k1[1]
            return Row(f0.n, lambda q, m=m, f0=f0, f1=f1: m.fn(f0.fn(q), f1.fn(q)), m.esort)
        raise OutOfSubset('2-D index kinds %s,%s' % (k0[0], k1[0]))
    raise OutOfSubset('subscript of scalar')


def _scatter_hit(f0, f1):
    """hit(x, y): some position of the paired index rows (f0, f1) addresses the cell (x, y)."""
    t = z3.Int('t!sc')
    s0, s1 = getattr(f0, 'slice_of', None), getattr(f1, 'slice_of', None)
    if s0 is not None and s1 is not None and z3.simplify(s0[1] - s1[1]).eq(z3.IntVal(0)) and z3.simplify(to_z3(s0[2], INT) - to_z3(s1[2], INT)).eq(z3.IntVal(0)):
        # both index rows are the same slice [lo:hi] of two rows: quantify over the position u in the sliced rows, so that the
        # bound variable occurs as a plain index (I[u]) and not inside an offset (I[lo + t])
        b0, lo_, ln_ = s0
        b1 = s1[0]
        return lambda x, y: z3.Exists([t], z3.And(t >= lo_, t < lo_ + to_z3(ln_, INT), to_z3(b0.fn(t), INT) == x, to_z3(b1.fn(t), INT) == y))
    return lambda x, y: z3.Exists([t], z3.And(t >= 0, t < to_z3(f0.n, INT), to_z3(f0.fn(t), INT) == x, to_z3(f1.fn(t), INT) == y))


def setitem(eng, st, base, sl, val, node):
    if isinstance(base, Opaque) and base.kind == 'flat':
        # M.flat[idx] = scalar with idx a 1-D array of flat positions: every addressed cell is overwritten.  Validity of the
        # positions is a safety obligation (provable only for positions that come from np.where(X.flat) of an equally shaped X)
        tgt = base.base
        if not isinstance(tgt, Ref) or st.heap[tgt.oid].ndim != 2 or isinstance(val, (Ref, Row, Mat)):
            raise OutOfSubset('.flat store form')
        kind = _idx_kind(eng, st, sl)
        if kind[0] != 'fancy':
            raise OutOfSubset('.flat store with index kind %s' % kind[0])
        f = kind[1]
        o = st.heap[tgt.oid]
        n0, n1 = to_z3(o.shape[0], INT), to_z3(o.shape[1], INT)
        L = to_z3(f.n, INT)
        t = z3.Int('t!fs')
        it = to_z3(f.fn(t), INT)
        eng.oblige(st, 'bounds/flatstore:%s' % ast.unparse(node)[:24],
                   z3.ForAll([t], z3.Implies(z3.And(t >= 0, t < L), z3.And(core.frow(it, n1) >= 0, core.frow(it, n1) < n0, core.fcol(it, n1) >= 0, core.fcol(it, n1) < n1, core.fvalid(it, n0, n1)))), kind='safety')
        old = o.term
        v = to_z3(val, o.esort)
        o.term = define2(st, o.esort, lambda x, y: z3.If(z3.Exists([t], z3.And(t >= 0, t < L, core.frow(it, n1) == x, core.fcol(it, n1) == y)), v, z3.Select(z3.Select(old, x), y)))
        o.meta = {}
        # for ghost code: the cells addressed by the most recent flat store, however the index expression is written
        st.ghost['_flat_store'] = (materialise(eng, st, Row(f.n, lambda q, f=f, n1=n1: core.frow(to_z3(f.fn(q), INT), n1), INT)),
                                   materialise(eng, st, Row(f.n, lambda q, f=f, n1=n1: core.fcol(to_z3(f.fn(q), INT), n1), INT)), f.n)
        return
    if not isinstance(base, Ref):
        raise OutOfSubset('store into non-heap value')
    o = st.heap[base.oid]
    line = getattr(node, 'lineno', 0)
    o.meta.pop('perm_inv', None)
    if o.ndim == 1:
        kind = _idx_kind(eng, st, sl)
        if kind[0] == 'int':
            bounds(eng, st, kind[1], o.shape[0], 'store:%s' % ast.unparse(node)[:24])
            o.term = z3.Store(o.term, kind[1], to_z3(val, o.esort))
            return
        if kind[0] == 'mask':
            mk = kind[1]
            old = o.term
            q = z3.Int('q!s')
            v = to_z3(val, o.esort) if not isinstance(val, (Ref, Row)) else None
            if v is None:
                raise OutOfSubset('masked store of array')
            o.term = define1(st, o.esort, lambda q: z3.If(z3.And(q >= 0, q < to_z3(o.shape[0], INT), truth(mk.fn(q))), v, z3.Select(old, q)))
            return
        if kind[0] == 'fancy':
            f = kind[1]
            old = o.term
            q = z3.Int('q!s')
            t = z3.Int('t!s')
            v = to_z3(val, o.esort) if not isinstance(val, (Ref, Row)) else None
            if v is None:
                raise OutOfSubset('fancy store of array')
            o.term = define1(st, o.esort, lambda q: z3.If(z3.Exists([t], z3.And(t >= 0, t < to_z3(f.n, INT), to_z3(f.fn(t), INT) == q)), v, z3.Select(old, q)))
            return
        raise OutOfSubset('1-D store kind %s' % kind[0])
    elts = sl.elts if isinstance(sl, ast.Tuple) else None
    if elts is None:
        kind = _idx_kind(eng, st, sl)
        x, y = z3.Int('x!s'), z3.Int('y!s')
        old = o.term
        inb = z3.And(x >= 0, x < to_z3(o.shape[0], INT), y >= 0, y < to_z3(o.shape[1], INT))
        if kind[0] == 'trilidx':
            v = to_z3(val, o.esort)
            kk = to_z3(kind[1].k, INT)
            o.term = define2(st, o.esort, lambda x, y: z3.If(z3.And(x >= 0, x < to_z3(o.shape[0], INT), y >= 0, y < to_z3(o.shape[1], INT), y - x <= kk), v, z3.Select(z3.Select(old, x), y)))
            return
        if kind[0] == 'pairrows':
            # W[(rowsA, rowsB)] = scalar with computed index rows: every cell (rowsA[t], rowsB[t]), t < len, is overwritten
            f0, f1 = kind[1], kind[2]
            v = to_z3(val, o.esort)
            t = z3.Int('t!sc')
            hitc = _scatter_hit(f0, f1)
            o.term = define2(st, o.esort, lambda x, y: z3.If(hitc(x, y), v, z3.Select(z3.Select(old, x), y)))
            return
        if kind[0] == 'mask2':
            mk = kind[1]
            if isinstance(val, (Ref, Row)) and ndim_of(eng, st, val) == 1:
                # M[mask] = values: the e-th true cell in row-major order receives values[e].  np.where(mask) enumerates the true cells in the
                # same order; if it was taken of this very mask object (contents unchanged since), its index function widx(x, y) is the
                # position of cell (x, y) in that enumeration.  Otherwise the position function is an unconstrained fresh function.
                mv = kind[2]
                wid = None
                if isinstance(mv, Ref):
                    for ob in st.heap.values():
                        src_ = ob.meta.get('where_src') if ob.meta else None
                        if src_ is not None and src_[0] == mv.oid and src_[1].eq(st.heap[mv.oid].term) and ob.meta.get('where_idx') is not None:
                            wid = ob.meta['where_idx']
                if wid is None:
                    wid = z3.Function('maskpos!%d' % next(core._fresh), INT, INT, INT)
                r = as_row(eng, st, val)
                o.term = define2(st, o.esort, lambda x, y: z3.If(z3.And(x >= 0, x < to_z3(o.shape[0], INT), y >= 0, y < to_z3(o.shape[1], INT), truth(mk.fn(x, y))), to_z3(r.fn(wid(x, y)), o.esort), z3.Select(z3.Select(old, x), y)))
                return
            if isinstance(val, (Ref, Row, Mat)):
                raise OutOfSubset('2-D masked store of an array')
            v = to_z3(val, o.esort)
            o.term = define2(st, o.esort, lambda x, y: z3.If(z3.And(x >= 0, x < to_z3(o.shape[0], INT), y >= 0, y < to_z3(o.shape[1], INT), truth(mk.fn(x, y))), v, z3.Select(z3.Select(old, x), y)))
            return
        if kind[0] == 'int' and not isinstance(val, (Ref, Row, Mat)):
            bounds(eng, st, kind[1], o.shape[0], 'storerow:%s' % ast.unparse(node)[:24])
            v = to_z3(val, o.esort)
            o.term = z3.Store(old, kind[1], define1(st, o.esort, lambda yy: z3.If(z3.And(yy >= 0, yy < to_z3(o.shape[1], INT)), v, z3.Select(z3.Select(old, kind[1]), yy))))
            return
        if kind[0] == 'pair':
            i_ref, j_ref = kind[3]
            mi, mj = st.heap[i_ref.oid].meta, st.heap[j_ref.oid].meta
            wid = mi.get('where_idx')
            if wid is None or mi.get('where_id') is None or mi.get('where_id') != mj.get('where_id'):
                raise OutOfSubset('scatter store with index arrays that are not the result of one np.where')
            cond = mi['where_cond']
            if isinstance(val, (Ref, Row)):
                r = as_row(eng, st, val)
                vfn = lambda xx, yy: to_z3(r.fn(wid(xx, yy)), o.esort)
            else:
                vv = to_z3(val, o.esort)
                vfn = lambda xx, yy: vv
            o.term = define2(st, o.esort, lambda x, y: z3.If(z3.And(x >= 0, x < to_z3(o.shape[0], INT), y >= 0, y < to_z3(o.shape[1], INT), truth(cond(x, y))), vfn(x, y), z3.Select(z3.Select(old, x), y)))
            return
        raise OutOfSubset('2-D store with one index (%s)' % kind[0])
    k0, k1 = _idx_kind(eng, st, elts[0]), _idx_kind(eng, st, elts[1])
    x, y = z3.Int('x!s'), z3.Int('y!s')
    old = o.term
    if k0[0] == 'int' and k1[0] == 'int':
        bounds(eng, st, k0[1], o.shape[0], 'store0:%s' % ast.unparse(node)[:24])
        bounds(eng, st, k1[1], o.shape[1], 'store1:%s' % ast.unparse(node)[:24])
        o.term = store2(old, k0[1], k1[1], to_z3(val, o.esort))
        return
    if k0[0] == 'all' and k1[0] == 'all' and isinstance(val, (Ref, Mat)):
        mv = as_mat(eng, st, val)
        o.term = define2(st, o.esort, lambda x, y: z3.If(z3.And(x >= 0, x < to_z3(o.shape[0], INT), y >= 0, y < to_z3(o.shape[1], INT)), to_z3(mv.fn(x, y), o.esort), z3.Select(z3.Select(old, x), y)))
        return
    if k0[0] == 'int' and k1[0] == 'all':
        bounds(eng, st, k0[1], o.shape[0], 'storerow:%s' % ast.unparse(node)[:24])
        if isinstance(val, (Ref, Row)):
            r = as_row(eng, st, val)
            o.term = z3.Store(old, k0[1], define1(st, o.esort, lambda y: z3.If(z3.And(y >= 0, y < to_z3(o.shape[1], INT)), to_z3(r.fn(y), o.esort), z3.Select(z3.Select(old, k0[1]), y))))
        else:
            v = to_z3(val, o.esort)
            o.term = z3.Store(old, k0[1], define1(st, o.esort, lambda y: z3.If(z3.And(y >= 0, y < to_z3(o.shape[1], INT)), v, z3.Select(z3.Select(old, k0[1]), y))))
        return
    if k0[0] == 'all' and k1[0] == 'int':
        bounds(eng, st, k1[1], o.shape[1], 'storecol:%s' % ast.unparse(node)[:24])
        c = k1[1]
        if isinstance(val, (Ref, Row)):
            r = as_row(eng, st, val)
            o.term = define2(st, o.esort, lambda x, y: z3.If(z3.And(x >= 0, x < to_z3(o.shape[0], INT), y == c), to_z3(r.fn(x), o.esort), z3.Select(z3.Select(old, x), y)))
        else:
            v = to_z3(val, o.esort)
            o.term = define2(st, o.esort, lambda x, y: z3.If(z3.And(x >= 0, x < to_z3(o.shape[0], INT), y == c), v, z3.Select(z3.Select(old, x), y)))
        return
    if k0[0] in ('mask', 'fancy') and k1[0] == 'all' or k0[0] == 'all' and k1[0] in ('mask', 'fancy'):
        rowsel = k0[0] != 'all'
        sel = k0[1] if rowsel else k1[1]
        v = to_z3(val, o.esort) if not isinstance(val, (Ref, Row, Mat)) else None
        if v is None:
            raise OutOfSubset('masked row/column store of array')
        t = z3.Int('t!s')

        selref = eng.ev(elts[0] if rowsel else elts[1], st)
        wc = st.heap[selref.oid].meta.get('where_cond1') if isinstance(selref, Ref) else None
        wn = st.heap[selref.oid].meta.get('where_n') if isinstance(selref, Ref) else None

        def hit(ix):
            if wc is not None:
                # the index array is the result of np.where(mask): ix is hit iff it is in range and mask[ix] holds
                return z3.And(ix >= 0, ix < to_z3(wn, INT), truth(wc(ix)))
            if sel.esort == BOOL:
                return z3.And(ix >= 0, ix < to_z3(sel.n, INT), truth(sel.fn(ix)))
            return z3.Exists([t], z3.And(t >= 0, t < to_z3(sel.n, INT), to_z3(sel.fn(t), INT) == ix))
        inb = z3.And(x >= 0, x < to_z3(o.shape[0], INT), y >= 0, y < to_z3(o.shape[1], INT))
        o.term = define2(st, o.esort, lambda x, y: z3.If(z3.And(x >= 0, x < to_z3(o.shape[0], INT), y >= 0, y < to_z3(o.shape[1], INT), hit(x if rowsel else y)), v, z3.Select(z3.Select(old, x), y)))
        return
    if k0[0] == 'int' and k1[0] == 'fancy' and isinstance(val, (Ref, Row)):
        # M[x, W] = d with W the result of a 1-D np.where(cond) (pairwise distinct positions) and d of the same length:
        # entry y of row x becomes d[position of y in W] where cond(y) holds
        wv = eng.ev(elts[1], st)
        meta = st.heap[wv.oid].meta if isinstance(wv, Ref) else {}
        if meta.get('where_cond1') is None:
            raise OutOfSubset('row store through an index array that is not the result of np.where')
        cond, widx = meta['where_cond1'], meta['where_idx']
        dv = as_row(eng, st, val)
        bounds(eng, st, k0[1], o.shape[0], 'storerow:%s' % ast.unparse(node)[:24])
        x0 = k0[1]
        n1 = to_z3(o.shape[1], INT)
        newrow = define1(st, o.esort, lambda yy: z3.If(z3.And(yy >= 0, yy < n1, truth(cond(yy))), to_z3(dv.fn(widx(yy)), o.esort), z3.Select(z3.Select(old, x0), yy)))
        o.term = z3.Store(old, x0, newrow)
        return
    if k0[0] == 'int' and k1[0] == 'fancy' and not isinstance(val, (Ref, Row, Mat)):
        # M[x, W] = scalar with W the result of a 1-D np.where(cond): every entry y of row x with cond(y) becomes the scalar
        wv = eng.ev(elts[1], st)
        meta = st.heap[wv.oid].meta if isinstance(wv, Ref) else {}
        if meta.get('where_cond1') is None:
            raise OutOfSubset('row store through an index array that is not the result of np.where')
        cond = meta['where_cond1']
        v = to_z3(val, o.esort)
        bounds(eng, st, k0[1], o.shape[0], 'storerow:%s' % ast.unparse(node)[:24])
        x0 = k0[1]
        n1 = to_z3(o.shape[1], INT)
        newrow = define1(st, o.esort, lambda yy: z3.If(z3.And(yy >= 0, yy < n1, yy < to_z3(meta['where_n'], INT), truth(cond(yy))), v, z3.Select(z3.Select(old, x0), yy)))
        o.term = z3.Store(old, x0, newrow)
        return
    if k0[0] == 'fancy' and k1[0] == 'fancy' and not isinstance(val, (Ref, Row, Mat)):
        # W[rowsA, rowsB] = scalar: numpy pairs the two index arrays element by element
        f0, f1 = k0[1], k1[1]
        v = to_z3(val, o.esort)
        hit2 = _scatter_hit(f0, f1)
        o.term = define2(st, o.esort, lambda xx, yy: z3.If(hit2(xx, yy), v, z3.Select(z3.Select(old, xx), yy)))
        return
    raise OutOfSubset('2-D store kinds %s,%s' % (k0[0], k1[0]))


def inplace(eng, st, ref, op, rhs):
    o = st.heap[ref.oid]
    cur = ref
    new = eng.binop(op, cur, rhs, st)
    m = materialise(eng, st, new) if isinstance(new, (Row, Mat)) else new
    o.term = st.heap[m.oid].term
    o.meta = {}


# ---- numpy functions ---------------------------------------------------------------------------------------------------
def call(eng, st, name, args, kw, node):
    f = globals().get('np_' + name)
    if f is None:
        raise OutOfSubset('numpy function np.%s' % name)
    return f(eng, st, args, kw, node)


def _mentions_var(e, v):
    todo, seen_ = [e], set()
    while todo:
        t_ = todo.pop()
        if t_.get_id() in seen_:
            continue
        seen_.add(t_.get_id())
        if t_.eq(v):
            return True
        if z3.is_app(t_):
            todo.extend(t_.children())
    return False


def np_where(eng, st, args, kw, node):
    if len(args) == 3:
        c, a, b = args
        return elementwise2(eng, st, lambda p, q: p, elementwise2(eng, st, lambda cc, aa: (cc, aa), c, a), b) if False else _where3(eng, st, c, a, b)
    v = args[0]
    if isinstance(v, Opaque) and v.kind == 'flat':
        return _where_flat(eng, st, v.base)
    if ndim_of(eng, st, v) == 2:
        m = as_mat(eng, st, v)
        n0, n1 = to_z3(m.shape[0], INT), to_z3(m.shape[1], INT)
        k = fresh('k_where', INT)
        it, jt = fresh('wi', A1I), fresh('wj', A1I)
        e, f = z3.Ints('e!w f!w')
        st.pc.append(k >= 0)
        ie, je = z3.Select(it, e), z3.Select(jt, e)
        st.pc.append(z3.ForAll([e], z3.Implies(z3.And(e >= 0, e < k),
                                               z3.And(ie >= 0, ie < n0, je >= 0, je < n1, truth(m.fn(ie, je)))), patterns=[z3.MultiPattern(z3.Select(it, e), z3.Select(jt, e))]))
        # row-major strict order => entries pairwise distinct
        i_f, j_f = z3.Select(it, f), z3.Select(jt, f)
        st.pc.append(z3.ForAll([e, f], z3.Implies(z3.And(e >= 0, e < f, f < k), z3.Or(ie < i_f, z3.And(ie == i_f, je < j_f)))))
        # coverage (Skolem index function)
        widx = z3.Function('widx!%d' % next(core._fresh), INT, INT, INT)
        x, y = z3.Ints('x!w y!w')
        wx = widx(x, y)
        st.pc.append(z3.ForAll([x, y], z3.Implies(z3.And(x >= 0, x < n0, y >= 0, y < n1, truth(m.fn(x, y))),
                                                  z3.And(wx >= 0, wx < k, z3.Select(it, wx) == x, z3.Select(jt, wx) == y)), patterns=[widx(x, y)]))
        wid_ = next(core._fresh)
        cond = (lambda xx, yy, m=m: m.fn(xx, yy))
        src_ = (v.oid, st.heap[v.oid].term) if isinstance(v, Ref) else None      # the mask object and its contents when np.where was taken
        ri = alloc(st, 1, it, (k,), INT, {'where_idx': widx, 'where_id': wid_, 'where_cond': cond, 'where_src': src_})
        rj = alloc(st, 1, jt, (k,), INT, {'where_id': wid_})
        return TupleV((ri, rj))
    r = as_row(eng, st, v)
    n0 = to_z3(r.n, INT)
    k = fresh('k_where', INT)
    it = fresh('wi', A1I)
    e, f = z3.Ints('e!w f!w')
    st.pc.append(z3.And(k >= 0, k <= n0))
    ie = z3.Select(it, e)
    st.pc.append(z3.ForAll([e], z3.Implies(z3.And(e >= 0, e < k), z3.And(ie >= 0, ie < n0, truth(r.fn(ie))))))
    st.pc.append(z3.ForAll([e, f], z3.Implies(z3.And(e >= 0, e < f, f < k), ie < z3.Select(it, f))))
    x = z3.Int('x!w')
    widx = z3.Function('widx!%d' % next(core._fresh), INT, INT)
    pats = [widx(x)]
    try:
        # also triggered by the tested entry itself (M[u][x], id[x]): the first array read whose index is exactly the position, so
        # that a fact about that entry finds the position in the result
        todo, seen_ = [to_z3(r.fn(x))], set()
        while todo:
            e_ = todo.pop()
            if e_.get_id() in seen_ or not z3.is_app(e_):
                continue
            seen_.add(e_.get_id())
            if e_.decl().kind() == z3.Z3_OP_SELECT and e_.arg(1).eq(x) and not _mentions_var(e_.arg(0), x) and not core._has_lambda(e_):
                pats.append(e_)
                break
            todo.extend(e_.children())
    except Exception:
        pass
    body_ = z3.Implies(z3.And(x >= 0, x < n0, truth(r.fn(x))), z3.And(widx(x) >= 0, widx(x) < k, z3.Select(it, widx(x)) == x))
    try:
        st.pc.append(z3.ForAll([x], body_, patterns=pats))
    except z3.Z3Exception:
        st.pc.append(z3.ForAll([x], body_, patterns=[widx(x)]))
    # emptiness form (no Skolem function; patterns inferred from the condition): a position satisfying the condition makes the result non-empty
    st.pc.append(z3.ForAll([x], z3.Implies(z3.And(x >= 0, x < n0, truth(r.fn(x))), k >= 1)))
    return TupleV((alloc(st, 1, it, (k,), INT, {'where_idx': widx, 'where_cond1': (lambda q, r=r: r.fn(q)), 'where_n': r.n}),))


def _where_flat(eng, st, base):
    """np.where(M.flat) for a 2-D M: the flat (row-major) positions of the true cells, ascending.  The flat position i of an
    n0 x n1 array denotes the cell (frow(i, n1), fcol(i, n1)); these two functions are constrained only for the positions
    returned here (in range, the condition holds there, distinct positions denote distinct cells, every true cell has a
    position), so nothing can be derived about a flat position that is not known to be valid."""
    if ndim_of(eng, st, base) != 2:
        raise OutOfSubset('np.where(x.flat) of a non 2-D value')
    m = as_mat(eng, st, base)
    n0, n1 = to_z3(m.shape[0], INT), to_z3(m.shape[1], INT)
    k = fresh('k_fwhere', INT)
    ix = fresh('fix', A1I)
    e, f, x, y = z3.Ints('e!fw f!fw x!fw y!fw')
    ie, i_f = z3.Select(ix, e), z3.Select(ix, f)
    re_, ce = core.frow(ie, n1), core.fcol(ie, n1)
    st.pc.append(k >= 0)
    st.pc.append(z3.ForAll([e], z3.Implies(z3.And(e >= 0, e < k), z3.And(ie >= 0, core.fvalid(ie, n0, n1), re_ >= 0, re_ < n0, ce >= 0, ce < n1, truth(m.fn(re_, ce)))), patterns=[z3.Select(ix, e)]))
    st.pc.append(z3.ForAll([e, f], z3.Implies(z3.And(e >= 0, e < f, f < k), z3.And(ie < i_f, z3.Or(re_ != core.frow(i_f, n1), ce != core.fcol(i_f, n1)))),
                           patterns=[z3.MultiPattern(z3.Select(ix, e), z3.Select(ix, f))]))
    fwid = z3.Function('fwid!%d' % next(core._fresh), INT, INT, INT)
    w = fwid(x, y)
    st.pc.append(z3.ForAll([x, y], z3.Implies(z3.And(x >= 0, x < n0, y >= 0, y < n1, truth(m.fn(x, y))),
                                              z3.And(w >= 0, w < k, core.frow(z3.Select(ix, w), n1) == x, core.fcol(z3.Select(ix, w), n1) == y)), patterns=[fwid(x, y)]))
    return TupleV((alloc(st, 1, ix, (k,), INT, {'flat_where': (m, n0, n1), 'fwid': fwid}),))


def _where3(eng, st, c, a, b):
    def f3(cc, aa, bb):
        x, y = num2(aa, bb)
        return z3.If(truth(cc), x, y)
    nd = max(ndim_of(eng, st, c), ndim_of(eng, st, a), ndim_of(eng, st, b))
    if nd == 1:
        rc = as_row(eng, st, c)
        ra = as_row(eng, st, a) if ndim_of(eng, st, a) == 1 else None
        rb = as_row(eng, st, b) if ndim_of(eng, st, b) == 1 else None
        srt = REAL if (ra and ra.esort == REAL) or (rb and rb.esort == REAL) else INT
        return Row(rc.n, lambda q: f3(rc.fn(q), ra.fn(q) if ra else a, rb.fn(q) if rb else b), srt)
    raise OutOfSubset('np.where 3-arg 2-D')


def np_tril(eng, st, args, kw, node):
    m = as_mat(eng, st, args[0])
    k = to_z3(args[1] if len(args) > 1 else kw.get('k', 0), INT)
    zero = to_z3(0, m.esort)
    return Mat(m.shape, lambda x, y, m=m: z3.If(y - x <= k, to_z3(m.fn(x, y), m.esort), zero), m.esort)


def np_triu(eng, st, args, kw, node):
    m = as_mat(eng, st, args[0])
    k = to_z3(args[1] if len(args) > 1 else kw.get('k', 0), INT)
    zero = to_z3(0, m.esort)
    return Mat(m.shape, lambda x, y, m=m: z3.If(y - x >= k, to_z3(m.fn(x, y), m.esort), zero), m.esort)


def np_allclose(eng, st, args, kw, node):
    a, b = args[0], args[1]
    if isinstance(a, Ref) and isinstance(b, Mat) and getattr(b, 'transpose_of', None) == a.oid:
        pass
    A, B = as_mat(eng, st, a), as_mat(eng, st, b)
    r = fresh('allclose', BOOL)
    x, y = z3.Ints('x!a y!a')
    n0, n1 = to_z3(A.shape[0], INT), to_z3(A.shape[1], INT)
    st.pc.append(z3.Implies(z3.ForAll([x, y], z3.Implies(z3.And(x >= 0, x < n0, y >= 0, y < n1), to_z3(A.fn(x, y), REAL) == to_z3(B.fn(x, y), REAL))), r))
    st.ghost['allclose_last'] = r
    return r


def np_round(eng, st, args, kw, node):
    v = args[0]
    if not is_z3(v) and isinstance(v, (int, float, fractions.Fraction)):
        v = to_z3(v, REAL)
    v = to_z3(v, REAL)
    r = fresh('round', REAL)
    st.pc.append(z3.And(r - v <= z3.RealVal('1/2'), v - r <= z3.RealVal('1/2'), z3.IsInt(r)))
    return r


def np_ceil(eng, st, args, kw, node):
    v = to_z3(args[0], REAL)
    f = z3.ToInt(v)                          # z3's to_int is floor; ceil(v) = floor(v) if v is an integer else floor(v) + 1
    return z3.ToReal(z3.If(v == z3.ToReal(f), f, f + 1))


def np_floor(eng, st, args, kw, node):
    v = to_z3(args[0], REAL)
    return z3.ToReal(z3.ToInt(v))


def np_sign(eng, st, args, kw, node):
    v = args[0]
    if isinstance(v, (Ref, Row, Mat)):
        return elementwise(eng, st, lambda t: _sign(t), v)
    return _sign(v)


def _sign(t):
    t = to_z3(t)
    one, zero = (z3.RealVal(1), z3.RealVal(0)) if t.sort() == REAL else (z3.IntVal(1), z3.IntVal(0))
    return z3.If(t > 0, one, z3.If(t < 0, -one, zero))


def np_abs(eng, st, args, kw, node):
    v = args[0]
    f = lambda t: z3.If(to_z3(t) >= 0, to_z3(t), -to_z3(t))
    if isinstance(v, (Ref, Row, Mat)):
        return elementwise(eng, st, f, v)
    return f(v)


np_absolute = np_abs


def np_logical_not(eng, st, args, kw, node):
    v = args[0]
    if isinstance(v, (Ref, Row, Mat)):
        r = elementwise(eng, st, lambda t: z3.Not(truth(t)), v)
        r.esort = BOOL
        return r
    return z3.Not(truth(v))


def np_logical_and(eng, st, args, kw, node):
    return elementwise2(eng, st, lambda a, b: z3.And(truth(a), truth(b)), args[0], args[1], esort=BOOL)


def np_tile(eng, st, args, kw, node):
    """np.tile(v, (k, 1)) for a 1-D v: k rows, each a copy of v."""
    reps = args[1]
    if not (isinstance(reps, (tuple, list)) and len(reps) == 2 and isinstance(reps[1], int) and reps[1] == 1) or ndim_of(eng, st, args[0]) != 1:
        raise OutOfSubset('np.tile form')
    r = as_row(eng, st, args[0])
    return Mat((reps[0], r.n), lambda x, y, r=r: r.fn(y), r.esort)


def np_atleast_2d(eng, st, args, kw, node):
    v = args[0]
    if ndim_of(eng, st, v) == 2:
        return v
    if ndim_of(eng, st, v) == 1:
        r = as_row(eng, st, v)
        return Mat((1, r.n), lambda x, y, r=r: r.fn(y), r.esort)
    raise OutOfSubset('np.atleast_2d of a scalar')


def np_isclose(eng, st, args, kw, node):
    """np.isclose(a, b, rtol=r, atol=0) under the contract option isclose_exact: a == b (exact real arithmetic; the relative tolerance only
    absorbs rounding error, which the real-number model does not have) when atol == 0 and rtol <= 1e-9; any larger tolerance is modelled
    as numpy defines it.  Equal infinities compare close, as in numpy."""
    if not getattr(eng.c, 'isclose_exact', False):
        raise OutOfSubset('np.isclose (floating-point tolerance) without the contract option isclose_exact')
    if len(args) != 2:
        raise OutOfSubset('np.isclose form')
    rtol, atol = kw.get('rtol', 1e-5), kw.get('atol', 1e-8)
    if not all(isinstance(t, (int, float)) for t in (rtol, atol)):
        raise OutOfSubset('np.isclose with symbolic tolerances')
    if atol == 0 and rtol <= 1e-9:
        return elementwise2(eng, st, lambda a, b: to_z3(a, REAL) == to_z3(b, REAL), args[0], args[1], esort=BOOL)
    # a genuine tolerance (numpy: |a - b| <= atol + rtol * |b|) is modelled as what it is
    import fractions
    rt, at = [z3.RealVal(str(fractions.Fraction(t).limit_denominator(10 ** 18))) for t in (rtol, atol)]

    def close(a, b):
        a, b = to_z3(a, REAL), to_z3(b, REAL)
        return z3.Or(a == b, z3.And(a - b <= at + rt * z3.If(b >= 0, b, -b), b - a <= at + rt * z3.If(b >= 0, b, -b)))
    return elementwise2(eng, st, close, args[0], args[1], esort=BOOL)


def np_intersect1d(eng, st, args, kw, node):
    """np.intersect1d(a, b) for two results of np.where over the same index range: the positions where both conditions hold, ascending
    (the sorted, duplicate-free common elements).  Other operands are outside the subset."""
    if kw or len(args) != 2 or not all(isinstance(a, Ref) for a in args):
        raise OutOfSubset('np.intersect1d form')
    ma, mb = st.heap[args[0].oid].meta or {}, st.heap[args[1].oid].meta or {}
    ca, cb = ma.get('where_cond1'), mb.get('where_cond1')
    if ca is None or cb is None:
        raise OutOfSubset('np.intersect1d of arrays that are not results of np.where')
    na, nb = to_z3(ma['where_n'], INT), to_z3(mb['where_n'], INT)
    k = fresh('k_isect', INT)
    it = fresh('isect', A1I)
    e, f, x = z3.Ints('e!is f!is x!is')
    ie = z3.Select(it, e)
    both = lambda q: z3.And(q >= 0, q < na, q < nb, truth(ca(q)), truth(cb(q)))
    st.pc.append(k >= 0)
    st.pc.append(z3.ForAll([e], z3.Implies(z3.And(e >= 0, e < k), both(ie)), patterns=[z3.Select(it, e)]))
    st.pc.append(z3.ForAll([e, f], z3.Implies(z3.And(e >= 0, e < f, f < k), ie < z3.Select(it, f))))
    widx = z3.Function('isidx!%d' % next(core._fresh), INT, INT)
    st.pc.append(z3.ForAll([x], z3.Implies(both(x), z3.And(widx(x) >= 0, widx(x) < k, z3.Select(it, widx(x)) == x)), patterns=[widx(x)]))
    nmin = z3.If(na <= nb, na, nb)
    return alloc(st, 1, it, (k,), INT, {'where_idx': widx, 'where_cond1': (lambda q, ca=ca, cb=cb: z3.And(truth(ca(q)), truth(cb(q)))), 'where_n': nmin})


def np_repeat(eng, st, args, kw, node):
    """np.repeat(M, k, axis) for a 2-D M whose extent along `axis` is 1: k copies of that single column (axis=1) / row (axis=0)."""
    if kw or len(args) != 3 or ndim_of(eng, st, args[0]) != 2 or not isinstance(args[2], int):
        raise OutOfSubset('np.repeat form')
    m = as_mat(eng, st, args[0])
    ax = args[2]
    ext = z3.simplify(to_z3(m.shape[ax], INT))
    if not (z3.is_int_value(ext) and ext.as_long() == 1):
        raise OutOfSubset('np.repeat along an axis whose extent is not 1')
    k = args[1]
    if ax == 1:
        return Mat((m.shape[0], k), lambda x, y, m=m: m.fn(x, z3.IntVal(0)), m.esort)
    return Mat((k, m.shape[1]), lambda x, y, m=m: m.fn(z3.IntVal(0), y), m.esort)


def np_stack(eng, st, args, kw, node):
    """np.stack([A, B], 2) of two equally shaped matrices: only the reductions over the new last axis are modelled (np.min)."""
    ax = kw.get('axis', args[1] if len(args) > 1 else 0)
    items = args[0]
    if not (isinstance(items, (tuple, list)) and len(items) == 2 and ax == 2 and all(ndim_of(eng, st, t) == 2 for t in items)):
        raise OutOfSubset('np.stack form')
    a, b = as_mat(eng, st, items[0]), as_mat(eng, st, items[1])
    eng.oblige(st, 'shape/np.stack-operands-agree', z3.And(to_z3(a.shape[0], INT) == to_z3(b.shape[0], INT), to_z3(a.shape[1], INT) == to_z3(b.shape[1], INT)), kind='safety')
    return Opaque('stack3', items=(a, b))


def np_outer(eng, st, args, kw, node):
    a, b = as_row(eng, st, args[0]), as_row(eng, st, args[1])
    return Mat((a.n, b.n), lambda x, y, a=a, b=b: eng.binop(ast.Mult(), a.fn(x), b.fn(y), st), REAL if REAL in (a.esort, b.esort) else INT)


def np_delete(eng, st, args, kw, node):
    """np.delete(arr, idx) only in the form np.delete(list(range(n)) / np.arange(n), idx) with idx the result of a 1-D np.where(mask):
    the ascending enumeration of the positions where the mask does NOT hold (the complement of idx)."""
    arr, idx = args[0], args[1]
    ident = (isinstance(arr, Row) and getattr(arr, 'identity', False)) or (isinstance(arr, Ref) and st.heap[arr.oid].meta.get('identity'))
    if isinstance(arr, Ref):
        arr = as_row(eng, st, arr)
    meta = st.heap[idx.oid].meta if isinstance(idx, Ref) else {}
    if not ident or meta.get('where_cond1') is None or kw or len(args) != 2:
        raise OutOfSubset('np.delete form')
    cond = meta['where_cond1']
    neg = Row(meta['where_n'], lambda q, cond=cond: z3.Not(truth(cond(q))), BOOL)
    if not z3.simplify(to_z3(arr.n, INT) - to_z3(meta['where_n'], INT)).eq(z3.IntVal(0)):
        raise OutOfSubset('np.delete: lengths differ')
    return np_where(eng, st, [neg], {}, node)[0]


def np_isnan(eng, st, args, kw, node):
    """np.isnan: the real-number model has no NaN (the modelled operations produce none: x / 0 is modelled only for a positive constant numerator,
    as +infinity): False everywhere."""
    v = args[0]
    if isinstance(v, (Ref, Row, Mat)):
        r = elementwise(eng, st, lambda t: z3.BoolVal(False), v)
        r.esort = BOOL
        return r
    return z3.BoolVal(False)


def np_isinf(eng, st, args, kw, node):
    v = args[0]
    f = lambda t: z3.Or(to_z3(t, REAL) == z3.Real('INF'), to_z3(t, REAL) == -z3.Real('INF'))
    if isinstance(v, (Ref, Row, Mat)):
        r = elementwise(eng, st, f, v)
        r.esort = BOOL
        return r
    return f(v)


def np_minimum(eng, st, args, kw, node):
    def f(a, b):
        x, y = num2(to_z3(a), to_z3(b))
        return z3.If(x <= y, x, y)
    return elementwise2(eng, st, f, args[0], args[1])


def np_maximum(eng, st, args, kw, node):
    def f(a, b):
        x, y = num2(to_z3(a), to_z3(b))
        return z3.If(x >= y, x, y)
    return elementwise2(eng, st, f, args[0], args[1])


def np_logical_or(eng, st, args, kw, node):
    return elementwise2(eng, st, lambda a, b: z3.Or(truth(a), truth(b)), args[0], args[1], esort=BOOL)


def np_any(eng, st, args, kw, node):
    v = args[0]
    if isinstance(v, (tuple, list)) and not isinstance(v, Opaque):
        return z3.Or(*[truth(x) for x in v])
    if 'axis' in kw or len(args) > 1:
        raise OutOfSubset('np.any with axis')
    if ndim_of(eng, st, v) == 1:
        r = as_row(eng, st, v)
        q = z3.Int('q!any')
        return z3.Exists([q], z3.And(q >= 0, q < to_z3(r.n, INT), truth(r.fn(q))))
    m = as_mat(eng, st, v)
    x, y = z3.Ints('x!any y!any')
    return z3.Exists([x, y], z3.And(x >= 0, x < to_z3(m.shape[0], INT), y >= 0, y < to_z3(m.shape[1], INT), truth(m.fn(x, y))))


def np_all(eng, st, args, kw, node):
    v = args[0]
    if 'axis' in kw or len(args) > 1:
        raise OutOfSubset('np.all with axis')
    if ndim_of(eng, st, v) == 1:
        r = as_row(eng, st, v)
        q = z3.Int('q!all')
        return z3.ForAll([q], z3.Implies(z3.And(q >= 0, q < to_z3(r.n, INT)), truth(r.fn(q))))
    m = as_mat(eng, st, v)
    x, y = z3.Ints('x!all y!all')
    return z3.ForAll([x, y], z3.Implies(z3.And(x >= 0, x < to_z3(m.shape[0], INT), y >= 0, y < to_z3(m.shape[1], INT)), truth(m.fn(x, y))))


def np_zeros(eng, st, args, kw, node):
    sh = args[0]
    dt = kw.get('dtype')
    es = REAL
    if isinstance(dt, Opaque) and dt.kind == 'builtin' and dt.name in ('int', 'bool'):
        es = INT if dt.name == 'int' else BOOL
    if isinstance(dt, str) and dt in ('int', 'bool'):
        es = INT if dt == 'int' else BOOL
    zero = to_z3(0, es) if es != BOOL else z3.BoolVal(False)
    if isinstance(sh, (tuple, list)) and len(sh) == 2:
        return alloc(st, 2, z3.K(INT, z3.K(INT, zero)), (sh[0], sh[1]), es)
    n = sh[0] if isinstance(sh, (tuple, list)) else sh
    return alloc(st, 1, z3.K(INT, zero), (n,), es)


def np_ones(eng, st, args, kw, node):
    sh = args[0]
    dt = kw.get('dtype')
    if isinstance(dt, Opaque) and dt.kind == 'builtin' and dt.name == 'bool':
        n_ = sh[0] if isinstance(sh, (tuple, list)) else sh
        if isinstance(sh, (tuple, list)) and len(sh) != 1:
            raise OutOfSubset('np.ones(dtype=bool) of rank 2')
        return alloc(st, 1, z3.K(INT, z3.BoolVal(True)), (n_,), BOOL)
    one = z3.RealVal(1)
    if isinstance(sh, (tuple, list)) and len(sh) == 2:
        return alloc(st, 2, z3.K(INT, z3.K(INT, one)), (sh[0], sh[1]), REAL)
    n = sh[0] if isinstance(sh, (tuple, list)) else sh
    return alloc(st, 1, z3.K(INT, one), (n,), REAL)


def np_eye(eng, st, args, kw, node):
    n = args[0]
    return Mat((n, n), lambda x, y: z3.If(x == y, z3.RealVal(1), z3.RealVal(0)), REAL)


def np_arange(eng, st, args, kw, node):
    if len(args) == 1:
        r_ = Row(args[0], lambda q: q, INT)
        r_.identity = True
        return r_
    if len(args) == 2:
        lo = to_z3(args[0], INT)
        return Row(to_z3(args[1], INT) - lo, lambda q: lo + q, INT)
    raise OutOfSubset('arange with step')


def np_append(eng, st, args, kw, node):
    """np.append(a, b) for 1-D a, b (or a tuple/list of scalars): concatenation."""
    if kw:
        raise OutOfSubset('np.append with axis')
    parts = []
    for a in args[:2]:
        if isinstance(a, (tuple, list)) and not isinstance(a, Opaque):
            parts.append(as_row(eng, st, a))
        elif ndim_of(eng, st, a) == 1:
            parts.append(as_row(eng, st, a))
        else:
            raise OutOfSubset('np.append of a non 1-D value')
    a, b = parts
    na = to_z3(a.n, INT)
    srt = REAL if REAL in (a.esort, b.esort) else a.esort
    return Row(z3.simplify(na + to_z3(b.n, INT)), lambda q, a=a, b=b, na=na: z3.If(q < na, to_z3(a.fn(q), srt), to_z3(b.fn(q - na), srt)), srt)


def ext_toeplitz(eng, st, args, kw, node):
    """scipy.linalg.toeplitz(c, r): T[x][y] = c[x - y] for x >= y, r[y - x] otherwise (ASSUMED library contract; c[0] wins on the diagonal)."""
    c = as_row(eng, st, args[0])
    r = as_row(eng, st, kw['r'] if 'r' in kw else (args[1] if len(args) > 1 else args[0]))
    return Mat((c.n, r.n), lambda x, y, c=c, r=r: z3.If(x >= y, to_z3(c.fn(x - y), REAL), to_z3(r.fn(y - x), REAL)), REAL)


def ext_norm_pdf(eng, st, args, kw, node):
    """scipy.stats.norm.pdf(x, loc, scale) for a range / 1-D x: a positive real per entry (ASSUMED; the value itself is left abstract)."""
    x = args[0]
    if isinstance(x, Opaque) and x.kind == 'range':
        a = x.args
        lo, hi = (0, a[0]) if len(a) == 1 else (a[0], a[1])
        n = z3.simplify(to_z3(hi, INT) - to_z3(lo, INT))
    else:
        n = as_row(eng, st, x).n
    t = fresh('pdf', A1R)
    q = z3.Int('q!pdf')
    st.pc.append(z3.ForAll([q], z3.Select(t, q) > 0, patterns=[z3.Select(t, q)]))
    return alloc(st, 1, t, (n,), REAL)


EXT_SPECS = {'linalg.toeplitz': ext_toeplitz, 'stats.norm.pdf': ext_norm_pdf}


def np_size(eng, st, args, kw, node):
    v = args[0]
    if isinstance(v, TupleV) and len(v) >= 1 and all(isinstance(t, Ref) and st.heap[t.oid].ndim == 1 for t in v):
        # np.size of the tuple returned by np.where: len(tuple) index arrays of one common length
        return len(v) * to_z3(st.heap[v[0].oid].shape[0], INT)
    return size(eng, st, v)


def np_fill_diagonal(eng, st, args, kw, node):
    ref, val = args[0], args[1]
    if not isinstance(ref, Ref):
        raise OutOfSubset('fill_diagonal of non-heap value')
    o = st.heap[ref.oid]
    v = to_z3(val, o.esort)
    x = z3.Int('x!fd')
    old = o.term
    n = to_z3(o.shape[0], INT)
    o.term = define2(st, o.esort, lambda x, y: z3.If(z3.And(x >= 0, x < n, y == x), v, z3.Select(z3.Select(old, x), y)))
    o.meta = {}
    return None


def np_ix_(eng, st, args, kw, node):
    a, b = args
    same = isinstance(a, Ref) and isinstance(b, Ref) and a.oid == b.oid
    if not same and len(node.args) == 2 and ast.unparse(node.args[0]) == ast.unparse(node.args[1]) and isinstance(a, Ref) and isinstance(b, Ref):
        # the same pure expression evaluated twice (np.argsort(p), np.argsort(p)) denotes the same array value
        ta, tb = st.heap[a.oid], st.heap[b.oid]
        if ta.meta.get('pure_of') is not None and ta.meta.get('pure_of') == tb.meta.get('pure_of'):
            st.pc.append(ta.term == tb.term)
            same = True
    pt = st.heap[a.oid].term if isinstance(a, Ref) else None
    ra = a if isinstance(a, Row) else as_row(eng, st, a)
    rb = b if isinstance(b, Row) else as_row(eng, st, b)
    return Opaque('ix', rows=ra, cols=rb, same=same, perm_term=pt)


def np_argsort(eng, st, args, kw, node):
    v = args[0]
    if isinstance(v, Ref) and st.heap[v.oid].meta.get('perm_inv') is not None:
        inv = st.heap[v.oid].meta['perm_inv']
        o = st.heap[v.oid]
        r = alloc(st, 1, inv, o.shape, INT, {'perm_inv': o.term, 'pure_of': ('argsort', v.oid, str(o.term.hash()))})
        return r
    r = as_row(eng, st, v)
    k = to_z3(r.n, INT)
    sg, sinv = fresh('argsort', A1I), fresh('argsortinv', A1I)
    a, b = z3.Ints('a!as b!as')
    st.pc.append(z3.ForAll([a], z3.Implies(z3.And(a >= 0, a < k), z3.And(z3.Select(sg, a) >= 0, z3.Select(sg, a) < k, z3.Select(sinv, z3.Select(sg, a)) == a)), patterns=[z3.Select(sg, a)]))
    st.pc.append(z3.ForAll([a], z3.Implies(z3.And(a >= 0, a < k), z3.And(z3.Select(sinv, a) >= 0, z3.Select(sinv, a) < k, z3.Select(sg, z3.Select(sinv, a)) == a)), patterns=[z3.Select(sinv, a)]))
    st.pc.append(z3.ForAll([a, b], z3.Implies(z3.And(a >= 0, a <= b, b < k), to_z3(r.fn(z3.Select(sg, a))) <= to_z3(r.fn(z3.Select(sg, b)))),
                           patterns=[z3.MultiPattern(z3.Select(sg, a), z3.Select(sg, b))]))
    st.pc += [isperm(sg, k), isperm(sinv, k)]
    st.ghost['argsort_inverse_last'] = sinv
    return alloc(st, 1, sg, (r.n,), INT, {'perm_inv': sinv})


def np_sum(eng, st, args, kw, node):
    v = args[0]
    axis = kw.get('axis', args[1] if len(args) > 1 else None)
    if isinstance(v, Mat) and getattr(v, 'aggmeta', None) is not None and axis is None:
        W, c, la, lb, n = v.aggmeta
        return core.agg(W, c, la - 1, lb - 1, to_z3(n, INT))
    if isinstance(v, Row) and getattr(v, 'masksum', None) is not None and axis is None:
        m_, mk = v.masksum
        xs_, ys_ = z3.Ints('x!mt y!mt')
        if getattr(v, 'masksum_base', None) is not None and z3.is_true(z3.simplify(truth(mk.fn(xs_, ys_)))) and m_.esort == REAL \
                and z3.simplify(to_z3(m_.shape[0], INT) - to_z3(m_.shape[1], INT)).eq(z3.IntVal(0)):
            return core.tsum(eng.pure(v.masksum_base), to_z3(m_.shape[0], INT))        # the mask holds everywhere: the sum of all entries
        sel = materialise(eng, st, Mat(m_.shape, lambda x, y, m_=m_, mk=mk: z3.If(truth(mk.fn(x, y)), to_z3(m_.fn(x, y), REAL), z3.RealVal(0)), REAL))
        if not z3.simplify(to_z3(m_.shape[0], INT) - to_z3(m_.shape[1], INT)).eq(z3.IntVal(0)):
            raise OutOfSubset('mask selection of a non-square matrix')
        return core.tsum(eng.pure(st.heap[sel.oid].term), to_z3(m_.shape[0], INT))
    if isinstance(v, Mat) and getattr(v, 'selmeta', None) is not None:
        kind, W, c, lab, n = v.selmeta
        nn = to_z3(n, INT)
        if kind == 'cols' and axis == 1:      # np.sum(W[:, ci == lab], axis=1)[x] = sum_{y: ci[y]=lab} W[x][y]
            return Row(n, lambda x: core.modsum(W, c, x, lab - 1, nn), REAL)
        if kind == 'rows' and axis == 0:      # np.sum(W[ci == lab, :], axis=0)[x] = sum_{y: ci[y]=lab} W[y][x]
            return Row(n, lambda x: core.modsumT(W, c, x, lab - 1, nn), REAL)
        raise OutOfSubset('np.sum of a mask-selected submatrix along this axis')
    if isinstance(v, Mat) and getattr(v, 'dotmeta', None) is not None and axis is None:
        X, Y, mm = v.dotmeta
        return core.sumdot(X, Y, to_z3(mm, INT))
    if ndim_of(eng, st, v) == 2:
        ref = v if isinstance(v, Ref) else materialise(eng, st, as_mat(eng, st, v))
        o = st.heap[ref.oid]
        if o.esort != REAL:
            # a boolean / integer matrix is summed as numbers (True = 1): the real-valued copy carries the same values
            m_ = as_mat(eng, st, ref)
            conv = Mat(m_.shape, lambda x, y, m_=m_: to_z3(m_.fn(x, y), REAL), REAL)
            ref = materialise(eng, st, conv)
            o = st.heap[ref.oid]
        t, n0, n1 = eng.pure(o.term), o.shape[0], o.shape[1]
        if axis is None:
            return core.tsum(t, to_z3(n0, INT))
        if axis == 1:
            return Row(n0, lambda x: core.sum1(z3.Select(t, x), to_z3(n1, INT)), REAL)
        if axis == 0:
            return Row(n1, lambda y: core.csum(t, y, to_z3(n0, INT)), REAL)
    if ndim_of(eng, st, v) == 1 and not kw and len(args) == 1:
        r = as_row(eng, st, v)
        if r.esort == BOOL:
            ref = materialise(eng, st, r)
            return core.cntb(eng.pure(st.heap[ref.oid].term), to_z3(r.n, INT))
    raise OutOfSubset('np.sum (no spec yet for this shape)')


def np_max(eng, st, args, kw, node):
    v = args[0]
    if ndim_of(eng, st, v) == 2:
        m = as_mat(eng, st, v)
        mx = fresh('max', m.esort if m.esort != BOOL else INT)
        x, y = z3.Ints('x!mx y!mx')
        n0, n1 = to_z3(m.shape[0], INT), to_z3(m.shape[1], INT)
        wx, wy = fresh('argmax_r', INT), fresh('argmax_c', INT)
        st.pc.append(z3.ForAll([x, y], z3.Implies(z3.And(x >= 0, x < n0, y >= 0, y < n1), to_z3(m.fn(x, y)) <= mx)))
        st.pc.append(z3.Implies(z3.And(n0 > 0, n1 > 0), z3.And(wx >= 0, wx < n0, wy >= 0, wy < n1, to_z3(m.fn(wx, wy)) == mx)))
        st.ghost['max_witness'] = TupleV((wx, wy))
        return mx
    r = as_row(eng, st, v)
    mx = fresh('max', r.esort if r.esort != BOOL else INT)
    q = z3.Int('q!mx')
    n = to_z3(r.n, INT)
    w = fresh('argmax', INT)
    st.pc.append(z3.ForAll([q], z3.Implies(z3.And(q >= 0, q < n), to_z3(r.fn(q)) <= mx)))
    st.pc.append(z3.Implies(n > 0, z3.And(w >= 0, w < n, to_z3(r.fn(w)) == mx)))
    if isinstance(v, Ref):
        st.ghost['_last_max'] = (v.oid, st.heap[v.oid].term.get_id(), mx, st.heap[v.oid].term)
    return mx


def np_argmax(eng, st, args, kw, node):
    v = args[0]
    r = as_row(eng, st, v)
    q = z3.Int('q!am')
    n = to_z3(r.n, INT)
    w = fresh('argmax', INT)
    st.pc.append(z3.Implies(n > 0, z3.And(w >= 0, w < n)))
    st.pc.append(z3.ForAll([q], z3.Implies(z3.And(q >= 0, q < n), to_z3(r.fn(q)) <= to_z3(r.fn(w)))))
    # first maximal index
    st.pc.append(z3.ForAll([q], z3.Implies(z3.And(q >= 0, q < w), to_z3(r.fn(q)) < to_z3(r.fn(w)))))
    lm = st.ghost.get('_last_max')
    if lm is not None and isinstance(v, Ref) and lm[0] == v.oid and lm[1] == st.heap[v.oid].term.get_id():
        # np.max of the very same array value was taken before: the maximum is attained at the argmax
        st.pc.append(z3.Implies(n > 0, to_z3(r.fn(w)) == lm[2]))
    return w


def np_argmin(eng, st, args, kw, node):
    v = args[0]
    st2 = getattr(v, 'stack2', None) if isinstance(v, Mat) else (st.heap[v.oid].meta.get('stack2') if isinstance(v, Ref) else None)
    if st2 is not None and kw.get('axis') == 0:
        r1, r2 = st2
        return Row(r1.n, lambda q, r1=r1, r2=r2: z3.If(to_z3(r1.fn(q), REAL) <= to_z3(r2.fn(q), REAL), z3.IntVal(0), z3.IntVal(1)), INT)
    r = as_row(eng, st, v)
    q = z3.Int('q!an')
    n = to_z3(r.n, INT)
    w = fresh('argmin', INT)
    st.pc.append(z3.Implies(n > 0, z3.And(w >= 0, w < n)))
    st.pc.append(z3.ForAll([q], z3.Implies(z3.And(q >= 0, q < n), to_z3(r.fn(q)) >= to_z3(r.fn(w)))))
    st.pc.append(z3.ForAll([q], z3.Implies(z3.And(q >= 0, q < w), to_z3(r.fn(q)) > to_z3(r.fn(w)))))      # first minimal index
    return w


def np_min(eng, st, args, kw, node):
    v = args[0]
    if isinstance(v, Opaque) and v.kind == 'stack3' and kw.get('axis', args[1] if len(args) > 1 else None) == 2:
        a, b = v.items
        return Mat(a.shape, lambda x, y, a=a, b=b: z3.If(to_z3(a.fn(x, y), REAL) <= to_z3(b.fn(x, y), REAL), to_z3(a.fn(x, y), REAL), to_z3(b.fn(x, y), REAL)), REAL)
    if isinstance(v, Row) and getattr(v, 'masksel', None) is not None and not kw and len(args) == 1:
        r, mk = v.masksel
        mn = fresh('minsel', r.esort)
        q = z3.Int('q!ms')
        n = to_z3(r.n, INT)
        w = fresh('argminsel', INT)
        st.pc.append(z3.ForAll([q], z3.Implies(z3.And(q >= 0, q < n, truth(mk.fn(q))), to_z3(r.fn(q)) >= mn)))
        st.pc.append(z3.Implies(to_z3(v.n, INT) > 0, z3.And(w >= 0, w < n, truth(mk.fn(w)), to_z3(r.fn(w)) == mn)))
        st.ghost['_masksel_argmin'] = w
        return mn
    st2 = getattr(v, 'stack2', None) if isinstance(v, Mat) else (st.heap[v.oid].meta.get('stack2') if isinstance(v, Ref) else None)
    if st2 is not None and kw.get('axis') == 0:
        r1, r2 = st2
        return Row(r1.n, lambda q, r1=r1, r2=r2: z3.If(to_z3(r1.fn(q), REAL) <= to_z3(r2.fn(q), REAL), to_z3(r1.fn(q), REAL), to_z3(r2.fn(q), REAL)), REAL)
    if isinstance(v, (tuple, list)) and not isinstance(v, Opaque):
        e = to_z3(v[0])
        for t in v[1:]:
            a, b = num2(e, t)
            e = z3.If(a <= b, a, b)
        return e
    if ndim_of(eng, st, v) == 2 and not kw and len(args) == 1:
        m = as_mat(eng, st, v)
        mn = fresh('min', m.esort if m.esort != BOOL else INT)
        x, y = z3.Ints('x!mn y!mn')
        n0, n1 = to_z3(m.shape[0], INT), to_z3(m.shape[1], INT)
        wx, wy = fresh('argmin_r', INT), fresh('argmin_c', INT)
        st.pc.append(z3.ForAll([x, y], z3.Implies(z3.And(x >= 0, x < n0, y >= 0, y < n1), to_z3(m.fn(x, y)) >= mn)))
        st.pc.append(z3.Implies(z3.And(n0 > 0, n1 > 0), z3.And(wx >= 0, wx < n0, wy >= 0, wy < n1, to_z3(m.fn(wx, wy)) == mn)))
        return mn
    if ndim_of(eng, st, v) == 1 and not kw and len(args) == 1:
        r = as_row(eng, st, v)
        mn = fresh('min', r.esort if r.esort != BOOL else INT)
        q = z3.Int('q!mn')
        n = to_z3(r.n, INT)
        w = fresh('argmin', INT)
        st.pc.append(z3.ForAll([q], z3.Implies(z3.And(q >= 0, q < n), to_z3(r.fn(q)) >= mn)))
        st.pc.append(z3.Implies(n > 0, z3.And(w >= 0, w < n, to_z3(r.fn(w)) == mn)))
        return mn
    raise OutOfSubset('np.min of array')


def np_mod(eng, st, args, kw, node):
    a, b = args
    if isinstance(a, (Ref, Row, Mat)):
        return elementwise2(eng, st, lambda x, y: to_z3(x, INT) % to_z3(y, INT), a, b, esort=INT)
    return to_z3(a, INT) % to_z3(b, INT)


def np_tril_indices(eng, st, args, kw, node):
    return Opaque('trilidx', n=args[0], k=(args[1] if len(args) > 1 else 0))


def np_trace(eng, st, args, kw, node):
    v = args[0]
    ref = v if isinstance(v, Ref) else materialise(eng, st, as_mat(eng, st, v))
    o = st.heap[ref.oid]
    return core.trace1(eng.pure(o.term), to_z3(o.shape[0], INT))


def np_diag(eng, st, args, kw, node):
    """np.diag(v) for a 1-D v: the diagonal matrix (only as the right operand of np.dot, see np_dot)."""
    v = args[0]
    if len(args) == 1 and not kw and ndim_of(eng, st, v) == 2:
        m = as_mat(eng, st, v)          # np.diag(M) for a 2-D M: the vector of diagonal entries (read-only view in numpy; value semantics here)
        return Row(m.shape[0], lambda q, m=m: m.fn(q, q), m.esort)
    if ndim_of(eng, st, v) != 1 or len(args) != 1 or kw:
        raise OutOfSubset('np.diag form')
    r = as_row(eng, st, v)
    zero = to_z3(0, r.esort if r.esort != BOOL else INT)
    out = Mat((r.n, r.n), lambda x, y, r=r: z3.If(x == y, to_z3(r.fn(x)), zero), r.esort)
    out.diag_of = r
    return out


def np_square(eng, st, args, kw, node):
    v = args[0]
    f = lambda t: eng.binop(ast.Mult(), t, t, st)
    if isinstance(v, (Ref, Row, Mat)):
        return elementwise(eng, st, f, v)
    return f(v)


def np_dot(eng, st, args, kw, node):
    a, b = args
    if all(is_z3(t) or isinstance(t, (int, float)) for t in (a, b)):
        return eng.binop(ast.Mult(), a, b, st)          # np.dot of two scalars is their product
    if isinstance(b, Mat) and getattr(b, 'diag_of', None) is not None and ndim_of(eng, st, a) == 2:
        # A . diag(v): column y of A scaled by v[y] (exact: one non-zero term per entry)
        A0, r = as_mat(eng, st, a), b.diag_of
        return Mat(A0.shape, lambda x, y, A0=A0, r=r: eng.binop(ast.Mult(), A0.fn(x, y), r.fn(y), st), REAL if REAL in (A0.esort, r.esort) else INT)
    if getattr(eng.c, 'dot_support', False) and ndim_of(eng, st, a) == 2 and ndim_of(eng, st, b) == 2:
        # support semantics of a product of entrywise non-negative matrices (a sum of non-negative terms is non-zero iff one term is):
        # the result is a fresh matrix P with P >= 0, P[x][y] != 0 <-> exists z: A[x][z] != 0 and B[z][y] != 0  (if A, B >= 0)
        A0, B0 = as_mat(eng, st, a), as_mat(eng, st, b)
        # operands through their purified constants, so that the terms A[x][z], B[z][y] occur syntactically (quantifier triggers)
        ra = a if isinstance(a, Ref) else materialise(eng, st, A0)
        rb = b if isinstance(b, Ref) else materialise(eng, st, B0)
        ta, tb = eng.pure(st.heap[ra.oid].term), eng.pure(st.heap[rb.oid].term)
        A = Mat(A0.shape, lambda x, y, ta=ta: z3.Select(z3.Select(ta, x), y), REAL)
        B = Mat(B0.shape, lambda x, y, tb=tb: z3.Select(z3.Select(tb, x), y), REAL)
        n0, n1, n2 = to_z3(A.shape[0], INT), to_z3(A.shape[1], INT), to_z3(B.shape[1], INT)
        Pt = core.mdot(ta, tb)       # the product as a value (congruence), plus its support contract below
        wit = z3.Function('dotwit!%d' % next(core._fresh), INT, INT, INT)
        x, y, zq = z3.Ints('x!dt y!dt z!dt')
        nonneg = z3.And(z3.ForAll([x, zq], z3.Implies(z3.And(x >= 0, x < n0, zq >= 0, zq < n1), to_z3(A.fn(x, zq), REAL) >= 0)),
                        z3.ForAll([zq, y], z3.Implies(z3.And(zq >= 0, zq < n1, y >= 0, y < n2), to_z3(B.fn(zq, y), REAL) >= 0)))
        pxy = z3.Select(z3.Select(Pt, x), y)
        inxy = z3.And(x >= 0, x < n0, y >= 0, y < n2)
        # precondition of the support reading, discharged like any other obligation (Dafny style), then the contract is assumed
        eng.oblige(st, 'np.dot/operands-entrywise-nonnegative', nonneg)
        st.pc.append(z3.ForAll([x, y], z3.Implies(inxy, z3.And(pxy >= 0, z3.Implies(pxy != 0, z3.And(wit(x, y) >= 0, wit(x, y) < n1, to_z3(A.fn(x, wit(x, y)), REAL) != 0, to_z3(B.fn(wit(x, y), y), REAL) != 0)))), patterns=[pxy]))
        st.pc.append(z3.ForAll([x, y, zq], z3.Implies(z3.And(inxy, zq >= 0, zq < n1, to_z3(A.fn(x, zq), REAL) != 0, to_z3(B.fn(zq, y), REAL) != 0), pxy != 0)))
        return alloc(st, 2, Pt, (A.shape[0], B.shape[1]), REAL)
    if ndim_of(eng, st, a) == 2 and ndim_of(eng, st, b) == 2:
        ra = a if isinstance(a, Ref) else materialise(eng, st, as_mat(eng, st, a))
        rb = b if isinstance(b, Ref) else materialise(eng, st, as_mat(eng, st, b))
        oa, ob = st.heap[ra.oid], st.heap[rb.oid]
        out = Mat((oa.shape[0], ob.shape[1]), lambda x, y: (_ for _ in ()).throw(OutOfSubset('elementwise use of a matrix product')), REAL)
        out.dotmeta = (eng.pure(oa.term), eng.pure(ob.term), oa.shape[0])
        return out
    raise OutOfSubset('np.dot of these shapes')


def np_unique(eng, st, args, kw, node):
    """np.unique(x, return_inverse=True) -> (u, inv): inv[y] is the rank of x[y] among the distinct values: 0 <= inv[y] < k,
    inv[y] == inv[z] iff x[y] == x[z], inv[y] < inv[z] iff x[y] < x[z], every rank in [0, k) is attained."""
    if not kw.get('return_inverse'):
        raise OutOfSubset('np.unique without return_inverse')
    r = as_row(eng, st, args[0])
    n = to_z3(r.n, INT)
    k = fresh('nuniq', INT)
    inv = fresh('uinv', A1I)
    wit = z3.Function('uwit!%d' % next(core._fresh), INT, INT)
    y, zz, t = z3.Ints('y!u z!u t!u')
    iy, iz = z3.Select(inv, y), z3.Select(inv, zz)
    st.pc.append(z3.And(k >= 0, k <= n, z3.Implies(n > 0, k >= 1)))
    st.pc.append(z3.ForAll([y], z3.Implies(z3.And(y >= 0, y < n), z3.And(iy >= 0, iy < k)), patterns=[z3.Select(inv, y)]))
    st.pc.append(z3.ForAll([y, zz], z3.Implies(z3.And(y >= 0, y < n, zz >= 0, zz < n),
                                               z3.And((iy == iz) == (to_z3(r.fn(y), INT) == to_z3(r.fn(zz), INT)), (iy < iz) == (to_z3(r.fn(y), INT) < to_z3(r.fn(zz), INT)))),
                           patterns=[z3.MultiPattern(z3.Select(inv, y), z3.Select(inv, zz))]))
    st.pc.append(z3.ForAll([t], z3.Implies(z3.And(t >= 0, t < k), z3.And(wit(t) >= 0, wit(t) < n, z3.Select(inv, wit(t)) == t)), patterns=[wit(t)]))
    u = alloc(st, 1, fresh('uvals', A1I), (k,), INT)
    st.ghost['unique_witness_last'] = wit
    st.ghost['unique_count_last'] = k
    return TupleV((u, alloc(st, 1, inv, (n,), INT, {'unique_k': k, 'unique_wit': wit})))


def np_array(eng, st, args, kw, node):
    v = args[0]
    dt = kw.get('dtype')
    if isinstance(v, (Row, Mat)) and v.esort == BOOL and isinstance(dt, Opaque) and dt.kind == 'builtin' and dt.name == 'float':
        r = elementwise(eng, st, lambda b: z3.If(truth(b), z3.RealVal(1), z3.RealVal(0)), v)
        r.esort = REAL
        return materialise(eng, st, r)
    def dtname():
        if dt is None:
            return None
        if isinstance(dt, Opaque) and dt.kind == 'builtin' and dt.name in ('int', 'float', 'bool'):
            return dt.name
        raise OutOfSubset('np.array dtype %r' % (dt,))

    def conv(x):
        """copy of array value x converted to the requested dtype (int: truncation toward zero, as numpy does)"""
        x = materialise(eng, st, x) if not isinstance(x, Ref) else x
        o = st.heap[x.oid]
        want = dtname()
        if want is None or (want == 'float' and o.esort == REAL) or (want == 'int' and o.esort == INT) or (want == 'bool' and o.esort == BOOL):
            return alloc(st, o.ndim, o.term, o.shape, o.esort)
        if want == 'float' and o.esort == INT:
            return materialise(eng, st, elementwise(eng, st, lambda q: to_z3(q, REAL), x))
        if want == 'int' and o.esort == REAL:
            def trunc(q):
                e = to_z3(q, REAL)
                t = int_valued(e)
                return t if t is not None else z3.If(e >= 0, z3.ToInt(e), -z3.ToInt(-e))
            r = elementwise(eng, st, trunc, x)
            r.esort = INT
            return materialise(eng, st, r)
        if want == 'int' and o.esort == BOOL:
            r = elementwise(eng, st, lambda b: z3.If(truth(b), z3.IntVal(1), z3.IntVal(0)), x)
            r.esort = INT
            return materialise(eng, st, r)
        raise OutOfSubset('np.array conversion %s -> %s' % (o.esort, want))
    if isinstance(v, (tuple, list)) and not isinstance(v, Opaque) and len(v) == 2 and all(isinstance(e, (Row, Ref)) and ndim_of(eng, st, e) == 1 for e in v) and dt is None:
        r1, r2 = as_row(eng, st, v[0]), as_row(eng, st, v[1])
        out = Mat((2, r1.n), lambda x, y, r1=r1, r2=r2: z3.If(x == 0, to_z3(r1.fn(y), REAL), to_z3(r2.fn(y), REAL)), REAL)
        out.stack2 = (r1, r2)
        return out
    if isinstance(v, SList):
        # np.array(list of equal-length 1-D arrays): row k of the result is element k; kept as a list of rows (read by `a[k]` only)
        if not all(isinstance(e, Ref) and st.heap[e.oid].ndim == 1 for _, e in v.slots):
            raise OutOfSubset('np.array of a list that is not a list of 1-D arrays')
        return SList(v.length, [(k, conv(e)) for k, e in v.slots])
    if isinstance(v, (Ref, Row, Mat)):
        return conv(v)
    raise OutOfSubset('np.array of %r' % (v,))


# ---- methods -----------------------------------------------------------------------------------------------------------
def method(eng, st, obj, name, args, kw, node):
    if isinstance(obj, Opaque) and obj.kind == 'rng':
        return rng_method(eng, st, obj, name, args, kw, node)
    if name == 'flatten' and ndim_of(eng, st, obj) == 1:
        return as_row(eng, st, obj)
    if name == 'copy':
        v = obj if isinstance(obj, Ref) else materialise(eng, st, obj)
        o = st.heap[v.oid]
        return alloc(st, o.ndim, o.term, o.shape, o.esort, {k: v_ for k, v_ in o.meta.items() if k == 'perm_inv'})
    if name == 'astype':
        t = args[0]
        if (isinstance(t, Opaque) and t.kind == 'builtin' and t.name == 'float') or t == 'float':
            if not _is_real(eng, st, obj):
                r_ = elementwise(eng, st, lambda q: to_z3(q, REAL), obj)
                r_.esort = REAL          # (elementwise keeps the element sort of its operand: a bool / int array must become a real one here)
                return r_
            if isinstance(obj, Ref):        # astype copies (copy=True is the default): a fresh array with the same contents
                o = st.heap[obj.oid]
                return alloc(st, o.ndim, o.term, o.shape, o.esort)
            return obj
        if isinstance(t, Opaque) and t.kind == 'builtin' and t.name == 'int':
            raise OutOfSubset('astype(int)')
        raise OutOfSubset('astype')
    if name == 'setflags':
        return None
    raise OutOfSubset('method .%s' % name)


def _is_real(eng, st, v):
    if isinstance(v, (Row, Mat)):
        return v.esort == REAL
    return st.heap[v.oid].esort == REAL


def rng_method(eng, st, obj, name, args, kw, node):
    if name == 'randint':
        k = to_z3(args[0], INT)
        size = kw.get('size', args[1] if len(args) > 1 else None)
        # numpy raises ValueError for k <= 0: exceptional path, postconditions do not apply
        cnt = 1
        if size is not None:
            if isinstance(size, (tuple, list)) and len(size) == 1 and isinstance(size[0], int):
                cnt = size[0]
            elif isinstance(size, int):
                cnt = size
            else:
                raise OutOfSubset('randint size')
        vals = []
        conds = [k > 0]
        for _ in range(cnt):
            v = fresh('rand', INT)
            conds += [v >= 0, v < k]
            vals.append(v)
        ok = z3.And(*conds)
        val = vals[0] if size is None else TupleV(vals)
        return Fork([(ok, val, None), (k <= 0, None, ExcV('ValueError'))])
    if name == 'random_sample':
        if kw:
            raise OutOfSubset('random_sample with keyword size')
        if args:
            sh = args[0]
            if not (isinstance(sh, (tuple, list)) and len(sh) == 2):
                raise OutOfSubset('random_sample with a non 2-D size')
            t = fresh('unif2', A2R)
            x, y = z3.Ints('x!u y!u')
            st.pc.append(z3.ForAll([x, y], z3.And(z3.Select(z3.Select(t, x), y) >= 0, z3.Select(z3.Select(t, x), y) < 1), patterns=[z3.Select(z3.Select(t, x), y)]))
            return alloc(st, 2, t, (sh[0], sh[1]), REAL)
        v = fresh('unif', REAL)
        st.pc += [v >= 0, v < 1]
        return v
    if name == 'permutation':
        n = to_z3(args[0], INT)
        p, pinv = fresh('perm', A1I), fresh('perminv', A1I)
        t = z3.Int('t!p')
        st.pc.append(z3.ForAll([t], z3.Implies(z3.And(t >= 0, t < n), z3.And(z3.Select(p, t) >= 0, z3.Select(p, t) < n, z3.Select(pinv, z3.Select(p, t)) == t)),
                               patterns=[z3.Select(p, t)]))
        st.pc.append(z3.ForAll([t], z3.Implies(z3.And(t >= 0, t < n), z3.And(z3.Select(pinv, t) >= 0, z3.Select(pinv, t) < n, z3.Select(p, z3.Select(pinv, t)) == t)),
                               patterns=[z3.Select(pinv, t)]))
        st.pc += [isperm(p, n), isperm(pinv, n)]
        return alloc(st, 1, p, (n,), INT, {'perm_inv': pinv})
    raise OutOfSubset('rng.%s' % name)
