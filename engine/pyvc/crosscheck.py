"""CPython cross-check of the sidecar contracts (DESIGN 2.1 'self-checks', 12.1): the ensures clauses are evaluated concretely
(engine/pyvc/concrete.py) on the REAL function for seeded random in-domain inputs.  A clause that is discharged symbolically
but false on a real run would expose an unsound encoding / wrong lemma; a clause that fails on a changed tree is a violation
with a concrete failing input (this is also how a z3 counter-model is replayed)."""
import importlib, sys
import numpy as np
from engine import weave as W
from engine.pyvc import concrete
from engine.srng import Scripted


def _und(r, n, signed=False, p=.6):
    A = np.triu((r.random_sample((n, n)) < p) * r.choice([.5, 1., 2., 3.], size=(n, n)), 1)
    if signed:
        A = A * r.choice([-1., 1.], size=(n, n))
    return A + A.T


def _dir(r, n, signed=False, p=.5):
    A = (r.random_sample((n, n)) < p) * r.choice([.5, 1., 2., 3.], size=(n, n))
    if signed:
        A = A * r.choice([-1., 1.], size=(n, n))
    np.fill_diagonal(A, 0)
    return A


def gen_inputs(key, r):
    """seeded random in-domain arguments for the contract `key` (None = no generator: contract not cross-checked)."""
    n = int(r.randint(4, 7))
    base = key.split('#')[0]
    if '#' in key:
        return None
    if base in ('randmio_und', 'randmio_und_connected', 'randmio_und_signed'):
        return dict(R=_und(r, n, signed=base.endswith('signed'), p=.7), itr=float(r.choice([0, .3, 1])), seed=Scripted((), fallback_seed=int(r.randint(1 << 30)), max_draws=20000))
    if base in ('randmio_dir', 'randmio_dir_connected', 'randmio_dir_signed'):
        return dict(R=_dir(r, n, signed=base.endswith('signed'), p=.6), itr=float(r.choice([0, .3, 1])), seed=Scripted((), fallback_seed=int(r.randint(1 << 30)), max_draws=20000))
    if base.startswith('latmio_'):
        R = _und(r, n, p=.7) if '_und' in base else _dir(r, n, p=.6)
        D = None
        if r.random_sample() < .5:
            D = r.randint(0, 4, (n, n)).astype(float)
            D = D + D.T
        return dict(R=R, itr=int(r.choice([0, 1])), D=D, seed=Scripted((), fallback_seed=int(r.randint(1 << 30)), max_draws=20000))
    if base == 'randomize_graph_partial_und':
        B = np.triu((r.random_sample((n, n)) < .2).astype(float), 1)
        return dict(A=_und(r, n, p=.5), B=B + B.T, maxswap=int(r.choice([0, 1, 2])), seed=Scripted((), fallback_seed=int(r.randint(1 << 30)), max_draws=3000))
    if base in ('threshold_absolute', 'binarize', 'invert', 'normalize'):
        Wm = r.choice([-2., -1., 0., 0., .5, 1., 2.], size=(n, n))
        d = dict(W=Wm, copy=bool(r.randint(2)))
        if base == 'threshold_absolute':
            d = dict(W=Wm, thr=float(r.choice([-1., 0., .5, 1., 1.5])), copy=d['copy'])
        if base == 'normalize' and not np.any(Wm):
            Wm[0, 1] = 1.
        return d
    if base == 'threshold_proportional':
        Wm = r.choice([0., 0., .5, 1., 1., 2., 3.], size=(n, n))
        if r.random_sample() < .5:
            Wm = np.triu(Wm, 1) + np.triu(Wm, 1).T
        return dict(W=Wm, p=float(r.choice([0., .1, .25, 1 / 3, .5, .7, 1.])), copy=bool(r.randint(2)))
    if base == 'pick_four_unique_nodes_quickly':
        return dict(n=int(r.randint(4, 10)), seed=Scripted((), fallback_seed=int(r.randint(1 << 30)), max_draws=2000))
    if base == 'distance_bin':
        return dict(G=_dir(r, n, p=float(r.choice([.2, .4, .7])))) if r.random_sample() < .5 else dict(G=_und(r, n, p=float(r.choice([.2, .5]))))
    if base == 'participation_coef':
        Wm = _und(r, n, p=.6) if r.random_sample() < .5 else np.abs(_dir(r, n, p=.5))
        return dict(W=Wm, ci=r.randint(0, 3, n) * 4 + 2, degree='undirected')
    if base in ('distance_wei', 'distance_wei:edges'):
        A = _dir(r, n, p=float(r.choice([.2, .4, .7]))) if r.random_sample() < .6 else _und(r, n, p=float(r.choice([.3, .6])))
        return dict(G=np.abs(A))
    if base in ('distance_wei_floyd:inv', 'distance_wei_floyd:paths:inv'):
        A = _dir(r, n, p=float(r.choice([.2, .4, .7]))) if r.random_sample() < .6 else _und(r, n, p=float(r.choice([.3, .6])))
        return dict(adjacency=np.abs(A), transform='inv')
    if base == 'clustering_coef_bu':
        A = (_und(r, n + int(r.randint(0, 3)), p=float(r.choice([.3, .5, .8]))) != 0).astype(float) if r.random_sample() < .7 else (_dir(r, n, p=.5) != 0).astype(float)
        return dict(G=A)
    if base == 'randomizer_bin_und:sparse':
        A = (_und(r, n + int(r.randint(0, 3)), p=float(r.choice([.2, .3, .4]))) != 0).astype(float)
        np.fill_diagonal(A, 0)
        return dict(R=A, alpha=float(r.choice([.5, 1.])), seed=Scripted((), fallback_seed=int(r.randint(1 << 30)), max_draws=20000))
    if base in ('distance_wei_floyd', 'distance_wei_floyd:paths'):
        A = _dir(r, n, p=float(r.choice([.2, .4, .7]))) if r.random_sample() < .6 else _und(r, n, p=float(r.choice([.3, .6])))
        return dict(adjacency=np.abs(A), transform=None)
    if base == 'efficiency_wei':
        A = _dir(r, n, p=float(r.choice([.2, .4, .7]))) if r.random_sample() < .6 else _und(r, n, p=float(r.choice([.3, .6])))
        return dict(Gw=np.abs(A), local=False)
    if base == 'reachdist':
        A = _dir(r, n, p=float(r.choice([.1, .25, .5]))) if r.random_sample() < .7 else _und(r, n, p=float(r.choice([.2, .5])))
        return dict(CIJ=A, ensure_binary=True)
    if base in ('breadth', 'breadthdist'):
        A = _dir(r, n, p=float(r.choice([.15, .3, .6]))) if r.random_sample() < .6 else _und(r, n, p=float(r.choice([.2, .5])))
        np.fill_diagonal(A, 0)
        return dict(CIJ=A, source=int(r.randint(n))) if base == 'breadth' else dict(CIJ=A)
    if base == 'efficiency_bin':
        return dict(G=_dir(r, n, p=float(r.choice([.2, .4, .7]))) if r.random_sample() < .5 else _und(r, n, p=float(r.choice([.2, .5]))), local=False)
    if base == 'teachers_round':
        return dict(x=float(r.choice([-2.5, -1.5, -.5, -.2, 0., .2, .5, 1.5, 2.5, 3.49999, -3.50001, 7.])))
    if base in ('kcore_bu', 'score_wu'):
        A = _und(r, n, p=.6)
        return dict(CIJ=(A != 0).astype(float), k=int(r.randint(1, 4))) if base == 'kcore_bu' else dict(CIJ=A, s=float(r.choice([.5, 1., 2., 3.5])))
    if base == 'kcore_bd':
        return dict(CIJ=(_dir(r, n) != 0).astype(float), k=int(r.randint(1, 5)))
    if base in ('modularity_finetune_und', 'modularity_finetune_dir', 'modularity_finetune_und_sign', 'modularity_probtune_und_sign'):
        Wm = _und(r, n, signed=base.endswith('sign'), p=.7) if '_und' in base else _dir(r, n, p=.6)
        if Wm.sum() <= 0 and not base.endswith('sign'):
            return None
        ci = r.randint(0, 3, n) * 3 + 2
        d = dict(W=Wm, ci=ci, gamma=float(r.choice([.8, 1., 1.3])), seed=Scripted((), fallback_seed=int(r.randint(1 << 30)), max_draws=20000))
        if base == 'modularity_probtune_und_sign':
            d['p'] = float(r.choice([0., .2, .5, 1.]))
        if base.endswith('sign'):
            d['qtype'] = str(r.choice(['sta', 'pos', 'smp', 'gja', 'neg']))
            if not ((Wm > 0).any() and (Wm < 0).any()):
                return None
        return d
    if base == 'makeringlatticeCIJ':
        nn = int(r.randint(1, 9))
        return dict(n=nn, k=int(r.randint(0, nn * nn - nn + 1)), seed=Scripted((), fallback_seed=int(r.randint(1 << 30)), max_draws=2000))
    if base in ('makerandCIJ_dir', 'makerandCIJ_und'):
        nn = int(r.randint(1, 8))
        top = nn * nn - nn if base.endswith('dir') else (nn * nn - nn) // 2
        return dict(n=nn, k=int(r.randint(0, top + 1)), seed=Scripted((), fallback_seed=int(r.randint(1 << 30)), max_draws=2000))
    if base == 'maketoeplitzCIJ':
        nn = int(r.randint(4, 9))
        return dict(n=nn, k=int(r.randint(2, 2 * nn)), s=float(r.choice([1., 1.5, 2.5])), seed=Scripted((), fallback_seed=int(r.randint(1 << 30)), max_draws=4000000))
    if base.startswith('community_louvain:'):
        obj = base.split(':')[1]
        nn = n + int(r.randint(0, 3))
        if obj == 'potts':
            Wm = (_und(r, nn, p=float(r.choice([.3, .5, .8]))) != 0).astype(float)
        else:
            Wm = _und(r, nn, signed=True, p=float(r.choice([.5, .8])))
            if not (Wm > 0).any():
                return None
            if r.random_sample() < .15:
                Wm = np.abs(Wm)
        if Wm.sum() == 0:
            return None
        return dict(W=Wm, gamma=float(r.choice([.8, 1., 1.3])), ci=None, B=obj, seed=Scripted((), fallback_seed=int(r.randint(1 << 30)), max_draws=200000))
    if base in ('community_louvain', 'community_louvain@ci'):
        nn = n + int(r.randint(0, 4))
        Wm = _und(r, nn, p=float(r.choice([.3, .5, .8]))) if r.random_sample() < .6 else np.abs(_dir(r, nn, p=float(r.choice([.3, .6]))))
        if Wm.sum() <= 0:
            return None
        start = None if base == 'community_louvain' else r.randint(0, 4, nn) * 5 + 3
        return dict(W=Wm, gamma=float(r.choice([.8, 1., 1.3])), ci=start, B='modularity', seed=Scripted((), fallback_seed=int(r.randint(1 << 30)), max_draws=200000))
    if base == 'modularity_louvain_und_sign':
        Wm = _und(r, n + int(r.randint(0, 4)), signed=True, p=float(r.choice([.4, .6, .9])))
        if r.random_sample() < .15:
            Wm = np.abs(Wm)          # no negative weights at all (s1 = 0 adjustment)
        return dict(W=Wm, gamma=float(r.choice([.8, 1., 1.3])), qtype=str(r.choice(['sta', 'pos', 'smp', 'gja', 'neg'])), seed=Scripted((), fallback_seed=int(r.randint(1 << 30)), max_draws=200000))
    if base == 'modularity_louvain_und':
        Wm = _und(r, n + int(r.randint(0, 4)), p=float(r.choice([.3, .5, .8])))
        if Wm.sum() <= 0:
            return None
        return dict(W=Wm, gamma=float(r.choice([.8, 1., 1.3])), hierarchy=False, seed=Scripted((), fallback_seed=int(r.randint(1 << 30)), max_draws=200000))
    return None


_WOVEN = {}


def woven(contract):
    k = (contract.module, contract.name)
    if k not in _WOVEN:
        mod = importlib.import_module(contract.module)

        def hook(val, locs):
            f._last_locals = {a: b for a, b in locs.items() if not a.startswith('__')}
            return val
        f = W.weave(mod, contract.name, hooks={'__retl': hook}, ret_hook='__retl', ret_locals=True)
        _WOVEN[k] = f
    return _WOVEN[k]


def crosscheck(contracts, seed, cases=40):
    """contracts: list of (key, Contract). returns (stats dict, violations list of (key, clause, witness, detail))."""
    stats, viol = {}, []
    for key, c in contracts:
        if getattr(c, 'source', None):
            continue          # corollary harness (contracts/corollaries.py): not repository code, nothing to run
        r = np.random.RandomState((seed * 1000003 + hash(key) % 100000) % (1 << 31))
        try:
            f = woven(c)
        except Exception as e:
            stats[key] = {'error': 'cannot weave: %r' % e}
            continue
        st = {'cases': 0, 'clauses_evaluated': 0, 'held': 0, 'skipped_clauses': set(), 'raised': 0}
        for _ in range(cases):
            args = gen_inputs(key, r)
            if args is None:
                continue
            if not concrete.requires_hold(c, args):
                continue
            res, raised, _ = concrete.check_call(c, f, args)
            if raised == 'DrawLimit':
                continue
            st['cases'] += 1
            st['raised'] += raised is not None
            for name, status, detail in res:
                if status == 'skipped':
                    st['skipped_clauses'].add(name)
                    continue
                st['clauses_evaluated'] += 1
                if status == 'held':
                    st['held'] += 1
                else:
                    viol.append((key, name, {k2: (v.tolist() if isinstance(v, np.ndarray) else (repr(v) if not isinstance(v, (int, float, str, bool, type(None))) else v)) for k2, v in args.items()}, detail))
        st['skipped_clauses'] = sorted(st['skipped_clauses'])
        if st['cases']:
            stats[key] = st
    return stats, viol
