"""Concrete evaluation of contract clauses on the real function (CPython cross-check and counter-model replay).

The clause language of the sidecar contracts is interpreted over numpy values: the real function is called (through a woven
copy that hands its locals to the evaluator at every return), and every `ensures` clause that mentions only inputs, outputs
and locals is evaluated.  Quantifiers range over all indices of the arrays involved (plus one out-of-range value on each
side, which the clauses' own `inr` guards must exclude).  Spec functions are computed from their definitions with numpy:
this is an executable reading of the same specification text that the VC generator discharges symbolically, so a clause that
is provable but false on real runs exposes an unsound encoding or a wrong lemma.

Clauses that mention ghost state (snapshots taken inside the function, Skolem sets) cannot be evaluated and are reported as
skipped.
"""
import ast, itertools, math
import numpy as np


class Skip(Exception):
    pass


class Env:
    def __init__(self, args, result, locs, raised=None):
        self.args, self.result, self.locs, self.raised = args, result, locs, raised
        sizes = [1]
        for v in list(args.values()) + [result] + list(locs.values()):
            for a in (v if isinstance(v, (tuple, list)) else [v]):
                if isinstance(a, np.ndarray):
                    sizes.extend(a.shape)
        self.N = int(max(sizes))
        self.bound = {}


def _F(w):
    # a fixed 'generic' statistic with F(0) = 0 (equality of sum F over two matrices for this F is a necessary condition of
    # multiset equality; the multiset itself is compared by the callers that need it)
    return float(w) ** 3 + 0.37 * float(w) * abs(float(w)) + 1.93 * float(w)


def _mat(v):
    return np.asarray(v, dtype=float)


def _modsum(W, c, x, m, n):
    return float(sum(W[x, y] for y in range(n) if c[y] == m + 1))


def _modsumT(W, c, x, m, n):
    return float(sum(W[y, x] for y in range(n) if c[y] == m + 1))


def _Q(W, c, gamma, n):
    W = _mat(W)[:n, :n]
    s = W.sum()
    ko, ki = W.sum(1), W.sum(0)
    c = np.asarray(c)[:n]
    same = c[:, None] == c[None, :]
    return float(((W - gamma * np.outer(ko, ki) / s) * same).sum() / s)


def _Qrawg(W, c, gamma, sd, n):
    W = _mat(W)[:n, :n]
    ko, ki = W.sum(1), W.sum(0)
    c = np.asarray(c)[:n]
    same = c[:, None] == c[None, :]
    return float(((W - gamma * np.outer(ko, ki) / sd) * same).sum())


def _wd(G, x, y):
    """minimum total length over walks from x to y (0 for x == y); inf if unreachable: Floyd-Warshall on the positive lengths"""
    A = _mat(G)
    n = len(A)
    D = np.where(A != 0, A, np.inf)
    np.fill_diagonal(D, 0)
    for k in range(n):
        D = np.minimum(D, D[:, [k]] + D[[k], :])
    return float(D[x, y])


def _wwalkr(G, x, y, m, l):
    """is there a walk of exactly m connections (m a natural number) from x to y with total length l?  (set of reachable (node, length) pairs, m steps)"""
    A = _mat(G)
    n = len(A)
    if abs(m - round(m)) > 1e-9 or m < 0 or m > 4 * n:
        return False
    cur = {(int(x), 0.0)}
    for _ in range(int(round(m))):
        nxt = set()
        for (u, ln) in cur:
            for w in range(n):
                if A[u, w] != 0:
                    nxt.add((w, round(ln + float(A[u, w]), 9)))
        cur = nxt
    return any(u == int(y) and abs(ln - float(l)) < 1e-7 for (u, ln) in cur)


def _sdist(G, x, y, n=None):
    A = (np.asarray(G) != 0)
    n = len(A)
    # shortest walk of length >= 1 from x to y (0 if none): BFS over walk lengths
    front = set(np.nonzero(A[x])[0].tolist())
    seen = set()
    d = 1
    while front and d <= 2 * n + 2:
        if y in front:
            return d
        seen |= front
        nxt = set()
        for u in front:
            nxt |= set(np.nonzero(A[u])[0].tolist())
        front = nxt - seen
        d += 1
    return 0


def _walk(G, x, y, m):
    A = (np.asarray(G) != 0).astype(int)
    P = np.linalg.matrix_power(A, int(m)) if m >= 1 else np.eye(len(A), dtype=int)
    return bool(P[x, y] != 0)


SPEC = {
    'nbrsum': (lambda G, u, n: float(sum(_mat(G)[v, w] for v in range(int(n)) for w in range(int(n)) if _mat(G)[u, v] != 0 and _mat(G)[u, w] != 0))),
    'wwalkr': _wwalkr, 'sdist': _sdist, 'walk': _walk, 'wd': _wd, 'Qrawg': _Qrawg, 'msq': (lambda W, c, x, k, n: float(sum(_modsum(_mat(W), c, x, m, n) ** 2 for m in range(int(k))))), 'QrawB': (lambda B, c, n: float((_mat(B)[:n, :n] * (np.asarray(c)[:n, None] == np.asarray(c)[None, :n])).sum())), 'umul': (lambda a, b: a * b), 'udiv': (lambda a, b: a / b),
    'rcnt': lambda M, x, n: int(np.count_nonzero(_mat(M)[x, :n])), 'ccnt': lambda M, y, n: int(np.count_nonzero(_mat(M)[:n, y])),
    'rsum': lambda M, x, n: float(_mat(M)[x, :n].sum()), 'csum': lambda M, y, n: float(_mat(M)[:n, y].sum()),
    'rpos': lambda M, x, n: int((_mat(M)[x, :n] > 0).sum()), 'rneg': lambda M, x, n: int((_mat(M)[x, :n] < 0).sum()),
    'cpos': lambda M, y, n: int((_mat(M)[:n, y] > 0).sum()), 'cneg': lambda M, y, n: int((_mat(M)[:n, y] < 0).sum()),
    'totF': lambda M, n: float(sum(_F(w) for w in _mat(M)[:n, :n].ravel())),
    'totFp': lambda M, n: float(sum(_F(w) for w in _mat(M)[:n, :n].ravel() if w > 0)),
    'totFn': lambda M, n: float(sum(_F(w) for w in _mat(M)[:n, :n].ravel() if w < 0)),
    'tsum': lambda M, n: float(_mat(M)[:n, :n].sum()),
    'dot2': lambda D, M, n: float((_mat(D)[:n, :n] * _mat(M)[:n, :n]).sum()),
    'modsum': _modsum, 'modsumT': _modsumT,
    'degsum': lambda W, c, m, n: float(sum(_mat(W)[x, :n].sum() for x in range(n) if c[x] == m + 1)),
    'degsumT': lambda W, c, m, n: float(sum(_mat(W)[:n, x].sum() for x in range(n) if c[x] == m + 1)),
    'Qmod': _Q,
    'cntb': lambda b, n: int(np.count_nonzero(np.asarray(b)[:n])),
    'abs': abs, 'int': lambda v: int(v) if v >= 0 else -int(-v),
}


def close(a, b):
    if isinstance(a, (bool, np.bool_)) or isinstance(b, (bool, np.bool_)):
        return bool(a) == bool(b)
    try:
        if math.isinf(float(a)) or math.isinf(float(b)):
            return float(a) == float(b)
        return bool(np.isclose(float(a), float(b), rtol=1e-9, atol=1e-9))
    except (TypeError, ValueError):
        return a == b


class Eval:
    def __init__(self, env):
        self.e = env

    def ev(self, node):
        m = getattr(self, 'ev_' + type(node).__name__, None)
        if m is None:
            raise Skip('clause construct %s' % type(node).__name__)
        return m(node)

    def ev_Constant(self, n):
        return n.value

    def ev_Name(self, n):
        if n.id in self.e.bound:
            return self.e.bound[n.id]
        if n.id in self.e.locs:
            return self.e.locs[n.id]
        if n.id == 'INF':
            return float('inf')
        if n.id == 'n0':
            a = next((v for v in self.e.args.values() if isinstance(v, np.ndarray) and v.ndim == 2), None)
            if a is None:
                if isinstance(self.e.args.get('n'), (int, np.integer)):
                    return int(self.e.args['n'])       # generators: the size is the argument n
                raise Skip('n0')
            return a.shape[0]
        if n.id in self.e.args:
            return self.e.args[n.id]
        raise Skip('name %s (ghost state or not a local at return)' % n.id)

    def ev_UnaryOp(self, n):
        v = self.ev(n.operand)
        if isinstance(n.op, ast.Not):
            return not v
        if isinstance(n.op, ast.USub):
            return -v
        raise Skip('unary')

    def ev_BoolOp(self, n):
        if isinstance(n.op, ast.And):
            return all(self.ev(v) for v in n.values)
        return any(self.ev(v) for v in n.values)

    def ev_IfExp(self, n):
        return self.ev(n.body) if self.ev(n.test) else self.ev(n.orelse)

    def ev_BinOp(self, n):
        a, b = self.ev(n.left), self.ev(n.right)
        op = type(n.op)
        if op is ast.Add: return a + b
        if op is ast.Sub: return a - b
        if op is ast.Mult: return a * b
        if op is ast.Div: return a / b
        if op is ast.Mod: return a % b
        if op is ast.Pow: return a ** b
        raise Skip('binop')

    def ev_Compare(self, n):
        left = self.ev(n.left)
        for op, rn in zip(n.ops, n.comparators):
            right = self.ev(rn)
            t = type(op)
            if t is ast.Eq: ok = close(left, right)
            elif t is ast.NotEq: ok = not close(left, right)
            elif t is ast.Lt: ok = left < right and not close(left, right)
            elif t is ast.LtE: ok = left <= right or close(left, right)
            elif t is ast.Gt: ok = left > right and not close(left, right)
            elif t is ast.GtE: ok = left >= right or close(left, right)
            else: raise Skip('compare')
            if not ok:
                return False
            left = right
        return True

    def ev_Tuple(self, n):
        return tuple(self.ev(e) for e in n.elts)

    def ev_Subscript(self, n):
        base = self.ev(n.value)
        idx = self.ev(n.slice)
        return np.asarray(base)[idx]

    def ev_Call(self, n):
        f = n.func.id if isinstance(n.func, ast.Name) else None
        if f == 'forall':
            lam = n.args[0]
            names = [a.arg for a in lam.args.args]
            for vals in itertools.product(range(-1, self.e.N + 1), repeat=len(names)):
                saved = dict(self.e.bound)
                self.e.bound.update(dict(zip(names, vals)))
                try:
                    ok = self.ev(lam.body)
                finally:
                    self.e.bound = saved
                if not ok:
                    self.e.last_counterexample = dict(zip(names, vals))
                    return False
            return True
        if f == 'implies':
            return (not self.ev(n.args[0])) or bool(self.ev(n.args[1]))
        if f == 'iff':
            return bool(self.ev(n.args[0])) == bool(self.ev(n.args[1]))
        if f == 'Not':
            return not self.ev(n.args[0])
        if f == 'And':
            return all(self.ev(a) for a in n.args)
        if f == 'Or':
            return any(self.ev(a) for a in n.args)
        if f == 'inr':
            v, hi = self.ev(n.args[0]), self.ev(n.args[1])
            return 0 <= v < hi
        if f == 'arg':
            return self.e.args[n.args[0].value]
        if f == 'result':
            r = self.e.result
            return r[n.args[0].value] if n.args else r
        if f == 'result_is_empty':
            r = self.e.result
            return isinstance(r, (list, tuple)) and len(r) == 0
        if f == 'unchanged':
            return self.e.unchanged[n.args[0].value]
        if f == 'raised':
            return self.e.raised == n.args[0].value
        if f == 'same_object':
            return self.ev(n.args[0]) is self.ev(n.args[1])
        if f == 'argref':
            return self.e.argrefs[n.args[0].value]
        if f == 'shape_is':
            v = np.asarray(self.ev(n.args[0]))
            return tuple(v.shape) == tuple(int(self.ev(a)) for a in n.args[1:])
        if f == 'isperm':
            v, k = np.asarray(self.ev(n.args[0])), int(self.ev(n.args[1]))
            return sorted(v[:k].tolist()) == list(range(k))
        if f == 'lam1':
            lam = n.args[0]
            k = int(self.ev(n.args[1]))
            out = []
            for q in range(k):
                saved = dict(self.e.bound)
                self.e.bound[lam.args.args[0].arg] = q
                try:
                    out.append(self.ev(lam.body))
                finally:
                    self.e.bound = saved
            return np.array(out)
        if f in ('unique_count', 'unique_witness'):
            # concrete reading for contracts whose LAST np.unique call produced the returned labels (inverse + 1): the number of
            # distinct labels / the first position carrying label t + 1
            r = self.e.result
            lab = np.asarray(r[0] if isinstance(r, tuple) else r)
            if 'ci' in self.e.locs and getattr(self.e, 'unique_from_local_ci', False):
                lab = np.asarray(self.e.locs['ci'])        # contracts whose last np.unique produced the LOCAL label vector ci
            if f == 'unique_count':
                return int(len(np.unique(lab)))
            t = int(self.ev(n.args[0]))
            pos = np.flatnonzero(lab == t + 1)
            return int(pos[0]) if len(pos) else -1
        if f == 'lam2':
            lam = n.args[0]
            k = int(self.ev(n.args[1]))
            a0, a1 = [a.arg for a in lam.args.args]
            out = np.zeros((k, k))
            for x in range(k):
                for y in range(k):
                    saved = dict(self.e.bound)
                    self.e.bound[a0], self.e.bound[a1] = x, y
                    try:
                        out[x, y] = self.ev(lam.body)
                    finally:
                        self.e.bound = saved
            return out
        if f == 'rounds_to':
            import fractions
            r, x = self.ev(n.args[0]), self.ev(n.args[1])
            fx = fractions.Fraction(float(x))
            fr = fractions.Fraction(float(r))
            half = fractions.Fraction(1, 2)
            # the float quotient may sit one ulp off an exact half: accept either neighbour when |r - x| is within 1e-9 of 1/2
            if abs(abs(fr - fx) - half) < fractions.Fraction(1, 10 ** 9):
                return float(r) == int(r)
            return float(r) == int(r) and abs(fr - fx) < half
        if f is None and isinstance(n.func, ast.Attribute) and ast.unparse(n.func) == 'np.size':
            return int(np.size(self.ev(n.args[0])))
        if f in SPEC:
            return SPEC[f](*[self.ev(a) for a in n.args])
        raise Skip('spec function %s' % f)


def check_call(contract, func, args, kwargs=None, extra_locals=None):
    """Calls func(**args) (func is the REAL function, or a woven copy that reports its locals through `_locals_sink`) and
    evaluates the contract's ensures clauses. returns list of (clause name, status in {'held','violated','skipped'}, detail)."""
    import copy as _copy
    kwargs = kwargs or {}
    snap = {k: (v.copy() if isinstance(v, np.ndarray) else _copy.deepcopy(v)) for k, v in args.items()}
    sink = {}
    raised = None
    try:
        result = func(**args, **kwargs) if not hasattr(func, '_locals_sink') else func(**args, **kwargs)
    except Exception as e:
        raised = type(e).__name__
        result = None
    locs = dict(getattr(func, '_last_locals', {}) or {})
    locs.update(extra_locals or {})
    cg = getattr(contract, 'concrete_ghosts', None)
    if cg is not None and raised is None:
        # concrete values of the contract's ghost names (what the ghost code defines them to be), computed from the arguments
        # before the call, the result and the locals at return
        locs.update(cg(snap, result, locs))
    env = Env(snap, result, locs, raised)
    env.unchanged = {k: (isinstance(args[k], np.ndarray) and np.array_equal(args[k], snap[k], equal_nan=True) and args[k].dtype == snap[k].dtype) if isinstance(snap[k], np.ndarray) else True
                     for k in args}
    env.argrefs = args
    env.unique_from_local_ci = bool(getattr(contract, 'unique_from_local_ci', False))
    out = []
    clauses = contract.ensures if raised is None else contract.ensures_raises
    for name, src in clauses:
        ev = Eval(env)
        try:
            ok = ev.ev(ast.parse(src, mode='eval').body)
            out.append((name, 'held' if ok else 'violated', '' if ok else 'counterexample of the quantified variables: %s' % getattr(env, 'last_counterexample', None)))
        except Skip as s:
            out.append((name, 'skipped', str(s)))
        except (IndexError, ZeroDivisionError, ValueError, TypeError) as e:
            out.append((name, 'skipped', 'not evaluable: %r' % e))
    return out, raised, result


def requires_hold(contract, args):
    env = Env(args, None, {}, None)
    env.unchanged, env.argrefs = {}, args
    for name, src in contract.requires:
        try:
            if not Eval(env).ev(ast.parse(src, mode='eval').body):
                return False
        except Skip:
            continue
        except (IndexError, ZeroDivisionError, ValueError, TypeError):
            return False
    return True
