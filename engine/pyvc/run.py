"""Driver: contract -> obligations generated from /repo's current source -> discharged."""
import ast, os, time, importlib
import z3
from . import core, solve
from .core import Opaque, Engine, OutOfSubset, ContractError
from engine.common import REPO, Obligation as EvObl


def load_funcdef(module, qualname, source=None):
    # source: corollary harnesses (lemmas over proved contracts) live in /verif, not in the repository
    path = source or (os.path.join(REPO, *module.split('.')) + '.py')
    src = open(path).read()
    tree = ast.parse(src)
    body, node = tree.body, None
    for p in qualname.split('.'):
        node = next((n for n in body if isinstance(n, ast.FunctionDef) and n.name == p), None)
        if node is None:
            raise ContractError('function %s not found in %s' % (qualname, path))
        body = node.body
    return node, path


def callee_get_rng(eng, st, args, kw, node):
    return Opaque('rng')


def callee_number_of_components(eng, st, args, kw, node):
    c = core.fresh('ncomp', core.INT)
    st.pc.append(c >= 1)
    st.ghost['ncomp_last'] = c
    return c


def callee_pick_four(eng, st, args, kw, node):
    """contract of bct.utils.pick_four_unique_nodes_quickly(n, rng) (proved separately, contracts/misc.py): four pairwise
    distinct integers in [0, n). Partial correctness: for n < 4 the real function does not return."""
    import z3
    n = core.to_z3(args[0], core.INT)
    vs = [core.fresh('node', core.INT) for _ in range(4)]
    for v in vs:
        st.pc += [v >= 0, v < n]
    st.pc.append(z3.Distinct(*vs))
    return core.TupleV(vs)


def _cols(eng, st, M, f):
    from . import npspec
    m = npspec.as_mat(eng, st, M)
    ref = M if isinstance(M, core.Ref) else npspec.materialise(eng, st, m)
    t = eng.pure(st.heap[ref.oid].term)
    n = core.to_z3(m.shape[0], core.INT)
    return t, n, m


def callee_degrees_und(eng, st, args, kw, node):
    """contract of bct.degrees_und (np.sum(binarize(CIJ), axis=0)): deg[q] = number of nonzero entries of column q."""
    t, n, m = _cols(eng, st, args[0], None)
    return core.Row(m.shape[0], lambda q: core.ccnt(t, q, n), core.INT)


def callee_degrees_dir(eng, st, args, kw, node):
    """contract of bct.degrees_dir: (column counts, row counts, their sum)."""
    t, n, m = _cols(eng, st, args[0], None)
    import z3
    idg = core.Row(m.shape[0], lambda q: core.ccnt(t, q, n), core.INT)
    odg = core.Row(m.shape[0], lambda q: core.cnt1(z3.Select(t, q), n), core.INT)
    deg = core.Row(m.shape[0], lambda q: core.ccnt(t, q, n) + core.cnt1(z3.Select(t, q), n), core.INT)
    return core.TupleV((idg, odg, deg))


def callee_strengths_und(eng, st, args, kw, node):
    """contract of bct.strengths_und (np.sum(CIJ, axis=0)): str[q] = sum of column q."""
    t, n, m = _cols(eng, st, args[0], None)
    return core.Row(m.shape[0], lambda q: core.csum(t, q, n), core.REAL)


def callee_teachers_round(eng, st, args, kw, node):
    """contract of bct.utils.teachers_round (proved separately, contracts/utils.py): the nearest integer, exact halves away from zero."""
    import z3
    x = core.to_z3(args[0], core.REAL)
    r = core.fresh('tround', core.INT)
    rr = z3.ToReal(r)
    st.pc += [rr >= x - z3.RealVal('1/2'), rr <= x + z3.RealVal('1/2'), z3.Implies(rr - x == z3.RealVal('1/2'), x > 0), z3.Implies(x - rr == z3.RealVal('1/2'), x < 0)]
    return r


def callee_binarize(eng, st, args, kw, node):
    """contract of bct.utils.binarize (proved: contracts/utils.py) for copy=True: a fresh matrix, 1 where the argument is non-zero, 0 elsewhere."""
    import z3
    from . import npspec
    cp = kw.get('copy', args[1] if len(args) > 1 else True)
    if cp is not True:
        raise OutOfSubset('binarize with copy != True inside a function under contract')
    m = npspec.as_mat(eng, st, args[0])
    return npspec.materialise(eng, st, core.Mat(m.shape, lambda x, y: z3.If(core.to_z3(m.fn(x, y), core.REAL) != 0, z3.RealVal(1), z3.RealVal(0)), core.REAL))


def callee_from_clauses(name, params, requires, ensures, results, ghosts=None, rebinds=None, fresh_ghosts=None):
    """Callee stub generated from contract clauses (the same clause texts that the callee's own contract proves): at the call site the
    parameters are bound to the actual arguments, every `requires` clause becomes an obligation of the caller, the results are fresh
    values of the declared kinds and exactly the `ensures` clauses are assumed about them (`result(k)` refers to them).
    results: list of ('mat'|'bmat'|'int', shape-expression strings evaluated with the parameters bound); ghosts: name -> expression.
    rebinds: name -> ('mat', dims...): names that the callee re-binds before it returns (e.g. `G = binarize(G, copy=True)`): in the ensures
    clauses they denote the callee's local value at return, modelled as a fresh matrix about which only the ensures clauses speak, while
    arg('G') denotes the actual argument."""
    def _free_names(src):
        tree = ast.parse(src, mode='eval')
        bound = {a.arg for n_ in ast.walk(tree) if isinstance(n_, ast.Lambda) for a in n_.args.args}
        return {n_.id for n_ in ast.walk(tree) if isinstance(n_, ast.Name)} - bound

    def stub(eng, st, args, kw, node):
        if kw:
            # keyword arguments are matched to the parameter names of the callee
            args = list(args)
            for p_ in params[len(args):]:
                if p_ not in kw:
                    raise OutOfSubset('call of %s: parameter %s not given' % (name, p_))
                args.append(kw[p_])
            if set(kw) - set(params):
                raise OutOfSubset('call of %s with unknown keywords' % name)
        if len(args) != len(params):
            raise OutOfSubset('call of %s with wrong arity' % name)
        # capture guard: a clause of the callee that mentions one of ITS locals must not be read with a variable of the caller of the same name
        declared = set(params) | set(rebinds or {}) | set(ghosts or {}) | set(fresh_ghosts or ()) | set(core.SPEC_BUILTINS) | {'INF', 'n0', 'True', 'False', 'None', 'np'}
        for cname, src in list(requires) + list(ensures):
            for nm in _free_names(src) - declared:
                if nm in st.env:
                    raise ContractError('stub of %s: clause `%s` mentions `%s`, a local of the callee that is not declared in rebinds, while the caller has a variable of that name' % (name, cname, nm))
        allnames = list(params) + [k for k in (rebinds or {}) if k not in params]
        saved_env = {k: st.env[k] for k in allnames if k in st.env}
        missing_env = [k for k in params if k not in st.env]
        saved_ghost = dict(st.ghost)
        try:
            for k, a in zip(params, args):
                if isinstance(a, (core.Row, core.Mat)):
                    a = eng.np.materialise(eng, st, a)
                st.env[k] = a
            for g, src in (ghosts or {}).items():
                st.ghost[g] = eng.ev_str(src, st)
            st.ghost['_stub_args'] = {k: st.env[k] for k in params}
            for cname, src in requires:
                eng.oblige(st, 'call[%s]/requires/%s' % (name, cname), core.truth(eng.ev_str(src, st)))
            res = []
            for kind, *dims in results:
                shp = tuple(eng.ev_str(d, st) for d in dims)
                if kind == 'mat':
                    res.append(core.alloc(st, 2, core.fresh('res_' + name, core.A2R), shp, core.REAL))
                elif kind == 'bmat':
                    res.append(core.alloc(st, 2, core.fresh('res_' + name, z3.ArraySort(core.INT, z3.ArraySort(core.INT, core.BOOL))), shp, core.BOOL))
                elif kind == 'vec':
                    res.append(core.alloc(st, 1, core.fresh('res_' + name, core.A1R), shp, core.REAL))
                elif kind == 'imat':
                    res.append(core.alloc(st, 2, core.fresh('res_' + name, core.A2I), shp, core.INT))
                elif kind == 'int':
                    res.append(core.fresh('res_' + name, core.INT))
                elif kind == 'real':
                    res.append(core.fresh('res_' + name, core.REAL))
                else:
                    raise ContractError('result kind %s' % kind)
            st.ghost['_result'] = core.TupleV(res) if len(res) != 1 else res[0]
            for gname in (fresh_ghosts or ()):
                # ghost results of the callee (e.g. the number of distinct labels found by np.unique): a fresh integer per call
                st.ghost[gname] = core.fresh('gh_%s_%s' % (name, gname), core.INT)
                st.ghost['%s__%s' % (name, gname)] = st.ghost[gname]
            for nm, (kind, *dims) in (rebinds or {}).items():
                shp_ = tuple(eng.ev_str(d, st) for d in dims)
                if kind == 'mat':
                    st.env[nm] = core.alloc(st, 2, core.fresh('loc_%s_%s' % (name, nm), core.A2R), shp_, core.REAL)
                elif kind == 'ivec':
                    st.env[nm] = core.alloc(st, 1, core.fresh('loc_%s_%s' % (name, nm), core.A1I), shp_, core.INT)
                elif kind == 'bvec':
                    st.env[nm] = core.alloc(st, 1, core.fresh('loc_%s_%s' % (name, nm), core.A1B), shp_, core.BOOL)
                else:
                    raise ContractError('rebind kind %s' % kind)
                st.ghost['%s__%s' % (name, nm)] = st.env[nm]       # the caller's ghost code may name the callee's local (lemma instances about it)
            for cname, src in ensures:
                st.pc.append(core.truth(eng.ev_str(src, st)))
            return core.TupleV(res) if len(res) != 1 else res[0]
        finally:
            for k in allnames:
                st.env.pop(k, None)
            st.env.update(saved_env)
            keep = {k: v for k, v in st.ghost.items() if (k not in saved_ghost or k.startswith(name + '__')) and k not in (ghosts or {}) and k not in ('_result', '_stub_args') and k not in (fresh_ghosts or ())}
            st.ghost = dict(saved_ghost)
            st.ghost.update(keep)
    return stub


DEFAULT_CALLEES = {'binarize': callee_binarize, 'teachers_round': callee_teachers_round, 'round': callee_teachers_round, 'degrees_und': callee_degrees_und, 'degrees_dir': callee_degrees_dir, 'strengths_und': callee_strengths_und, 'pick_four_unique_nodes_quickly': callee_pick_four, 'get_rng': callee_get_rng, 'number_of_components': callee_number_of_components}


def generate(contract, callees=None):
    fd, path = load_funcdef(contract.module, contract.name, getattr(contract, 'source', None))
    cal = dict(DEFAULT_CALLEES)
    cal.update(callees or {})
    cal.update(getattr(contract, 'callees', None) or {})
    eng = Engine(contract, fd, cal)
    obls = eng.run()
    for o in obls:
        o.premises = list(eng.defs) + list(o.premises)
    eng.entry_premises = list(eng.defs) + list(eng.entry_premises)
    eng.canaries = [(nm, list(eng.defs) + list(pc)) for nm, pc in eng.canaries]
    return eng, obls


def verify(contract, timeout_s=30, callees=None, include=None, exclude=None):
    """returns (list of engine.common.Obligation, info dict). Never raises for contract/subset problems: reports them."""
    t0 = time.time()
    info = {'function': contract.module + '.' + contract.name, 'status': 'ok', 'abstracted': [], 'vacuous': []}
    try:
        eng, obls = generate(contract, callees)
    except OutOfSubset as e:
        info['status'] = 'out-of-subset: %s' % e
        return [], info
    except ContractError as e:
        info['status'] = 'contract-does-not-bind: %s' % e
        return [], info
    info['abstracted'] = eng.abstracted
    import re
    info['generated'] = len(obls)
    obls = [o for o in obls if (include is None or re.search(include, o.name)) and not (exclude and re.search(exclude, o.name))]
    # obligation names need not be unique (two calls of the same callee give two `call[f]/requires/...`): discharge under unique ids
    names = [o.name for o in obls]
    for i, o in enumerate(obls):
        o.name = '%s@@%d' % (names[i], i)
    res = solve.discharge(obls, timeout_s=timeout_s)
    for o, nm in zip(obls, names):
        o.name = nm
    info['vacuous'] = solve.vacuity(eng)
    info['gen_seconds'] = time.time() - t0
    out = [EvObl(r['name'].rsplit('@@', 1)[0], info['function'], r['status'], r['backend'], r['seconds'], r['detail'], r['kind']) for r in res]
    return out, info


def verify_many(items, timeout_s=30, known_open=None):
    """items: list of (key, contract, include, exclude). Generates all obligations first, then discharges them in ONE pool
    (better use of the cores). returns dict key -> (list of engine.common.Obligation, info)."""
    import re
    gen, out = {}, {}
    allobls, axioms = [], None
    for key, contract, include, exclude in items:
        t0 = time.time()
        info = {'function': contract.module + '.' + contract.name, 'status': 'ok', 'abstracted': [], 'vacuous': []}
        try:
            eng, obls = generate(contract)
        except OutOfSubset as e:
            info['status'] = 'out-of-subset: %s' % e
            out[key] = ([], info)
            continue
        except ContractError as e:
            info['status'] = 'contract-does-not-bind: %s' % e
            out[key] = ([], info)
            continue
        info['abstracted'] = eng.abstracted
        info['generated'] = len(obls)
        obls = [o for o in obls if (include is None or re.search(include, o.name)) and not (exclude and re.search(exclude, o.name))]
        for i, o in enumerate(obls):
            o.uid = '%s@@%d' % (key, i)
        gen[key] = (eng, obls, info, time.time() - t0)
        allobls.extend(obls)
    # one pool for everything (names made unique through uid)
    saved = [(o, o.name) for o in allobls]
    for o in allobls:
        o.name = o.uid
    orig = {o.uid: nm for o, nm in saved}
    specs = {key: getattr(c, 'inputs', None) for key, c, _, _ in items}
    res = {r['name']: r for r in solve.discharge(allobls, timeout_s=timeout_s, no_escalate=(lambda uid: known_open(orig[uid])) if known_open else None,
                                                 model_spec=lambda uid: specs.get(uid.split('@@')[0]))}
    for o, nm in saved:
        o.name = nm
    for key, (eng, obls, info, gsec) in gen.items():
        info['vacuous'] = solve.vacuity(eng)
        info['gen_seconds'] = gsec
        lst = []
        for o in obls:
            r = res[o.uid]
            lst.append(EvObl(o.name, info['function'], r['status'], r['backend'], r['seconds'], r['detail'], r['kind']))
        out[key] = (lst, info)
    return out
